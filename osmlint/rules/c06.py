"""C06 -- parse result is independent of how the input byte stream is chunked: STALE(W) + carry-over mutation discipline.

Every parser receives the byte stream as a sequence of pieces (`Parser::get_input()`, end marked by the queue state
`Parser::input_done()`).  Bytes that were received but not yet consumed live in a *carry-over*: `PBFParser::m_input_buffer`,
`O5mParser::m_input` (with the window pointers `m_data`/`m_end` into it) and the local `rest` of `line_by_line()`; the XML
parser hands every piece to expat.  All anchors are found by ROLE (a std::string that receives a piece popped with
get_input(); pointer members assigned from a sibling string; the function that calls XML_Parse; ...), not by name.

Decided (DESIGN.md section 5, C06):
 clause 1  W1-window-rederived            pointer members that alias a sibling string are re-derived after every relocation of
                                           that string before each normal exit (STALE engine, rule_fields); extended to window
                                           pointers that are only compared / passed as a bound (m_end)      -> finding F2
           W2-refill-result-decides        every caller of the window refill method branches on its result; where the result is
                                           ignored or false, the window is only read through calls bounded by the end pointer
           W3-no-stale-local               no local pointer into a piece / carry-over is used after the string was mutated
           W4-varint-read-window-refilled  an end-bounded decode straight from the window (decode_varint(&m_data, m_end)) is preceded on
                                           every path by a refill request for >= max_varint_length bytes (result may be ignored); a
                                           smaller request makes "premature end" depend on a piece boundary inside the varint
 clause 2  M1-carry-over-mutation-whitelist every mutation of a carry-over is: append of the whole new piece, append of the
                                           piece's prefix up to its first line break, erase of a prefix, capacity change, or
                                           (local carry-over only) clear / assignment of the unconsumed suffix of the current
                                           piece after the held bytes were handed to the consumer
           M2-piece-kept                   every piece popped is, on every path that does not see end-of-input, appended whole /
                                           suffix-kept / fed to expat before the next pop or a normal exit
           M3-erase-is-consumed-prefix     the erased prefix is `window begin - string begin` or the amount the caller ensured
           M4-ensure-pop-paired            (PBF) ensure(n) ... pop(n) pairwise with the same n, reads of the carry-over between
                                           them use the same n, no read after the pop
           M5-refill-until-needed          the refill loop pops pieces while `carry.size() < needed`, and the refill method reports
                                           constant success only through an edge on which `size >= needed` (or the window test)
                                           holds and returns at all only through such an edge or an input_done()==true edge --
                                           a loop left by the size test or at end of input, not a single `if`
           M6-held-bytes-delivered         (OPL) bytes put into the local carry-over reach the consumer on every path to the exit
 clause 3  E1-refill-cycle-tests-end-of-input   every cycle through get_input() passes an edge on which input_done() is false
           E2-failure-exit-guarded-by-end-of-input  "truncated" exits of refill methods are guarded by input_done() == true
           E3-piece-loop-exits-at-end-of-input  a loop that pops pieces and drives the parse (line_by_line, XMLParser::run, and
                                           O5mParser::decode_data through the refill method) is only left at end of input
                                           (input_done() true / refill said false) or after read_types()==nothing AND header_is_done()
                                           (the header-only stop is legitimate only once the header promise is fulfilled);
                                           for the PBF / o5m refill loops the same clause is M5#gives-up-only-at-end-of-input
           (M1 also covers the XML text accumulator m_comment_text: append-only in the expat character-data callback closure,
            cleared only in the element handlers -- expat splits a text node at piece boundaries and entity references)
 clause 4  X2-xml-final-flag-from-queue-state   the piece itself is fed; isFinal is input_done() evaluated after that pop
           X3-xml-parse-args               XML_Parse(parser, piece.data(), piece.size(), last) exactly once per call
 extra     T1-read-thread-forwards-piece   the read thread forwards every non-empty piece it got from the decompressor
           F1-fd-read-is-exact             (fd path) a single-shot read (reliable_read / ::read -- a short result is just another
                                           segmentation) is only called by the wrappers, by Decompressor::read overrides and inside
                                           an accumulating loop; parser code reads fixed-size fields through read_exactly and
                                           branches on its result
           F3-descriptor-read-not-suppressed  in a Decompressor::read() that reads a descriptor the OS read is reached on every
                                           path except through the constructor-fixed mode test (in-memory vs. fd): the empty piece
                                           (= end of data) only comes from a read that returned 0, never from state remembered from
                                           the length of an earlier (short) read
           F2-read-exactly-accumulates     read_exactly reports success only with remaining == 0, reads `remaining` bytes at
                                           buffer + (size - remaining), decreases remaining every iteration, fails only on a
                                           zero-byte read

NOT decided (left to other technique families): that the result is identical for every segmentation -- i.e. the CR/LF
logic of the line splitter, which bytes of a piece `line_by_line` hands to parse_line directly, the PBF refill arithmetic,
expat's own incremental behaviour, the piece sizes produced by the decompressors (C09), schedules of the read thread.
Clause 3 of the design asks for "input_done() is read after the get_input() it refers to" at five sites; for the PBF / o5m
refill loops that ordering is not a necessary condition (testing before the pop only costs one more iteration), so it is
decided as E1 + E2 instead; the ordering is decided where it matters (X2, the expat final flag).
"""
from ..flow import guards_of, path_search, describe_path, forward_may
from ..stale import Stale
from ..c06_util import inlined_view

KNOWN = [
    # (rule, key, explanation) -- genuine findings on the current tree, reported with R.bad.  None at present.
]
# History: F2 (DESIGN.md section 7) was reported by W1-window-rederived under the keys osmium::io::detail::O5mParser::m_data and
# ...::m_end (ensure_bytes_available() returned false after m_input.erase() without re-pointing the window; a valid 17-byte o5m
# file was rejected with "premature end of file").  Fixed in /repo by a950292 (`break` + re-derivation of both pointers before the
# single `return m_input.size() >= need_bytes`); the two mutants o5m-window-end-not-rederived / o5m-eof-exit-skips-rederive are
# the partial / reverted fix

EXPLANATION = (
    'Decided: (1) o5m input window: pointer members aliasing the carry-over string are re-derived after every relocating call '
    'before each normal exit (STALE engine; this rule found defect F2, fixed by a950292), every caller of the refill method branches on its result '
    'and reads the window only through end-bounded calls where the result is false/ignored, no local pointer into a piece or '
    'carry-over survives a mutation; (2) carry-over mutation discipline for PBFParser::m_input_buffer, O5mParser::m_input and the '
    'local remainder of line_by_line (whitelist of mutation shapes, every popped piece kept whole / suffix-kept / fed, erase amount '
    'tied to consumption, ensure/pop pairing with equal lengths, refill-until-needed loop condition, held bytes reach the consumer); '
    '(3) end-of-input is taken from the queue state: every get_input() cycle passes an input_done()==false edge, every truncated/'
    'EOF exit is guarded by input_done()==true; (4) XML: the popped piece is what is fed, isFinal is input_done() evaluated after '
    'that pop, XML_Parse gets data()/size()/last of its piece exactly once; plus: the read thread forwards every non-empty piece; '
    'on the descriptor path single-shot reads are confined to the wrappers, stream producers and the accumulating loop of '
    'read_exactly, whose loop shape (until remaining == 0, offset size - remaining, failure only on a 0-byte read) is checked. '
    'NOT decided: equality of the delivered objects for every segmentation (CR/LF logic of the line splitter, PBF refill '
    'arithmetic, expat incremental parsing, decompressor piece sizes, thread schedules).')
ASSUMPTIONS = [
    'std::string members/locals are only mutated through the std::basic_string member functions named in the whitelist '
    '(no writes through non-const data()/iterators of a carry-over)',
    'queue_wrapper::pop() returns an empty string exactly at end of data and input_done() is true from then on (C05/C07/C19)',
    'the instantiations in drivers/io_read.cpp cover the library\'s parsers (line_by_line<OPLParser>)',
]

STR = 'std::basic_string::'
PARSER = 'osmium::io::detail::Parser'
GET = PARSER + '::get_input'
DONE = PARSER + '::input_done'
DECOMP_READ = 'osmium::io::Decompressor::read'
AT_END = 'osmium::io::detail::at_end_of_data'
ADD_TO_QUEUE = 'osmium::io::detail::add_to_queue'

MUTATORS = {'operator=', 'assign', 'append', 'operator+=', 'push_back', 'insert', 'replace', 'erase', 'clear', 'resize', 'reserve',
            'shrink_to_fit', 'swap', 'pop_back'}
CAPACITY_ONLY = {'reserve', 'shrink_to_fit'}
ADDERS = {'operator=', 'assign', 'append', 'operator+=', 'insert', 'replace', 'push_back'}
NPOS = (-1, 2 ** 64 - 1, 2 ** 32 - 1)


# ------------------------------------------------------------------------------------------------ small helpers

def _short(q):
    return q.rsplit('::', 1)[-1]


def _exit_t(e):
    return isinstance(e, tuple) and e[0] == 'exit'


def _is_call(n, q=None, prefix=None):
    if n is None or n.get('k') != 'call' or 'q' not in n:
        return False
    if q is not None and n['q'] != q:
        return False
    if prefix is not None and not n['q'].startswith(prefix):
        return False
    return True


def _cond_atom(fn, cid):
    """The expression that decides a two-way branch: leading negations are stripped (node, negated?).  For the last block of a
    short-circuit chain clang gives the whole `a && b` / `a || b` as the condition; it is reached only when the left operand did
    not decide, so the deciding expression is the right operand."""
    neg = False
    n = fn.sn(cid)
    hops = 0
    while n is not None and hops < 16:
        if n.get('k') == 'unop' and n['op'] == '!':
            neg = not neg
            n = fn.sn(n['sub'])
        elif n.get('k') == 'binop' and n['op'] in ('&&', '||'):
            n = fn.sn(n['rhs'])
        else:
            break
        hops += 1
    return n, neg


def _edge_value(fn, b, idx, pred):
    """If block b ends in a two-way branch on an expression e with pred(e) true: the truth value of e asserted on
    successor edge idx (True / False), else None."""
    blk = fn.blocks[b]
    if 'cond' not in blk or len(blk['succs']) != 2 or blk.get('termcls') == 'SwitchStmt':
        return None
    n, neg = _cond_atom(fn, blk['cond'])
    if n is None or not pred(n):
        return None
    val = (idx == 0)
    return (not val) if neg else val


def _normal_edges(fn, extra=None):
    """edge filter: never leave a noreturn block; `extra` may prune more."""
    def ok(b, idx, s):
        if fn.blocks[b].get('noreturn'):
            return False
        return extra(b, idx, s) if extra is not None else True
    return ok


def _is_throw(fn, e):
    return not isinstance(e, tuple) and fn.nodes[e].get('k') == 'throw'


def _real_args(fn, n):
    return [a for a in n.get('args', []) if a is not None]


def _parent_skip(fn, nid):
    """nearest ancestor that is not a wrapper / implicit cast / elidable copy; returns (parent node, child id below it)"""
    pm = fn.parent_map()
    child = nid
    p = pm.get(child)
    while p is not None:
        pn = fn.nodes[p]
        if pn.get('k') in ('wrap', 'icast') or (pn.get('k') == 'construct' and pn.get('elidable') and len(pn.get('args', [])) == 1):
            child = p
            p = pm.get(child)
            continue
        return pn, child
    return None, child


def _result_use(fn, c):
    """How is the bool result of call node c used?  ('cond', [(block id, edge index taken when the result is false)]) when it is a
    branch condition (directly, negated, or through a local that is only initialised from it), ('discarded', []), ('returned', [])
    when the function forwards it, else ('unknown', node)."""
    def cond_blocks(match):
        out = []
        for b in fn.blocks.values():
            if 'cond' not in b or len(b['succs']) != 2 or b.get('termcls') == 'SwitchStmt':
                continue
            atom, neg = _cond_atom(fn, b['cond'])
            if atom is not None and match(atom):
                out.append((b['id'], 0 if neg else 1))
        return out
    direct = cond_blocks(lambda a: a['id'] == c['id'])
    if direct:
        return 'cond', direct
    pn, _child = _parent_skip(fn, c['id'])
    while pn is not None and pn.get('k') == 'cast' and pn.get('toC', pn.get('to')) == 'void':
        pn, _child = _parent_skip(fn, pn['id'])
    if pn is None:
        return 'discarded', []
    if pn.get('k') == 'return':
        return 'returned', []
    if pn.get('k') == 'decl':
        d = next((v['d'] for v in pn['vars'] if isinstance(v.get('init'), int) and c['id'] in fn.subtree(v['init'])), None)
        if d is not None:
            for n in fn.all_nodes():
                if n.get('k') == 'assign':
                    l = fn.sn(n['lhs'])
                    if l is not None and l.get('k') == 'var' and l.get('d') == d:
                        return 'unknown', pn
            uses = [n for n in fn.all_nodes() if n.get('k') == 'var' and n.get('d') == d]
            tested = cond_blocks(lambda a: a.get('k') == 'var' and a.get('d') == d)
            if not uses:
                return 'discarded', []
            if tested and len(tested) >= len(uses):
                return 'cond', tested
            rets = [n for n in fn.all_nodes() if n.get('k') == 'return' and 'sub' in n and (fn.sn(n['sub']) or {}).get('d') == d
                    and (fn.sn(n['sub']) or {}).get('k') == 'var']
            if tested or rets:
                return ('cond', tested) if tested else ('returned', [])
    return 'unknown', pn


def _pieces(fn, source_q):
    """{local decl id: (name, source call node)} for locals initialised from a call of source_q (the popped piece)."""
    out = {}
    for n in fn.all_nodes():
        if n.get('k') != 'decl':
            continue
        for v in n['vars']:
            if not isinstance(v.get('init'), int):
                continue
            for x in fn.subtree(v['init']):
                nx = fn.nodes[x]
                if _is_call(nx, source_q):
                    out[v['d']] = (v['name'], nx)
                    break
    return out


def _root(fn, nid):
    return fn.root_var(nid) if nid is not None else None


def _rooted_at_piece(fn, nid, pieces):
    r = _root(fn, nid)
    return r is not None and r[0] == 'var' and r[1] in pieces


def _carrier_of(fn, n):
    """root of the receiver of a std::string member call: ('field', q, name) / ('var', d, name) / None"""
    if n.get('recv') is None:
        return None
    r = _root(fn, n['recv'])
    if r is None or r[0] == 'this':
        return None
    return r


def _str_call_on(fn, n, carrier):
    """n is a std::basic_string member call whose receiver is exactly the carrier (not something reached through it)"""
    if not _is_call(n, prefix=STR) or n.get('recv') is None:
        return False
    r = fn.sn(n['recv'])
    if r is None:
        return False
    if carrier[0] == 'field':
        return r.get('k') == 'member' and r.get('q') == carrier[1] and fn.is_this_member(n['recv'])
    return r.get('k') == 'var' and r.get('d') == carrier[1]


def _refs_carrier(fn, n, carrier):
    if carrier[0] == 'field':
        return n.get('k') == 'member' and n.get('field') and n.get('q') == carrier[1]
    return n.get('k') == 'var' and n.get('d') == carrier[1]


def _ckey(c):
    return c[:2]


def _whole_append(fn, n, pieces):
    """carrier.append(piece) / carrier += piece with the whole piece"""
    if not _is_call(n, prefix=STR) or _short(n['q']) not in ('append', 'operator+='):
        return False
    a = _real_args(fn, n)
    return len(a) == 1 and _rooted_at_piece(fn, a[0], pieces)


def _is_npos(fn, aid):
    s = fn.sn(aid)
    if s is not None and s.get('q') == STR + 'npos':
        return True
    return fn.const_value(aid) in NPOS


def _suffix_assign(fn, n, pieces):
    """carrier.assign(piece, p, npos): keep the suffix of the current piece"""
    if not _is_call(n, STR + 'assign'):
        return False
    a = _real_args(fn, n)
    if len(a) == 2:
        return _rooted_at_piece(fn, a[0], pieces) and fn.sn(a[0]).get('k') == 'var'
    return len(a) == 3 and _rooted_at_piece(fn, a[0], pieces) and fn.sn(a[0]).get('k') == 'var' and _is_npos(fn, a[2])


def _reaching_defs(fn, d):
    """{node id: frozenset of definition node ids of local d that may reach it}"""
    def transfer(st, n):
        k = n.get('k')
        if k == 'decl' and any(v['d'] == d for v in n['vars']):
            return frozenset({n['id']})
        if k == 'assign':
            l = fn.sn(n['lhs'])
            if l is not None and l.get('k') == 'var' and l.get('d') == d:
                return frozenset({n['id']})
        if k == 'unop' and n['op'] in ('++', '--'):
            s = fn.sn(n['sub'])
            if s is not None and s.get('k') == 'var' and s.get('d') == d:
                return frozenset({n['id']})
        return st
    return forward_may(fn, transfer)


def _prefix_append(fn, n, pieces):
    """carrier.append(piece, 0, p) where the only definition of p reaching the call is p = piece.find_first_of(set[, 0])"""
    if not _is_call(n, STR + 'append'):
        return False
    a = _real_args(fn, n)
    if len(a) != 3 or not _rooted_at_piece(fn, a[0], pieces) or fn.sn(a[0]).get('k') != 'var' or fn.const_value(a[1]) != 0:
        return False
    piece_d = fn.sn(a[0])['d']
    p = fn.sn(a[2])
    if p is None or p.get('k') != 'var' or p.get('vk') != 'local':
        return False
    before = _reaching_defs(fn, p['d']).get(n['id'])
    if before is None:
        # the call node itself may be an inline node: use its nearest element ancestor
        pos = fn.positions()
        if n['id'] not in pos:
            return False
        b, i = pos[n['id']]
        elems = fn.blocks[b]['elems']
        if i >= len(elems):
            return False
        before = _reaching_defs(fn, p['d']).get(elems[i])
    if not before:
        return False
    for did in before:
        dn = fn.nodes[did]
        rhs = None
        if dn.get('k') == 'assign' and dn['op'] == '=':
            rhs = dn['rhs']
        elif dn.get('k') == 'decl':
            rhs = next((v.get('init') for v in dn['vars'] if v['d'] == p['d']), None)
        c = fn.sn(rhs) if isinstance(rhs, int) else None
        if not _is_call(c, STR + 'find_first_of'):
            return False
        r = fn.sn(c['recv']) if c.get('recv') is not None else None
        if r is None or r.get('k') != 'var' or r.get('d') != piece_d:
            return False
        ca = _real_args(fn, c)
        if len(ca) >= 2 and fn.const_value(ca[1]) != 0:
            return False
    return True


def _done_pred_for(fn):
    """predicate on condition atoms: the expression is the current value of input_done() -- the call itself, or a local flag all of
    whose definitions are `= input_done()` with no get_input() between the reaching definition and the use"""
    cache = {}

    def var_ok(n):
        d = n['d']
        defs = []
        for x in fn.all_nodes():
            k = x.get('k')
            if k == 'decl':
                for v in x['vars']:
                    if v['d'] == d:
                        if not isinstance(v.get('init'), int) or not _is_call(fn.sn(v['init']), DONE):
                            return False
                        defs.append(x['id'])
            elif k == 'assign':
                l = fn.sn(x['lhs'])
                if l is not None and l.get('k') == 'var' and l.get('d') == d:
                    if x['op'] != '=' or not _is_call(fn.sn(x['rhs']), DONE):
                        return False
                    defs.append(x['id'])
            elif k == 'unop' and x['op'] in ('++', '--', '&'):
                s_ = fn.sn(x['sub'])
                if s_ is not None and s_.get('k') == 'var' and s_.get('d') == d:
                    return False
        if not defs:
            return False
        use = n['id']
        dset = set(defs)
        gets = [x['id'] for x in fn.all_nodes() if _is_call(x, GET)]
        # stale if some definition reaches a get_input() and that pop reaches the use, without a new definition in between
        for df in defs:
            for g in gets:
                if path_search(fn, df, lambda e: e == g, lambda e: e in dset) is not None and \
                        path_search(fn, g, lambda e: e == use, lambda e: e in dset) is not None:
                    return False
        return True

    def pred(n):
        if _is_call(n, DONE):
            return True
        if n is not None and n.get('k') == 'var' and n.get('vk') == 'local':
            if n['id'] not in cache:
                cache[n['id']] = var_ok(n)
            return cache[n['id']]
        return False
    return pred


def _empty_pred(fn, carrier):
    def pred(n):
        return _is_call(n, STR + 'empty') and _str_call_on(fn, n, carrier)
    return pred


def _consumers(fn, carrier):
    """calls (not std::string members of the carrier itself) that receive carrier.data()/c_str() -- the held bytes are handed on"""
    out = set()
    for n in fn.all_nodes():
        if n.get('k') not in ('call', 'construct') or _str_call_on(fn, n, carrier):
            continue
        for a in _real_args(fn, n):
            for x in fn.subtree(a):
                nx = fn.nodes[x]
                if _is_call(nx, prefix=STR) and _short(nx['q']) in ('data', 'c_str') and _str_call_on(fn, nx, carrier):
                    out.add(n['id'])
    return out


# ------------------------------------------------------------------------------------------------ model of the parsers

class Model:
    """carry-overs, pieces and sinks found by role in one fact base"""

    def __init__(self, fb):
        self.fb = fb
        self.pop_fns = []       # functions that pop a piece with get_input(): [(fn, pieces)]
        self.member_carry = {}  # field q -> {'name', 'cls', 'fns': set(fn)}
        self.local_carry = {}   # (fn id, decl id) -> {'fn', 'd', 'name'}
        self.feeders = [f for f in fb.functions if f.has_cfg and any(_is_call(n, 'XML_Parse') for n in f.all_nodes())]
        self.feeder_usrs = {f.usr for f in self.feeders}
        for fn in fb.functions:
            if not fn.has_cfg:
                continue
            if not any(_is_call(n, GET) for n in fn.all_nodes()):
                continue
            pieces = _pieces(fn, GET)
            self.pop_fns.append((fn, pieces))
            for n in fn.all_nodes():
                if not _is_call(n, prefix=STR) or _short(n['q']) not in ADDERS:
                    continue
                if not any(_rooted_at_piece(fn, a, pieces) for a in _real_args(fn, n)):
                    continue
                c = _carrier_of(fn, n)
                if c is None:
                    continue
                if c[0] == 'field':
                    self.member_carry.setdefault(c[1], {'name': c[2], 'cls': fn.cls})
                elif c[0] == 'var' and c[1] not in pieces and not any(p['d'] == c[1] for p in fn.params):
                    self.local_carry.setdefault((id(fn), c[1]), {'fn': fn, 'd': c[1], 'name': c[2]})

    def sinks(self, fn, pieces):
        """nodes at which the current piece is kept / handed on completely"""
        out = set()
        for n in fn.all_nodes():
            if _whole_append(fn, n, pieces) and _carrier_of(fn, n) is not None and _carrier_of(fn, n)[0] in ('field', 'var') \
                    and not _rooted_at_piece(fn, n['recv'], pieces):
                out.add(n['id'])
            elif _suffix_assign(fn, n, pieces) and not _rooted_at_piece(fn, n['recv'], pieces):
                out.add(n['id'])
            elif n.get('k') == 'call' and n.get('u') in self.feeder_usrs:
                a = _real_args(fn, n)
                if a and _rooted_at_piece(fn, a[0], pieces):
                    out.add(n['id'])
        return out


# ------------------------------------------------------------------------------------------------ clause 1: window

def _windows(fb, S):
    """[{rec, storage (field q), ptrs {field q: name}, begin set(q), refill [Fn], methods [Fn]}] -- pointer members assigned from
    a derivation of a sibling std::string / std::vector member"""
    out = []
    for rec in fb.records:
        ptrs = [f for f in rec.fields if f.get('ptr')]
        strs = {f['q']: f for f in rec.fields if f['tC'].startswith(('std::basic_string<', 'std::vector<'))
                or f['tC'] in ('std::string',)}
        if not ptrs or not strs:
            continue
        methods = [f for f in fb.functions if f.cls == rec.q and f.has_cfg and not f.is_lambda]
        w = {}
        for m in methods:
            for n in m.all_nodes():
                for fld in ptrs:
                    rhs = S._field_assign_rhs(m, n, fld['q'])
                    if rhs is None:
                        continue
                    root, d = S.walk(m, rhs)
                    if not d or root is None or not root.startswith('field:') or root[6:] not in strs:
                        continue
                    e = w.setdefault(root[6:], {'rec': rec, 'storage': root[6:], 'ptrs': {}, 'begin': set(), 'refill': [], 'methods': methods})
                    e['ptrs'][fld['q']] = fld['name']
                    c = m.sn(rhs)
                    if _is_call(c, prefix='std::') and _short(c['q']) in ('data', 'c_str') and c.get('recv') is not None and \
                            m.member_field(c['recv']) == root[6:]:
                        e['begin'].add(fld['q'])
                    if m.kind not in ('ctor', 'dtor') and m not in e['refill']:
                        e['refill'].append(m)
        out.extend(w.values())
    # a pointer initialised / assigned from another window pointer (m_end(m_data), m_end = m_data + m_input.size()) belongs to the
    # same window
    for e in out:
        changed = True
        while changed:
            changed = False
            for m in e['methods']:
                for n in m.all_nodes():
                    for fld in [f for f in e['rec'].fields if f.get('ptr') and f['q'] not in e['ptrs']]:
                        rhs = S._field_assign_rhs(m, n, fld['q'])
                        if rhs is None:
                            continue
                        root, _d = S.walk(m, rhs)
                        if root is not None and root.startswith('field:') and root[6:] in e['ptrs']:
                            e['ptrs'][fld['q']] = fld['name']
                            changed = True
    return out


def window_rules(fb, R, S=None, records=None):
    S = S or Stale(fb)
    if records is None:
        records = [r for r in fb.records if '/io/' in r.file or '/selftest/positive/' in r.file]
    S.rule_fields(R, records, rule='W1-window-rederived')
    wins = [w for w in _windows(fb, S) if w['rec'] in records]
    for w in wins:
        rec = w['rec']
        storage = 'field:' + w['storage']
        # ---- W1 extension: window pointers that are never dereferenced themselves but are read (compared / passed as a bound)
        for fq, name in sorted(w['ptrs'].items()):
            key = '%s::%s' % (rec.q, name)
            inst = R.instances.get(('W1-window-rederived', key))
            if inst is not None and not inst.ok:
                continue
            reads = []
            for m in w['methods']:
                pm = m.parent_map()
                for n in m.all_nodes():
                    if n.get('k') == 'member' and n.get('field') and n.get('q') == fq:
                        p = pm.get(n['id'])
                        pn = m.nodes.get(p) if p is not None else None
                        if pn is not None and pn.get('k') == 'assign' and pn['op'] == '=' and m.strip(pn['lhs']) == n['id']:
                            continue
                        reads.append((m, n))
            stale = None
            for m in w['methods']:
                if m.kind == 'dtor':
                    continue
                info = S.analyse(m)
                relocs = {nid for (nid, rc) in info['reloc_sites'] if rc == storage}
                if not relocs:
                    continue
                r = S._stale_at_exit(m, fq, relocs, info, storage, entry_state='N' if m.kind == 'ctor' else 'D')
                if r is not None:
                    stale = (m, r)
                    break
            site = '%s:%d' % (rec.file, rec.line)
            if stale is not None and reads:
                m, r = stale
                um, un = next(((a, b) for (a, b) in reads if a is not m), reads[0])
                R.bad('W1-window-rederived', key, m.loc(r),
                      'member %s bounds a window into relocatable storage (%s); in %s the call %s may relocate that storage and a normal '
                      'exit is reachable without re-deriving the member, which %s reads later (%s)'
                      % (name, w['storage'], m.q, m.expr(r)[:70], um.q, um.loc(un['id'])))
            elif inst is None:
                R.ok('W1-window-rederived', key, site, 'window pointer into %s; re-derived after every relocation' % w['storage'])

        # ---- W2: callers of the refill method
        refill = [m for m in w['refill'] if m.retC == 'bool']
        if not refill:
            continue
        rusr = {m.usr for m in refill}
        touch = {}
        for m in w['methods']:
            touch[m.usr] = any(n.get('k') == 'member' and n.get('field') and n.get('q') in w['ptrs'] for n in m.all_nodes())
        changed = True
        while changed:
            changed = False
            for m in w['methods']:
                if touch[m.usr]:
                    continue
                if any(n.get('k') == 'call' and touch.get(n.get('u')) for n in m.all_nodes()):
                    touch[m.usr] = True
                    changed = True
        others = set(w['ptrs']) - w['begin']
        for fn in w['methods']:
            if fn.usr in rusr:
                continue
            calls = [n for n in fn.all_nodes() if n.get('k') == 'call' and n.get('u') in rusr]
            if not calls:
                continue
            callids = {n['id'] for n in calls}
            pm = fn.parent_map()

            def bounded(e, fn=fn, pm=pm):
                """the window read sits inside a call that also receives another pointer of the same window (the end bound)"""
                x = e
                hops = 0
                while x in pm and hops < 12:
                    x = pm[x]
                    hops += 1
                    nx = fn.nodes[x]
                    if nx.get('k') in ('call', 'construct'):
                        has = False
                        for a in _real_args(fn, nx):
                            for y in fn.subtree(a):
                                ny = fn.nodes[y]
                                if ny.get('k') == 'member' and ny.get('q') in others:
                                    has = True
                        if has:
                            return True
                return False

            def unbounded_use(e, fn=fn):
                if isinstance(e, tuple):
                    return False
                n = fn.nodes[e]
                if n.get('k') == 'member' and n.get('field') and n.get('q') in w['begin']:
                    return not bounded(e)
                if n.get('k') == 'call' and n.get('u') not in rusr and touch.get(n.get('u')):
                    return True
                return False

            for c in calls:
                key = '%s#%s(%s)' % (fn.q, _short(c['q']), ', '.join(fn.expr(a) for a in _real_args(fn, c)))
                # how is the result used?
                how_used, tests = _result_use(fn, c)
                if how_used == 'unknown':
                    R.broken('%s: result of %s is used in a way this rule does not understand (%s)' % (fn.q, c['q'], fn.expr(tests['id'])[:80]))
                    continue
                if how_used == 'returned':
                    R.ok('W2-refill-result-decides', key, fn.loc(c['id']), 'result forwarded to the caller')
                    continue
                discarded = how_used == 'discarded'
                fail_edges = dict(tests)

                def edge_ok(b, idx, s, fail_edges=fail_edges):
                    return not (b in fail_edges and idx != fail_edges[b])
                wit = path_search(fn, c['id'], unbounded_use, lambda e: e in callids or _is_throw(fn, e), _normal_edges(fn, edge_ok))
                how = 'ignored' if discarded else 'false'
                R.check(wit is None, 'W2-refill-result-decides', key, fn.loc(c['id']),
                        'the result of %s is %s here, yet the window is then read without an end bound before the next refill: %s'
                        % (_short(c['q']), how, describe_path(fn, wit)),
                        'result %s; window only read through end-bounded calls until the next refill' % ('branches' if not discarded else 'ignored'))
        _window_consumer_rules(fb, R, w, refill, rusr)
    return wins


VARINT_MAX = {'protozero::decode_varint': 10, 'protozero::decode_zigzag64': 10}   # bytes a bounded decode may consume (protozero::max_varint_length)


def _window_consumer_rules(fb, R, w, refill, rusr):
    """W4 and E3 for the methods that consume the window (callers of the refill method)."""
    others = set(w['ptrs']) - w['begin']
    for fn in w['methods']:
        if fn.usr in rusr:
            continue
        calls = [n for n in fn.all_nodes() if n.get('k') == 'call' and n.get('u') in rusr]
        if not calls:
            continue
        # ---- E3: a loop driven by the refill method is left only when it said false (= end of input, M5), or header-only stop
        eof_edges = set()
        for c in calls:
            how, tests = _result_use(fn, c)
            if how == 'cond':
                eof_edges |= set(tests)
        for c in calls:
            _piece_loop_exits(fn, c, R, eof_edges, what='%s()' % _short(c['q']))
        # ---- W4: an end-bounded decode straight from the window (f(&begin, end)) is preceded on every path by a refill request for
        # at least the bytes the decode may consume.  The result of that request may be ignored (the decode is bounded and the refill
        # method only gives up at end of input), but a smaller request followed by a bounded decode that throws "premature end" depends
        # on where a piece boundary falls inside the varint.
        for n in fn.all_nodes():
            if n.get('k') != 'call' or n.get('u') in rusr:
                continue
            has_b = has_e = False
            for a in _real_args(fn, n):
                for y in fn.subtree(a):
                    ny = fn.nodes[y]
                    if ny.get('k') == 'member' and ny.get('field'):
                        has_b = has_b or ny.get('q') in w['begin']
                        has_e = has_e or ny.get('q') in others
            if not (has_b and has_e):
                continue
            key = '%s#%s-prefetched' % (fn.q, _short(n.get('q', n.get('name', '?'))))
            need = VARINT_MAX.get(n.get('q'))
            if need is None:
                R.broken('%s: end-bounded read %s straight from the input window: maximal consumption unknown to rule W4' % (fn.q, n.get('q')))
                continue
            suff = {c['id'] for c in calls if (fn.const_value(_real_args(fn, c)[0]) or 0) >= need} if all(_real_args(fn, c) for c in calls) else set()
            nid = n['id']
            wit = path_search(fn, fn.entry, lambda e: e == nid, lambda e: e in suff, _normal_edges(fn), from_block_start=True)
            last = None
            if wit is not None:
                last = next((fn.nodes[e] for e in reversed(wit) if not isinstance(e, tuple) and fn.nodes[e].get('k') == 'call'
                             and fn.nodes[e].get('u') in rusr), None)
            R.check(wit is None, 'W4-varint-read-window-refilled', key, fn.loc(nid),
                    '%s decodes a value of up to %d bytes straight from the input window, but on some path the last refill request before it '
                    'is %s, not a request for >= %d bytes: if a piece boundary falls inside the value, the bounded decode runs into the window '
                    'end and a valid file is reported as truncated' % (fn.q, need, ('%s(%s)' % (_short(last['q']), fn.expr(_real_args(fn, last)[0]))) if last
                                                                         else 'missing', need),
                    'every path passes a refill request for >= %d bytes' % need)


def local_rules(fb, R, S=None):
    S = S or Stale(fb)
    fns = [f for f in fb.functions if f.has_cfg and ('/io/detail/' in f.file or '/selftest/positive/' in f.file) and
           any(_is_call(n, GET) or _is_call(n, DECOMP_READ) for n in f.all_nodes())]
    # plus the other methods of parser classes that own a carry-over (they read it through data())
    cls = {f.cls for f in fns if f.cls}
    fns += [f for f in fb.functions if f.has_cfg and f.cls in cls and f not in fns and not f.is_lambda]
    S.rule_locals(R, fns, rule='W3-no-stale-local')


# ------------------------------------------------------------------------------------------------ clause 2: carry-over

def _held_dropped(fn, carrier, target, adders, consumers):
    """witness path from a content-adding mutation of the carrier to `target` that neither hands the held bytes to a consumer nor
    passes an edge on which the carrier is known to be empty"""
    pred = _empty_pred(fn, carrier)

    def edge_ok(b, idx, s):
        return _edge_value(fn, b, idx, pred) is not True
    for a in adders:
        w = path_search(fn, a, lambda e: e == target, lambda e: e in consumers or _is_throw(fn, e), _normal_edges(fn, edge_ok))
        if w is not None:
            return [a] + w
    return None


def _success_implies_enough(fn, R, carrier, need, wins):
    """M5, second half: a refill method may only report success (return true / return normally) on a path that passed an edge on
    which `carrier.size() >= need` (or `window end - window begin >= need`) is known -- i.e. the refill is a loop whose exit is the
    size test, not a single `if`."""
    name = carrier[2]
    ptrs, begin = set(), set()
    for w in wins:
        ptrs |= set(w['ptrs'])
        begin |= w['begin']

    def is_need(x):
        return x is not None and x.get('k') == 'var' and x.get('d') == need['d']

    def is_amount(x):
        hops = 0
        while x is not None and x.get('k') == 'cast' and hops < 4:
            x = fn.sn(x['sub'])
            hops += 1
        if _is_call(x, prefix=STR) and _short(x['q']) in ('size', 'length') and _str_call_on(fn, x, carrier):
            return True
        if x is not None and x.get('k') == 'binop' and x['op'] == '-':
            l, r = fn.sn(x['lhs']), fn.sn(x['rhs'])
            return (l is not None and l.get('k') == 'member' and l.get('q') in (ptrs - begin) and
                    r is not None and r.get('k') == 'member' and r.get('q') in begin)
        return False

    def enough_edge(b, idx):
        blk = fn.blocks[b]
        if 'cond' not in blk or len(blk['succs']) != 2 or blk.get('termcls') == 'SwitchStmt':
            return False
        x, neg = _cond_atom(fn, blk['cond'])
        if x is None or x.get('k') != 'binop' or x['op'] not in ('<', '<=', '>', '>='):
            return False
        l, r, op = fn.sn(x['lhs']), fn.sn(x['rhs']), x['op']
        if is_need(l) and is_amount(r):
            l, r = r, l
            op = {'<': '>', '>': '<', '<=': '>=', '>=': '<='}[op]
        if not (is_amount(l) and is_need(r)):
            return False
        val = (idx == 0) != neg          # truth value of `amount op need` on this edge
        return (op in ('>=', '>') and val) or (op == '<' and not val)

    key = '%s#success-implies-enough' % fn.q
    if fn.retC == 'bool':
        def is_enough_test(nid):
            x = fn.sn(nid)
            if x is None or x.get('k') != 'binop':
                return False
            l, r, op = fn.sn(x['lhs']), fn.sn(x['rhs']), x['op']
            return (is_amount(l) and is_need(r) and op in ('>=', '>')) or (is_need(l) and is_amount(r) and op in ('<=', '<'))
        rets = [n for n in fn.all_nodes() if n.get('k') == 'return' and 'sub' in n]
        rets = [n for n in rets if not is_enough_test(n['sub'])]   # `return size() >= need` is true exactly when enough
        if any(fn.const_value(n['sub']) not in (0, 1) for n in rets):
            R.broken('%s: returns a non-constant bool; the success-implies-enough clause of M5 does not understand this shape' % fn.q)
            return
        succ = {n['id'] for n in rets if fn.const_value(n['sub']) == 1}
        fail = {n['id'] for n in rets if fn.const_value(n['sub']) == 0}
        target = lambda e: e in succ
    else:
        fail = set()
        target = _exit_t
    wit = path_search(fn, fn.entry, target, lambda e: e in fail or _is_throw(fn, e),
                      _normal_edges(fn, lambda b, idx, s: not enough_edge(b, idx)), from_block_start=True)
    R.check(wit is None, 'M5-refill-until-needed', key, fn.site,
            '%s can report success without `%s.size() >= %s` (or the window test) having been established on that path -- the refill must '
            'be a loop that is left only through the size test; with a single `if` a request that spans three or more pieces returns '
            'with too few bytes: %s' % (fn.q, name, need['name'], describe_path(fn, wit)),
            'success only through an edge asserting %s.size() >= %s' % (name, need['name']))

    # the method gives up only at end of input: every normal exit (whatever it returns -- callers read `false` as "premature end
    # of file") is reached through an edge on which enough bytes are there or input_done() is true.  With `return size() >= need`
    # a single `if` instead of the loop does not over-read any more, but it returns false in the middle of the stream when the
    # request spans three or more pieces: the result depends on the cut positions.
    dp = _done_pred_for(fn)
    wit = path_search(fn, fn.entry, lambda e: _exit_t(e), lambda e: _is_throw(fn, e),
                      _normal_edges(fn, lambda b, idx, s: not enough_edge(b, idx) and _edge_value(fn, b, idx, dp) is not True),
                      from_block_start=True)
    R.check(wit is None, 'M5-refill-until-needed', '%s#gives-up-only-at-end-of-input' % fn.q, fn.site,
            '%s can return although neither `%s.size() >= %s` (or the window test) nor input_done() == true was established on that '
            'path -- the refill must be a loop left only through the size test or at end of input; with a single `if` a request that '
            'spans three or more pieces is answered "not enough bytes" (= premature end of file for the callers) in the middle of the '
            'stream: %s' % (fn.q, name, need['name'], describe_path(fn, wit)),
            'every normal exit passes an edge asserting enough bytes or end of input')


def carry_rules(fb, R, M=None, wins=None):
    M = M or Model(fb)
    if wins is None:
        wins = _windows(fb, Stale(fb))
    begin_of = {}
    for w in wins:
        begin_of.setdefault(w['storage'], set()).update(w['begin'])

    carriers = []
    for q, info in sorted(M.member_carry.items()):
        fns = [f for f in fb.functions if f.has_cfg and any(n.get('k') == 'member' and n.get('field') and n.get('q') == q for n in f.all_nodes())]
        carriers.append((('field', q, info['name']), fns, info))
    for (_fid, d), info in sorted(M.local_carry.items(), key=lambda kv: (kv[1]['fn'].q, kv[1]['name'])):
        carriers.append((('var', d, info['name']), [info['fn']], info))

    ensure_methods = {}   # carrier key -> [(Fn, param index)]
    pop_methods = {}      # carrier key -> [(Fn, param index)]

    for carrier, fns, info in carriers:
        name = carrier[2]
        is_local = carrier[0] == 'var'
        for fn in fns:
            pieces = _pieces(fn, GET)
            consumers = _consumers(fn, carrier)
            muts = [n for n in fn.all_nodes() if _str_call_on(fn, n, carrier) and _short(n['q']) in MUTATORS]
            adders = [n['id'] for n in muts if _short(n['q']) in ADDERS]
            # ---- other uses of the carrier: only reads through const members, or as the source of a std::string copy
            for n in fn.all_nodes():
                if not _refs_carrier(fn, n, carrier):
                    continue
                if carrier[0] == 'field' and not fn.is_this_member(n['id']):
                    continue
                pn, child = _parent_skip(fn, n['id'])
                if pn is None or pn.get('k') == 'decl':
                    continue
                k = pn.get('k')
                if k == 'member' and pn.get('method'):
                    continue  # callee expression of a member call on the carrier: mutators are classified below, the rest only read
                if k == 'call' and pn.get('recv') is not None and fn.strip(pn['recv']) == n['id']:
                    continue
                if k in ('call', 'construct') and pn.get('q', '').startswith(STR):
                    continue  # source operand of a std::string operation (copy)
                if k == 'call' and pn.get('inlined'):
                    continue  # argument of a helper whose body was spliced in: its uses are examined in place
                if k == 'init':
                    continue
                R.bad('M1-carry-over-mutation-whitelist', '%s#%s.escapes' % (fn.q, name), fn.loc(n['id']),
                      'carry-over %s is used in %s other than through its own member functions (moved from / passed on / address taken); '
                      'held bytes may be dropped or changed' % (name, fn.expr(pn['id'])[:80]))
            # ---- M1: every mutation
            for n in muts:
                meth = _short(n['q'])
                args = _real_args(fn, n)
                key = '%s#%s.%s(%d)' % (fn.q, name, meth, len(args))
                site = fn.loc(n['id'])
                verdict, why = None, None
                if meth in CAPACITY_ONLY:
                    verdict, why = True, 'capacity only'
                elif _whole_append(fn, n, pieces):
                    verdict, why = True, 'append of the whole new piece'
                elif _prefix_append(fn, n, pieces):
                    verdict, why = True, "append of the new piece's prefix up to its first line break"
                elif meth == 'erase':
                    ok = len(args) == 2 and fn.const_value(args[0]) == 0
                    verdict, why = ok, 'erase of a prefix' if ok else 'erase that does not start at offset 0 with an explicit count'
                elif meth == 'clear' or _suffix_assign(fn, n, pieces):
                    what = 'clear()' if meth == 'clear' else 'assignment of the unconsumed suffix of the current piece'
                    if not is_local:
                        verdict, why = False, '%s on a member carry-over drops whatever is held across calls' % what
                    else:
                        w = _held_dropped(fn, carrier, n['id'], adders, consumers)
                        verdict = w is None
                        why = what + (' after the held bytes were handed to the consumer' if w is None else
                                      ' can drop held bytes: ' + describe_path(fn, w))
                else:
                    verdict, why = False, 'not one of: append whole piece / append prefix to first line break / erase prefix / capacity'
                R.check(verdict, 'M1-carry-over-mutation-whitelist', key, site,
                        '%s in %s: %s' % (fn.expr(n['id'])[:90], fn.q, why), why)

                # ---- M3: erase amount
                if meth == 'erase' and verdict:
                    k3 = '%s#%s.erase-amount' % (fn.q, name)
                    a = fn.sn(args[1])
                    ok3, why3 = False, 'the erased count is neither `window begin - %s.data()` nor a parameter paired with an ensure call' % name
                    if a is not None and a.get('k') == 'binop' and a['op'] == '-':
                        l, r = fn.sn(a['lhs']), fn.sn(a['rhs'])
                        lb = l is not None and l.get('k') == 'member' and l.get('q') in begin_of.get(carrier[1], set()) and fn.is_this_member(a['lhs'])
                        rb = _is_call(r, prefix=STR) and _short(r['q']) in ('data', 'c_str') and _str_call_on(fn, r, carrier)
                        if lb and rb:
                            ok3, why3 = True, 'erases exactly the bytes before the window begin pointer'
                    elif a is not None and a.get('k') == 'var' and a.get('vk') == 'param':
                        pi = next((i for i, p in enumerate(fn.params) if p['d'] == a['d']), None)
                        if pi is not None:
                            pop_methods.setdefault(_ckey(carrier), []).append((fn, pi))
                            ok3, why3 = True, 'erases the caller-supplied count (paired with the ensure call by M4)'
                    R.check(ok3, 'M3-erase-is-consumed-prefix', k3, site, '%s in %s: %s' % (fn.expr(n['id'])[:90], fn.q, why3), why3)

            # ---- M5: refill loop condition (functions that pop a piece and append it whole to this carrier)
            gets = [n for n in fn.all_nodes() if _is_call(n, GET)]
            whole = [n for n in muts if _whole_append(fn, n, pieces)]
            if gets and (whole or any(_short(n['q']) in ADDERS for n in muts)) and not is_local:
                for g in gets:
                    found = None
                    for (c, sense, _b) in guards_of(fn, g['id']):
                        x = fn.sn(c)
                        if x is None or x.get('k') != 'binop' or x['op'] not in ('<', '<=', '>', '>='):
                            continue
                        l, r = fn.sn(x['lhs']), fn.sn(x['rhs'])
                        op = x['op']
                        if not sense:      # guarded by the condition being false: `!(a >= b)` is `a < b`
                            op = {'<': '>=', '>=': '<', '>': '<=', '<=': '>'}[op]
                        if _is_call(r, prefix=STR) and not _is_call(l, prefix=STR):
                            l, r = r, l
                            op = {'<': '>', '>': '<', '<=': '>=', '>=': '<='}[op]
                        if _is_call(l, prefix=STR) and _short(l['q']) in ('size', 'length') and _str_call_on(fn, l, carrier) and \
                                r is not None and r.get('k') == 'var' and r.get('vk') == 'param':
                            found = (op, r)
                    k5 = '%s#refill-condition' % fn.q
                    if found is None:
                        R.bad('M5-refill-until-needed', k5, fn.loc(g['id']),
                              '%s pops a piece into %s but the pop is not guarded by `%s.size() < <needed parameter>`' % (fn.q, name, name))
                    else:
                        op, r = found
                        R.check(op == '<', 'M5-refill-until-needed', k5, fn.loc(g['id']),
                                '%s refills %s while `%s.size() %s %s`: must be `<` (with `<=` a stream that ends exactly at the needed '
                                'byte is reported as truncated; the number of pieces popped then depends on the cut positions)'
                                % (fn.q, name, name, op, r['name']), 'pops while %s.size() < %s' % (name, r['name']))
                        pi = next((i for i, p in enumerate(fn.params) if p['d'] == r['d']), None)
                        if op == '<' and pi is not None:
                            ensure_methods.setdefault(_ckey(carrier), []).append((fn, pi))
                        _success_implies_enough(fn, R, carrier, r, [w for w in wins if w['storage'] == carrier[1]])

            # ---- M6: local carry-over: held bytes reach the consumer
            if is_local and adders:
                pred = _empty_pred(fn, carrier)

                def edge_ok(b, idx, s, fn=fn, pred=pred):
                    return _edge_value(fn, b, idx, pred) is not True
                wit = None
                for a in adders:
                    w = path_search(fn, a, _exit_t, lambda e: e in consumers or _is_throw(fn, e), _normal_edges(fn, edge_ok))
                    if w is not None:
                        wit = [a] + w
                        break
                R.check(wit is None, 'M6-held-bytes-delivered', '%s#%s-delivered' % (fn.q, name), fn.site,
                        'bytes put into the local carry-over %s can reach the end of %s without being handed to the consumer: %s'
                        % (name, fn.q, describe_path(fn, wit)), 'every path from a mutation to the exit hands %s.data() on or sees it empty' % name)

    # ---- M2: every popped piece is kept (keyed by the pop, so a deleted append is a violation, not a missing instance)
    for fn, pieces in M.pop_fns:
        sinks = M.sinks(fn, pieces)
        for g in [n for n in fn.all_nodes() if _is_call(n, GET)]:
            bound = [d for d, (_nm, src) in pieces.items() if src['id'] == g['id']]
            key = '%s#piece-kept' % fn.q
            if not bound:
                R.bad('M2-piece-kept', key, fn.loc(g['id']), 'the piece returned by get_input() in %s is not bound to a local' % fn.q)
                continue
            mine = {d: pieces[d] for d in bound}
            my_sinks = M.sinks(fn, mine) & sinks

            def edge_ok(b, idx, s, fn=fn, dp=_done_pred_for(fn)):
                return _edge_value(fn, b, idx, dp) is not True
            gid = g['id']
            wit = path_search(fn, gid, lambda e: e == gid or _exit_t(e), lambda e: e in my_sinks or _is_throw(fn, e),
                              _normal_edges(fn, edge_ok))
            R.check(wit is None, 'M2-piece-kept', key, fn.loc(gid),
                    'a piece popped in %s can reach %s without having been appended whole to a carry-over / suffix-kept / fed to the XML '
                    'parser although input_done() was not seen true: %s'
                    % (fn.q, 'the next pop' if wit and not _exit_t(wit[-1]) else 'a normal exit', describe_path(fn, wit)),
                    'kept on every path (%d sink sites)' % len(my_sinks))

    # ---- M4: ensure(n) ... pop(n) pairing inside the class of a member carry-over with a pop method
    for carrier, fns, info in carriers:
        ck = _ckey(carrier)
        pops = pop_methods.get(ck, [])
        if not pops:
            continue
        ens = ensure_methods.get(ck, [])
        name = carrier[2]
        if not ens:
            R.broken('carry-over %s has a pop method (%s) but no ensure method with a `size() < parameter` refill loop was recognised'
                     % (name, pops[0][0].q))
            continue
        eidx = {f.usr: i for (f, i) in ens}
        pidx = {f.usr: i for (f, i) in pops}
        for fn in fns:
            if fn.usr in eidx or fn.usr in pidx:
                continue
            ecalls = [n for n in fn.all_nodes() if n.get('k') == 'call' and n.get('u') in eidx]
            pcalls = [n for n in fn.all_nodes() if n.get('k') == 'call' and n.get('u') in pidx]
            if not ecalls and not pcalls:
                continue
            assigned = set()
            for n in fn.all_nodes():
                if n.get('k') == 'assign':
                    l = fn.sn(n['lhs'])
                    if l is not None and l.get('k') == 'var':
                        assigned.add(l['d'])
                elif n.get('k') == 'unop' and n['op'] in ('++', '--'):
                    s = fn.sn(n['sub'])
                    if s is not None and s.get('k') == 'var':
                        assigned.add(s['d'])

            def arg_of(n, table):
                a = _real_args(fn, n)
                i = table[n['u']]
                return a[i] if i < len(a) else None

            def stable(aid):
                return aid is not None and not any(fn.nodes[x].get('k') == 'var' and fn.nodes[x].get('d') in assigned for x in fn.subtree(aid))
            pids = {n['id'] for n in pcalls}
            eids = {n['id'] for n in ecalls}
            reads = [n for n in fn.all_nodes() if _refs_carrier(fn, n, carrier) and fn.is_this_member(n['id'])]
            for e in ecalls:
                ea = arg_of(e, eidx)
                etxt = fn.expr(ea) if ea is not None else '?'
                key = '%s#ensure(%s)-popped' % (fn.q, etxt)
                same = {p['id'] for p in pcalls if arg_of(p, pidx) is not None and fn.expr(arg_of(p, pidx)) == etxt}
                wit = path_search(fn, e['id'], lambda x: _exit_t(x) or x in eids, lambda x: x in same or _is_throw(fn, x), _normal_edges(fn))
                ok = stable(ea) and wit is None
                # reads of the carry-over after this ensure use the same length
                badlen = None
                for r in reads:
                    if not fn.elem_dominates(e['id'], r['id']):
                        continue
                    x = r['id']
                    pm = fn.parent_map()
                    hops = 0
                    while x in pm and hops < 6:
                        x = pm[x]
                        hops += 1
                        nx = fn.nodes[x]
                        if nx.get('k') in ('call', 'construct') and nx['id'] not in pids and nx['id'] not in eids and \
                                not _str_call_on(fn, nx, carrier) and len(_real_args(fn, nx)) >= 2:
                            for a in _real_args(fn, nx):
                                if r['id'] in fn.subtree(a):
                                    continue
                                if fn.const_value(a) == 0:
                                    continue
                                t = fn.sn(a)
                                if t is not None and t.get('t', '') in ('unsigned long', 'std::size_t', 'size_t', 'unsigned int', 'int', 'long') \
                                        and fn.expr(a) != etxt:
                                    badlen = (nx, a)
                            break
                msg = 'after ensure(%s) in %s ' % (etxt, fn.q)
                if not stable(ea):
                    msg += 'the length expression is modified in the function'
                elif wit is not None:
                    msg += 'a path reaches %s without pop(%s) of the same length: %s' % ('the exit' if _exit_t(wit[-1]) else 'the next ensure', etxt, describe_path(fn, wit))
                elif badlen is not None:
                    msg += 'the carry-over is read with a different length: %s' % fn.expr(badlen[0]['id'])[:90]
                R.check(ok and badlen is None, 'M4-ensure-pop-paired', key, fn.loc(e['id']), msg, 'followed by pop(%s) on every normal path' % etxt)
            for p in pcalls:
                pa = arg_of(p, pidx)
                ptxt = fn.expr(pa) if pa is not None else '?'
                key = '%s#pop(%s)-ensured' % (fn.q, ptxt)
                dom = [e for e in ecalls if fn.elem_dominates(e['id'], p['id']) and arg_of(e, eidx) is not None and fn.expr(arg_of(e, eidx)) == ptxt]
                # exactly one pop per ensure: no second pop reachable without a new ensure
                twice = path_search(fn, p['id'], lambda x: x in pids, lambda x: x in eids or _is_throw(fn, x), _normal_edges(fn))
                # no read of the carry-over content after the pop without a new ensure
                rids = set()
                for r in reads:
                    pn, _c = _parent_skip(fn, r['id'])
                    if pn is not None and pn.get('k') == 'call' and pn['id'] not in pids and (
                            (_str_call_on(fn, pn, carrier) and _short(pn['q']) not in ('size', 'length', 'empty', 'capacity'))
                            or not _str_call_on(fn, pn, carrier)):
                        rids.add(r['id'])
                late = path_search(fn, p['id'], lambda x: x in rids, lambda x: x in eids or _is_throw(fn, x), _normal_edges(fn))
                msg = 'pop(%s) in %s ' % (ptxt, fn.q)
                if not dom:
                    msg += 'is not dominated by an ensure call with the same length expression'
                elif twice is not None:
                    msg += 'can be followed by another pop without a new ensure: %s' % describe_path(fn, twice)
                elif late is not None:
                    msg += 'is followed by a read of the carry-over that still assumes the popped bytes: %s' % describe_path(fn, late)
                R.check(bool(dom) and twice is None and late is None and stable(pa), 'M4-ensure-pop-paired', key, fn.loc(p['id']), msg,
                        'dominated by ensure(%s)' % ptxt)
    return M


# ------------------------------------------------------------------------------------------------ clause 3: end of input

def _keeps_in_member(fn, pieces):
    """the function puts popped pieces into a member carry-over (refill method)"""
    return any(_whole_append(fn, n, pieces) or (_short(n['q']) in ADDERS and any(_rooted_at_piece(fn, a, pieces) for a in _real_args(fn, n)))
               for n in fn.all_nodes()
               if _is_call(n, prefix=STR) and _carrier_of(fn, n) is not None and _carrier_of(fn, n)[0] == 'field')


def _piece_loop_exits(fn, g, R, eof_edges=None, what='get_input()'):
    """E3: a loop whose iterations pop pieces (get_input(), or a call of the window refill method) may only be left (loop
    condition false, break, return, goto) on an edge where end of input is known (input_done() true / the refill method said
    false), or -- the header-only early stop -- after BOTH read_types() == nothing and header_is_done() were seen true since the
    pop, or exceptionally.  `read_types() == nothing` alone is not enough: the header promise must already be fulfilled, else the
    header delivered depends on where the first piece ends."""
    pos = fn.positions()
    gb = pos[g['id']][0]
    ok_edge = _normal_edges(fn)
    eof_edges = eof_edges or set()

    def reach(start, forward=True):
        seen = {start}
        work = [start]
        preds = fn.preds()
        while work:
            b = work.pop()
            if forward:
                nxt = [s_ for i, s_ in enumerate(fn.blocks[b]['succs']) if s_ is not None and ok_edge(b, i, s_)]
            else:
                nxt = preds.get(b, [])
            for x in nxt:
                if x not in seen:
                    seen.add(x)
                    work.append(x)
        return seen
    fwd = set()
    for i, s_ in enumerate(fn.blocks[gb]['succs']):
        if s_ is not None:
            fwd |= reach(s_)
    body = fwd & reach(gb, forward=False)
    key = '%s#piece-loop-exit' % fn.q
    if gb not in body:
        R.ok('E3-piece-loop-exits-at-end-of-input', key, fn.loc(g['id']), '%s is not inside a loop' % what)
        return
    dp = _done_pred_for(fn)

    def nothing_wanted(n):
        if n is None or n.get('k') != 'binop' or n.get('op') != '==':
            return False
        l, r = fn.sn(n['lhs']), fn.sn(n['rhs'])
        for a, b in ((l, r), (r, l)):
            if _is_call(a, PARSER + '::read_types') and b is not None and b.get('k') == 'var' and b.get('vk') == 'enumconst' and \
                    b.get('q', b.get('name', '')).endswith('nothing'):
                return True
        return False

    def header_done(n):
        return _is_call(n, PARSER + '::header_is_done')

    def at_eof(b, idx):
        return _edge_value(fn, b, idx, dp) is True or (b, idx) in eof_edges

    gid = g['id']
    rd_cache = {}

    def defs_of(d):
        out = []
        for x in fn.all_nodes():
            if x.get('k') == 'decl':
                for v in x['vars']:
                    if v['d'] == d:
                        out.append((x['id'], v.get('init') if isinstance(v.get('init'), int) else None, 'decl'))
            elif x.get('k') == 'assign':
                l = fn.sn(x['lhs'])
                if l is not None and l.get('k') == 'var' and l.get('d') == d:
                    out.append((x['id'], x['rhs'] if x['op'] == '=' else None, 'assign'))
            elif x.get('k') == 'unop' and x.get('op') in ('++', '--', '&'):
                l = fn.sn(x['sub'])
                if l is not None and l.get('k') == 'var' and l.get('d') == d:
                    out.append((x['id'], None, 'other'))
        return out

    def stale(def_id, use_id, all_defs, d):
        """the pop can happen between this definition and the use, without the variable being defined again and while it stays true
        (edges on which the variable itself is tested false are not taken: we ask what a TRUE value implies)"""
        ds = {x[0] for x in all_defs}

        def is_v(a):
            return a.get('k') == 'var' and a.get('d') == d

        def eo(b, idx, s_):
            return ok_edge(b, idx, s_) and _edge_value(fn, b, idx, is_v) is not False
        return path_search(fn, def_id, lambda e: e == gid, lambda e: e in ds, eo) is not None and \
            path_search(fn, gid, lambda e: e == use_id, lambda e: e in ds, eo) is not None

    def expr_facts(nid, use_id, depth=0):
        """facts that hold when the expression is true: 'nothing' (read_types() == nothing), 'header' (header_is_done()), 'eof'"""
        n = fn.sn(nid)
        if n is None or depth > 6:
            return set()
        if n.get('k') == 'binop' and n.get('op') == '&&':
            return expr_facts(n['lhs'], use_id, depth + 1) | expr_facts(n['rhs'], use_id, depth + 1)
        if nothing_wanted(n):
            return {'nothing'}
        if header_done(n):
            return {'header'}
        if _is_call(n, DONE):
            return {'eof'}
        if n.get('k') == 'var' and n.get('vk') == 'local':
            return var_true_facts(n, use_id, depth + 1)
        return set()

    def var_true_facts(n, use_id, depth=0):
        """facts implied by a local bool being true at use_id: the intersection over its reaching definitions that can make it true
        (`v = <expr>`: the facts of <expr>; `v = true`: the facts of the guards of that assignment).  A fact about the input state
        ('header', 'eof') only counts when no pop can have happened since the definition; `read_types() == nothing` is about the
        consumer's request and may be hoisted."""
        d = n['d']
        defs = defs_of(d)
        if d not in rd_cache:
            rd_cache[d] = _reaching_defs(fn, d)
        reach_ = rd_cache[d].get(n['id'])
        if reach_ is None:
            reach_ = {x[0] for x in defs}
        result = None
        for (did, rhs, kind) in defs:
            if did not in reach_:
                continue
            if rhs is None:
                return set()
            cv = fn.const_value(rhs)
            if cv == 0:
                continue
            if cv is not None:
                f = set()
                for (cnd, sense, _b) in guards_of(fn, did):
                    if sense:
                        f |= expr_facts(cnd, did, depth + 1)
            else:
                f = expr_facts(rhs, did, depth + 1)
            if stale(did, use_id, defs, d):
                f &= {'nothing'}
            result = f if result is None else (result & f)
        return result if result is not None else {'nothing', 'header', 'eof', 'never'}

    def facts_of(b, idx):
        f = set()
        if _edge_value(fn, b, idx, nothing_wanted) is True:
            f.add('nothing')
        if _edge_value(fn, b, idx, header_done) is True:
            f.add('header')
        blk = fn.blocks[b]
        if 'cond' in blk and len(blk['succs']) == 2 and blk.get('termcls') != 'SwitchStmt':
            atom, neg = _cond_atom(fn, blk['cond'])
            if atom is not None and atom.get('k') == 'var' and atom.get('vk') == 'local' and ((idx == 0) != neg):
                f |= var_true_facts(atom, atom['id'])
        return f
    # (block, facts seen since the pop) reachable from the pop without crossing an end-of-input edge; an edge from there that leaves
    # the body is a violation unless both early-stop facts hold
    start = (gb, frozenset())
    seen = {start}
    work = [(gb, frozenset(), [])]
    wit = None
    while work and wit is None:
        b, facts, path = work.pop(0)
        elems = fn.blocks[b]['elems']
        if b == gb and not path:
            elems = elems[pos[g['id']][1] + 1:]
        if any(_is_throw(fn, e) for e in elems) or fn.blocks[b].get('noreturn'):
            continue
        for idx, s_ in enumerate(fn.blocks[b]['succs']):
            if s_ is None or at_eof(b, idx):
                continue
            ef = facts_of(b, idx)
            if 'eof' in ef or 'never' in ef:
                continue   # a flag that is only true at end of input / can never be true on this edge
            f2 = frozenset(facts | ef)
            if s_ not in body:
                if not {'nothing', 'header'} <= f2:
                    wit = (path + [('B', b), ('B', s_)], f2)
                    break
                continue
            if s_ == gb:
                continue   # next iteration: the facts are about the previous pop
            if (s_, f2) not in seen:
                seen.add((s_, f2))
                work.append((s_, f2, path + [('B', b)]))
    msg = ''
    if wit is not None:
        extra = ' (read_types() == nothing was seen, but not header_is_done(): a header-only read would return whatever part of the header ' \
                'the first pieces happened to contain)' if 'nothing' in wit[1] else ''
        msg = 'the loop of %s that pops input pieces (%s) can be left although end of input is not known%s: the rest of the input is ' \
              'dropped and what is held is treated as complete -- the result depends on how the stream is cut: %s' \
              % (fn.q, what, extra, describe_path(fn, wit[0]))
    R.check(wit is None, 'E3-piece-loop-exits-at-end-of-input', key, fn.loc(g['id']), msg,
            'every exit of the piece loop is at end of input, or after read_types()==nothing && header_is_done()')


def eof_rules(fb, R, M=None):
    M = M or Model(fb)
    for fn, pieces in M.pop_fns:
        gets = [n for n in fn.all_nodes() if _is_call(n, GET)]
        # ---- E1: every cycle through get_input passes an edge on which input_done() is false
        for g in gets:
            gid = g['id']
            key = '%s#get_input-cycle' % fn.q
            cyc = path_search(fn, gid, lambda e: e == gid, lambda e: False, _normal_edges(fn))

            def edge_ok(b, idx, s, fn=fn, dp=_done_pred_for(fn)):
                return _edge_value(fn, b, idx, dp) is not False
            wit = path_search(fn, gid, lambda e: e == gid, lambda e: False, _normal_edges(fn, edge_ok))
            R.check(wit is None, 'E1-refill-cycle-tests-end-of-input', key, fn.loc(gid),
                    'in %s get_input() can be called again without input_done() having been tested false in between (end of input is '
                    'then not taken from the queue state; at end of data the loop spins on empty pieces): %s' % (fn.q, describe_path(fn, wit)),
                    'cycle passes an input_done()==false edge' if cyc is not None else 'not in a loop')
        # ---- E3: exits of a piece loop that drives the parse (not a refill method: those are covered by M5)
        if not _keeps_in_member(fn, pieces):
            for g in gets:
                _piece_loop_exits(fn, g, R)
        # ---- E2: failing exits of refill methods (pop + keep in a member carry-over)
        if not _keeps_in_member(fn, pieces):
            continue
        fails = []
        for n in fn.all_nodes():
            if n.get('k') == 'throw' and not fn.enclosing_handlers(n['id']):
                fails.append((n, 'throw'))
            elif n.get('k') == 'return' and 'sub' in n and fn.retC == 'bool' and fn.const_value(n['sub']) == 0:
                fails.append((n, 'return-false'))
        for (n, kind) in fails:
            after = any(fn.elem_dominates(g['id'], n['id']) for g in gets)
            key = '%s#%s/%s' % (fn.q, kind, 'after-pop' if after else 'before-pop')
            dp = _done_pred_for(fn)
            ok = any(sense and dp(fn.sn(c)) for (c, sense, _b) in guards_of(fn, n['id']))
            R.check(ok, 'E2-failure-exit-guarded-by-end-of-input', key, fn.loc(n['id']),
                    'the failing exit (%s) of %s is not guarded by input_done() == true: the "truncated / not enough bytes" decision must '
                    'come from the queue state, not from the size or emptiness of a piece' % (kind, fn.q), 'guarded by input_done()')


# ------------------------------------------------------------------------------------------------ clause 4: XML

def xml_rules(fb, R, M=None):
    M = M or Model(fb)
    for F in M.feeders:
        calls = [n for n in F.all_nodes() if _is_call(n, 'XML_Parse')]
        ids = {n['id'] for n in calls}
        key = '%s#XML_Parse-args' % F.q
        ok, why = True, ''
        params = {p['d']: i for i, p in enumerate(F.params)}
        data_i = last_i = None
        for c in calls:
            a = _real_args(F, c)
            if len(a) != 4:
                ok, why = False, 'XML_Parse is not called with 4 arguments'
                break
            d = F.sn(a[1])
            s = F.sn(a[2])
            hops = 0
            while s is not None and s.get('k') == 'cast' and hops < 4:
                s = F.sn(s['sub'])
                hops += 1
            l = F.sn(a[3])
            dr = _root(F, d['recv']) if _is_call(d, prefix=STR) and _short(d['q']) in ('data', 'c_str') and d.get('recv') is not None else None
            sr = _root(F, s['recv']) if _is_call(s, prefix=STR) and _short(s['q']) in ('size', 'length') and s.get('recv') is not None else None
            if dr is None or dr[0] != 'var' or dr[1] not in params:
                ok, why = False, 'the buffer argument is not <piece parameter>.data()'
            elif sr is None or sr[:2] != dr[:2]:
                ok, why = False, 'the length argument is not the size() of the same piece (%s)' % F.expr(a[2])
            elif l is None or l.get('k') != 'var' or l.get('d') not in params or l['d'] == dr[1]:
                ok, why = False, 'the isFinal argument is not the flag parameter (%s)' % F.expr(a[3])
            else:
                data_i, last_i = params[dr[1]], params[l['d']]
        if ok:
            miss = path_search(F, F.entry, _exit_t, lambda e: e in ids or _is_throw(F, e), _normal_edges(F), from_block_start=True)
            twice = any(path_search(F, i, lambda e: e in ids, lambda e: False, _normal_edges(F)) is not None for i in ids)
            if miss is not None:
                ok, why = False, 'a path returns without calling XML_Parse: %s' % describe_path(F, miss)
            elif twice:
                ok, why = False, 'XML_Parse can be called twice for one piece'
        R.check(ok, 'X3-xml-parse-args', key, F.site,
                '%s must call XML_Parse(parser, piece.data(), piece.size(), last) exactly once: %s' % (F.q, why),
                'XML_Parse(parser, p%s.data(), p%s.size(), p%s)' % (data_i, data_i, last_i))
        if data_i is None:
            continue
        # ---- X2: call sites in functions that pop pieces
        for fn, pieces in M.pop_fns:
            for c in [n for n in fn.all_nodes() if n.get('k') == 'call' and n.get('u') == F.usr]:
                key = '%s#final-flag' % fn.q
                a = _real_args(fn, c)
                if max(data_i, last_i) >= len(a):
                    R.broken('%s: call of %s with fewer arguments than parameters' % (fn.q, F.q))
                    continue
                if not _rooted_at_piece(fn, a[data_i], pieces) or fn.sn(a[data_i]).get('k') != 'var':
                    R.bad('X2-xml-final-flag-from-queue-state', key, fn.loc(c['id']),
                          'what is fed to the XML parser in %s is not the piece popped with get_input() (%s)' % (fn.q, fn.expr(a[data_i])[:60]))
                    continue
                pd = fn.sn(a[data_i])['d']
                g = pieces[pd][1]
                flag = a[last_i]
                fs = fn.sn(flag)
                gid = g['id']
                ok, why = True, ''
                if fs is not None and fs.get('k') == 'var' and fs.get('vk') == 'local':
                    # a flag variable: every definition is `= input_done()` and none is separated from this use by a get_input();
                    # as the pop of the fed piece dominates the feed, the reaching definition was evaluated after that pop
                    if not _done_pred_for(fn)(fs):
                        ok, why = False, 'the final flag `%s` is not the value of input_done() evaluated after the get_input() whose piece is ' \
                                         'fed' % fs.get('name')
                    elif not fn.elem_dominates(gid, c['id']):
                        ok, why = False, 'the piece fed is not popped on every path to the feed'
                elif _is_call(fs, DONE):
                    if not fn.elem_dominates(gid, fs['id']):
                        ok, why = False, 'input_done() is evaluated before the get_input() whose piece is fed'
                    elif path_search(fn, fs['id'], lambda e: e == gid, lambda e: e == c['id'], _normal_edges(fn)) is not None:
                        ok, why = False, 'another get_input() can happen between the evaluation of input_done() and the feed'
                else:
                    ok, why = False, 'the final flag (%s) is not the value of input_done()' % fn.expr(flag)[:60]
                R.check(ok, 'X2-xml-final-flag-from-queue-state', key, fn.loc(c['id']),
                        'in %s %s (with a stale or constant flag expat never sees isFinal and a truncated document is accepted, or it sees '
                        'it one piece early)' % (fn.q, why), 'feeds the popped piece with input_done() evaluated after that pop')


def _closure_fns(fb, roots):
    names = set()
    for f in roots:
        names.add(f.q)
        names |= fb.callees_closure(f)
    out = []
    for q in sorted(names):
        out.extend(f for f in fb.fns(q) if f.has_cfg)
    return out


def xml_text_rules(fb, R):
    """M1 extended to the text accumulators of the XML parser.  expat delivers one text node in several fragments (at every piece
    boundary and at every entity reference), so a std::string member written in the character-data callback (the function
    registered with XML_SetCharacterDataHandler and everything it calls) is a carry-over across fragments: there it may only be
    appended to, with the callback's text; it may be cleared / reassigned only in the element start / end handlers."""
    chr_roots, elem_roots = [], []
    for fn in fb.functions:
        if not fn.has_cfg:
            continue
        for n in fn.all_nodes():
            if _is_call(n, 'XML_SetCharacterDataHandler') or _is_call(n, 'XML_SetElementHandler'):
                for a in _real_args(fn, n)[1:]:
                    x = fn.sn(a)
                    if x is not None and x.get('k') == 'var' and x.get('vk') == 'function':
                        (chr_roots if n['q'] == 'XML_SetCharacterDataHandler' else elem_roots).extend(fb.fns(x['q']))
    if not chr_roots:
        return
    chr_fns = _closure_fns(fb, chr_roots)
    elem_fns = _closure_fns(fb, elem_roots)
    chr_ids = {id(f) for f in chr_fns}
    elem_ids = {id(f) for f in elem_fns} - chr_ids
    # accumulators: std::string members mutated inside the character-data closure
    acc = {}
    for fn in chr_fns:
        for n in fn.all_nodes():
            if _is_call(n, prefix=STR) and _short(n['q']) in MUTATORS:
                c = _carrier_of(fn, n)
                if c is not None and c[0] == 'field' and fn.is_this_member(n['recv']):
                    acc[c[1]] = c
    for q, carrier in sorted(acc.items()):
        name = carrier[2]
        for fn in fb.functions:
            if not fn.has_cfg:
                continue
            for n in fn.all_nodes():
                if not (_is_call(n, prefix=STR) and _short(n['q']) in MUTATORS and _str_call_on(fn, n, carrier)):
                    continue
                meth = _short(n['q'])
                args = _real_args(fn, n)
                key = '%s#%s.%s(%d)' % (fn.q, name, meth, len(args))
                if id(fn) in chr_ids:
                    params = {p['d'] for p in fn.params}
                    from_text = bool(args) and any(fn.nodes[x].get('k') == 'var' and fn.nodes[x].get('d') in params for x in fn.subtree(args[0]))
                    ok = meth in ('append', 'operator+=', 'push_back') and from_text
                    why = 'appends the text fragment' if ok else \
                        'in the character-data callback the text accumulator may only be appended to with the callback\'s text ' \
                        '(a text node arrives in several fragments; anything else keeps only the last fragment)'
                elif meth in CAPACITY_ONLY:
                    ok, why = True, 'capacity only'
                elif id(fn) in elem_ids:
                    ok, why = True, 'reset / consumed in an element start/end handler'
                else:
                    ok, why = False, 'text accumulator mutated outside the expat callbacks'
                R.check(ok, 'M1-carry-over-mutation-whitelist', key, fn.loc(n['id']), '%s in %s: %s' % (fn.expr(n['id'])[:90], fn.q, why), why)


# ------------------------------------------------------------------------------------------------ read thread

def thread_rules(fb, R):
    for fn in fb.functions:
        if not fn.has_cfg or ('/io/' not in fn.file and '/selftest/positive/' not in fn.file):
            continue
        reads = [n for n in fn.all_nodes() if _is_call(n, DECOMP_READ)]
        if not reads or not any(_is_call(n, prefix=ADD_TO_QUEUE) for n in fn.all_nodes()):
            continue
        pieces = _pieces(fn, DECOMP_READ)
        for g in reads:
            key = '%s#piece-forwarded' % fn.q
            mine = {d for d, (_nm, src) in pieces.items() if src['id'] == g['id']}
            if not mine:
                R.bad('T1-read-thread-forwards-piece', key, fn.loc(g['id']), 'the result of Decompressor::read() is not bound to a local in %s' % fn.q)
                continue
            sinks = set()
            for n in fn.all_nodes():
                if _is_call(n, ADD_TO_QUEUE):
                    for a in _real_args(fn, n):
                        r = _root(fn, a)
                        if r is not None and r[0] == 'var' and r[1] in mine:
                            sinks.add(n['id'])

            def at_end(n, fn=fn, mine=mine):
                if not _is_call(n, AT_END):
                    return False
                a = _real_args(fn, n)
                r = _root(fn, a[0]) if a else None
                return r is not None and r[0] == 'var' and r[1] in mine

            def edge_ok(b, idx, s, fn=fn, at_end=at_end):
                return _edge_value(fn, b, idx, at_end) is not True
            gid = g['id']
            wit = path_search(fn, gid, lambda e: e == gid or _exit_t(e), lambda e: e in sinks or _is_throw(fn, e), _normal_edges(fn, edge_ok))
            R.check(wit is None, 'T1-read-thread-forwards-piece', key, fn.loc(gid),
                    'a piece read from the decompressor in %s can be dropped (not passed to add_to_queue) although it is not the empty '
                    'end-of-data piece: %s' % (fn.q, describe_path(fn, wit)), 'forwarded whole on every path')


# ------------------------------------------------------------------------------------------------ descriptor reads

SINGLE_READ = {'osmium::io::detail::reliable_read', 'read', '_read', 'pread', 'pread64', 'recv'}
DECOMPRESSOR = 'osmium::io::Decompressor'


def fd_rules(fb, R):
    """A read(2) may return fewer bytes than asked for (pipes, sockets): how many arrive per call is a segmentation of the stream.
    F1: a single-shot read is only called by the single-shot wrappers themselves, by stream producers (Decompressor::read
    overrides, whose short result simply is a shorter piece) and by accumulating readers; parser code reads fixed-size fields from a
    descriptor only through an accumulating reader and branches on its result.
    F2: an accumulating reader loops until the remaining count is zero, reads at offset size - remaining, and fails only on a
    zero-byte read."""
    decomp = {r.q for r in fb.derived_from(DECOMPRESSOR)} | {DECOMPRESSOR}
    # stream producers: Decompressor::read overrides plus the non-public helpers of the same class that are only ever called from
    # a producer of that class (their body is part of read(); treated as inlined)
    producers = {f.usr: f for f in fb.functions if f.has_cfg and f.cls in decomp and f.name == 'read'}
    callers = {}
    for f in fb.functions:
        if f.has_cfg:
            for n in f.all_nodes():
                if n.get('k') == 'call' and n.get('u'):
                    callers.setdefault(n['u'], set()).add(f.usr)
    changed = True
    while changed:
        changed = False
        for f in fb.functions:
            if not f.has_cfg or f.usr in producers or f.cls not in decomp or f.access == 'public' or f.kind != 'method':
                continue
            cs = callers.get(f.usr, set())
            if cs and all(c in producers and producers[c].cls == f.cls for c in cs):
                producers[f.usr] = f
                changed = True
    accum = {}
    for fn in fb.functions:
        if not fn.has_cfg or ('/io/' not in fn.file and '/selftest/positive/' not in fn.file):
            continue
        calls = [n for n in fn.all_nodes() if n.get('k') == 'call' and n.get('q') in SINGLE_READ and not n.get('recv')]
        if not calls:
            continue
        for c in calls:
            key = '%s#single-read' % fn.q
            site = fn.loc(c['id'])
            if fn.q in SINGLE_READ:
                R.ok('F1-fd-read-is-exact', key, site, 'single-shot wrapper')
                continue
            if fn.usr in producers:
                R.ok('F1-fd-read-is-exact', key, site, 'stream producer (Decompressor::read override or its private helper): a short read '
                     'is a shorter piece')
                _producer_read_not_suppressed(fb, fn, c, R)
                continue
            inloop = [l for l in fn.loops if fn.in_range(c['id'], l['b'], l['e'])]
            if not inloop:
                R.bad('F1-fd-read-is-exact', key, site,
                      '%s calls the single-shot %s outside an accumulating loop: a short read (legitimate on a pipe, i.e. just another '
                      'segmentation of the byte stream) is then taken for truncation / a complete field; fixed-size fields must be read '
                      'with read_exactly' % (fn.q, c['q']))
                continue
            R.ok('F1-fd-read-is-exact', key, site, 'inside an accumulating loop (shape checked by F2)')
            accum[fn.usr] = fn
            _accumulating_reader(fn, c, R)
    # parser code: descriptor reads go through an accumulating reader whose result decides
    parsers = {r.q for r in fb.derived_from(PARSER)}
    for fn in fb.functions:
        if not fn.has_cfg or fn.cls not in parsers:
            continue
        for c in [n for n in fn.all_nodes() if n.get('k') == 'call' and n.get('u') in accum]:
            a = _real_args(fn, c)
            key = '%s#fd-read(%s)' % (fn.q, fn.expr(a[-1]) if a else '')
            tested = _result_use(fn, c)[0] in ('cond', 'returned')
            R.check(tested, 'F1-fd-read-is-exact', key, fn.loc(c['id']),
                    '%s ignores whether %s delivered all requested bytes' % (fn.q, _short(c['q'])), 'exact read, result branches')


def _producer_read_not_suppressed(fb, fn, c, R):
    """F3: in a stream producer the empty piece means end of data, so it may only come from an OS read that returned 0.  The
    single-shot read must therefore be reached on every normal path of the producer, except through the mode test that selects
    the in-memory variant: a branch condition that only reads members which are fixed by the constructors.  Any other way around
    the read (a flag remembered from the LENGTH of an earlier read -- a short read on a pipe is not end of file --, a counter, an
    early return) makes the stream end where a short read happened to occur."""
    methods = [f for f in fb.functions if f.has_cfg and f.cls == fn.cls and not f.is_lambda]
    written = set()
    for m in methods:
        if m.kind == 'ctor':
            continue
        for n in m.all_nodes():
            tgt = None
            if n.get('k') == 'assign':
                tgt = m.sn(n['lhs'])
            elif n.get('k') == 'unop' and n.get('op') in ('++', '--'):
                tgt = m.sn(n['sub'])
            elif n.get('k') == 'call' and n.get('op') in ('=', '+=', '-=', '++', '--') and n.get('recv') is not None:
                tgt = m.sn(n['recv'])
            if tgt is not None and tgt.get('k') == 'member' and tgt.get('field'):
                written.add(tgt['q'])

    def mode_test(cid):
        """condition over constructor-fixed members only (no calls, no locals, no parameters)"""
        fields = 0
        for x in fn.subtree(cid):
            nx = fn.nodes[x]
            k = nx.get('k')
            if k == 'member' and nx.get('field'):
                if nx['q'] in written or not fn.is_this_member(x):
                    return False
                fields += 1
            elif k in ('call', 'construct', 'var') and not (k == 'var' and nx.get('vk') in ('enumconst', 'global', 'static_member')):
                return False
        return fields > 0
    # what the read requires of the constructor-fixed mode members (e.g. m_buffer == false); as these never change after
    # construction, every edge anywhere in the function on which such a test has the opposite value belongs to the other variant
    required = {}
    for (cnd, sense, _b) in guards_of(fn, c['id']):
        atom, neg = _cond_atom(fn, cnd)
        if atom is not None and atom.get('k') not in ('binop',) and mode_test(atom['id']):
            required[fn.expr(atom['id'])] = (sense != neg)
        elif atom is not None and atom.get('k') == 'binop' and atom.get('op') in ('==', '!=', '<', '>', '<=', '>=') and mode_test(atom['id']):
            required[fn.expr(atom['id'])] = (sense != neg)
    pruned = set()
    for blk in fn.blocks.values():
        if 'cond' not in blk or len(blk['succs']) != 2 or blk.get('termcls') == 'SwitchStmt':
            continue
        atom, neg = _cond_atom(fn, blk['cond'])
        if atom is None:
            continue
        want = required.get(fn.expr(atom['id']))
        if want is None or not mode_test(atom['id']):
            continue
        for idx in (0, 1):
            val = (idx == 0) != neg
            if val != want:
                pruned.add((blk['id'], idx))
    cid = c['id']
    wit = path_search(fn, fn.entry, _exit_t, lambda e: e == cid or _is_throw(fn, e),
                      _normal_edges(fn, lambda b, idx, s_: (b, idx) not in pruned), from_block_start=True)
    R.check(wit is None, 'F3-descriptor-read-not-suppressed', '%s#descriptor-read-unconditional' % fn.q, fn.loc(cid),
            'in descriptor mode %s can return without calling %s (path: %s): an empty piece = end of data is then produced without a read '
            'that returned 0; only the constructor-fixed mode test may guard the read -- state remembered from an earlier read (e.g. "the '
            'last read was short") must not, because on a pipe / socket a short read is not end of file and everything after it would be '
            'dropped' % (fn.q, c['q'], describe_path(fn, wit)),
            'the OS read is reached on every path outside the in-memory variant')


def _accumulating_reader(fn, c, R):
    """F2.  Two equivalent book-keeping forms are understood: a *remaining* counter (rem = size; rem -= n; read(buf + (size - rem),
    rem); done when rem == 0) and a *done* counter (done = 0; done += n; read(buf + done, size - done); done when done >= size)."""
    base = fn.q

    def is_var(x, d):
        return x is not None and x.get('k') == 'var' and x.get('d') == d

    def uncast(x):
        hops = 0
        while x is not None and x.get('k') == 'cast' and hops < 4:
            x = fn.sn(x['sub'])
            hops += 1
        return x

    single_def = {}
    for n in fn.all_nodes():
        if n.get('k') == 'decl':
            for v in n['vars']:
                single_def.setdefault(v['d'], []).append(('decl', n['id'], v.get('init')))
        elif n.get('k') == 'assign':
            l = fn.sn(n['lhs'])
            if l is not None and l.get('k') == 'var':
                single_def.setdefault(l['d'], []).append(('assign', n['id'], None))
        elif n.get('k') == 'unop' and n.get('op') in ('++', '--', '&'):
            l = fn.sn(n['sub'])
            if l is not None and l.get('k') == 'var':
                single_def.setdefault(l['d'], []).append(('assign', n['id'], None))

    def named(x, barrier=None):
        """look through a local that is defined exactly once (by its initialiser) -- a name for a sub-expression -- provided the
        read cannot be reached from a counter update without passing that definition again (else the name is stale)"""
        hops = 0
        while x is not None and x.get('k') == 'var' and x.get('vk') == 'local' and hops < 4:
            defs = single_def.get(x['d'], [])
            if len(defs) != 1 or defs[0][0] != 'decl' or not isinstance(defs[0][2], int):
                break
            dnode = defs[0][1]
            if barrier is not None and path_search(fn, barrier, lambda e: e == c['id'], lambda e: e == dnode, _normal_edges(fn)) is not None:
                break   # the read can execute after a counter update without the name having been recomputed: stale
            x = uncast(fn.sn(defs[0][2]))
            hops += 1
        return x

    # result variable
    res = None
    pn, _ch = _parent_skip(fn, c['id'])
    if pn is not None and pn.get('k') == 'decl':
        for v in pn['vars']:
            if isinstance(v.get('init'), int) and c['id'] in fn.subtree(v['init']):
                res = v['d']
    elif pn is not None and pn.get('k') == 'assign' and pn['op'] == '=':
        l = fn.sn(pn['lhs'])
        res = l['d'] if l is not None and l.get('k') == 'var' else None
    # the counter: a local updated with `-= res` (remaining) or `+= res` (done)
    ctr, upd, form = None, None, None
    for n in fn.all_nodes():
        if n.get('k') == 'assign' and n['op'] in ('-=', '+='):
            l = fn.sn(n['lhs'])
            rs = uncast(fn.sn(n['rhs']))
            if l is not None and l.get('k') == 'var' and l.get('vk') == 'local' and is_var(rs, res):
                ctr, upd, form = l['d'], n['id'], ('rem' if n['op'] == '-=' else 'done')
    if res is None or ctr is None:
        R.broken('%s: accumulating reader of unknown shape (no `remaining -= n` / `done += n` on the result of the read found)' % base)
        return
    init = None
    for n in fn.all_nodes():
        if n.get('k') == 'decl':
            for v in n['vars']:
                if v['d'] == ctr and isinstance(v.get('init'), int):
                    init = v['init']
    a = _real_args(fn, c)
    total = None
    if form == 'rem':
        x = fn.sn(init) if init is not None else None
        if x is not None and x.get('k') == 'var' and x.get('vk') == 'param':
            total = x['d']
    else:
        if init is not None and fn.const_value(init) == 0:
            for x in a:
                sx = named(uncast(fn.sn(x)), upd)
                if sx is not None and sx.get('k') == 'binop' and sx['op'] == '-' and is_var(fn.sn(sx['rhs']), ctr):
                    t = fn.sn(sx['lhs'])
                    if t is not None and t.get('k') == 'var' and t.get('vk') == 'param':
                        total = t['d']

    def complete_edge(b, idx):
        """edge on which nothing is missing any more: remaining == 0 / done >= size"""
        blk = fn.blocks[b]
        if 'cond' not in blk or len(blk['succs']) != 2 or blk.get('termcls') == 'SwitchStmt':
            return False
        x, neg = _cond_atom(fn, blk['cond'])
        val = (idx == 0) != neg
        if x is None:
            return False
        if form == 'rem' and is_var(x, ctr):
            return not val
        if x.get('k') != 'binop' or x['op'] not in ('<', '>', '<=', '>=', '==', '!='):
            return False
        l, r, op = fn.sn(x['lhs']), fn.sn(x['rhs']), x['op']
        flip = {'<': '>', '>': '<', '<=': '>=', '>=': '<=', '==': '==', '!=': '!='}
        if form == 'rem':
            if is_var(r, ctr) and fn.const_value(x['lhs']) == 0:
                op = flip[op]
            elif not (is_var(l, ctr) and fn.const_value(x['rhs']) == 0):
                return False
            return (op in ('>', '!=') and not val) or (op in ('==', '<=') and val)
        if is_var(r, ctr) and is_var(l, total):
            op = flip[op]
        elif not (is_var(l, ctr) and is_var(r, total)):
            return False
        return (op in ('<', '!=') and not val) or (op in ('>=', '==') and val)

    rets = [n for n in fn.all_nodes() if n.get('k') == 'return' and 'sub' in n]
    if fn.retC == 'bool' and all(fn.const_value(n['sub']) in (0, 1) for n in rets):
        succ = {n['id'] for n in rets if fn.const_value(n['sub']) == 1}
        fail = [n for n in rets if fn.const_value(n['sub']) == 0]
        target = lambda e: e in succ
    else:
        fail = []
        target = _exit_t
    failids = {n['id'] for n in fail}
    wit = path_search(fn, fn.entry, target, lambda e: e in failids or _is_throw(fn, e),
                      _normal_edges(fn, lambda b, idx, s: not complete_edge(b, idx)), from_block_start=True)
    R.check(wit is None, 'F2-read-exactly-accumulates', base + '#until-complete', fn.site,
            '%s can report success while bytes are still missing (it must loop until the remaining count is zero; a single read is '
            'one possible segmentation only): %s' % (base, describe_path(fn, wit)), 'success only through an edge asserting that nothing is missing')
    # offset and count of the read
    cnt_ok = off_ok = False
    for x in a:
        sx = uncast(fn.sn(x))
        if not (form == 'rem' and is_var(sx, ctr)):
            sx = named(sx, upd)
        if sx is None:
            continue
        if form == 'rem':
            if is_var(sx, ctr):
                cnt_ok = True
            if sx.get('k') == 'binop' and sx['op'] == '+':
                p_, o = fn.sn(sx['lhs']), named(uncast(fn.sn(sx['rhs'])), upd)
                if p_ is not None and p_.get('k') == 'var' and p_.get('vk') == 'param' and o is not None and o.get('k') == 'binop' and o['op'] == '-' \
                        and total is not None and is_var(fn.sn(o['lhs']), total) and is_var(fn.sn(o['rhs']), ctr):
                    off_ok = True
        else:
            if sx.get('k') == 'binop' and sx['op'] == '-' and total is not None and is_var(fn.sn(sx['lhs']), total) and is_var(fn.sn(sx['rhs']), ctr):
                cnt_ok = True
            if sx.get('k') == 'binop' and sx['op'] == '+':
                p_, o = fn.sn(sx['lhs']), named(uncast(fn.sn(sx['rhs'])), upd)
                if p_ is not None and p_.get('k') == 'var' and p_.get('vk') == 'param' and is_var(o, ctr):
                    off_ok = True
    cyc = path_search(fn, c['id'], lambda e: e == c['id'], lambda e: e == upd, _normal_edges(fn))
    R.check(cnt_ok and off_ok and cyc is None, 'F2-read-exactly-accumulates', base + '#appends-at-offset', fn.loc(c['id']),
            '%s: each read must ask for the missing count and store behind the bytes already read (buffer + (size - remaining), remaining / '
            'buffer + done, size - done), and every iteration must account for the bytes read (%s)' % (base, fn.expr(c['id'])[:100]),
            'reads the missing bytes behind those already read')
    # failure only on a zero-byte read
    for n in fail or [n for n in fn.all_nodes() if n.get('k') == 'throw']:
        ok = False
        for (cnd, sense, _b) in guards_of(fn, n['id']):
            x = fn.sn(cnd)
            if x is not None and x.get('k') == 'binop' and x['op'] in ('==', '<=') and sense and \
                    is_var(fn.sn(x['lhs']), res) and fn.const_value(x['rhs']) == 0:
                ok = True
        R.check(ok, 'F2-read-exactly-accumulates', base + '#fails-only-at-eof', fn.loc(n['id']),
                '%s: the failing exit is not guarded by `<bytes read> == 0` (a short but non-empty read is not end of file)' % base,
                'fails only when a read returned 0 bytes')


# ------------------------------------------------------------------------------------------------ driver

def all_rules(fb, R):
    # private single-purpose helpers (append_next_piece(), repoint(), flush_rest(worker, rest), throw_truncated(), ...) are spliced
    # into their callers first, so that an "extract method" refactoring leaves the bodies the rules look at unchanged
    fb, spliced = inlined_view(fb)
    if spliced:
        R.note('helpers analysed as part of their callers: %s' % ', '.join(sorted({g.q for g in spliced.values()})))
    S = Stale(fb)
    wins = window_rules(fb, R, S)
    local_rules(fb, R, S)
    M = Model(fb)
    carry_rules(fb, R, M, wins)
    eof_rules(fb, R, M)
    xml_rules(fb, R, M)
    xml_text_rules(fb, R)
    thread_rules(fb, R)
    fd_rules(fb, R)
    return M, wins


def run(ctx):
    R = ctx.R
    configs = ['ndebug14'] if ctx.tier == 'quick' else ['ndebug14', 'debug14', 'ndebug17', 'debug17']
    for cfg in configs:
        fb = ctx.facts(['io_read'], cfg)
        M, wins = all_rules(fb, R)
        if len(M.member_carry) < 2 or len(M.local_carry) < 1:
            R.broken('carry-overs not found by role (%s): members %s, locals %s; expected PBFParser::m_input_buffer, O5mParser::m_input '
                     'and the local remainder of line_by_line' % (cfg, sorted(M.member_carry), [v['name'] for v in M.local_carry.values()]))
        if not wins:
            R.broken('no input window (pointer members aliasing a sibling string) found in %s' % cfg)
    # instance floors confirmed by reading the tree
    R.expect('W1-window-rederived', 2)               # O5mParser::m_data, m_end
    R.expect('W2-refill-result-decides', 4)          # decode_header (7); decode_data (1), (max_varint_length), (length)
    R.expect('W3-no-stale-local', 1)                 # line_by_line: data = &input[ppos]
    R.expect('M1-carry-over-mutation-whitelist', 11)  # PBF reserve, +=, erase; o5m erase, append; OPL append x2, clear, assign; XML m_comment_text append (characters), clear (end_element)
    R.expect('M2-piece-kept', 4)                     # PBF, o5m, OPL, XML pops
    R.expect('M3-erase-is-consumed-prefix', 2)       # o5m erase(0, m_data - data()), PBF erase(0, size)
    R.expect('M4-ensure-pop-paired', 6)              # 3 ensure sites + 3 pop sites in PBFParser
    R.expect('M5-refill-until-needed', 6)            # PBF ensure_available_in_input_queue, o5m ensure_bytes_available: condition, success-implies-enough, gives-up-only-at-end-of-input
    R.expect('M6-held-bytes-delivered', 1)           # line_by_line rest
    R.expect('E1-refill-cycle-tests-end-of-input', 4)
    R.expect('W4-varint-read-window-refilled', 1)    # decode_data: decode_varint(&m_data, m_end) after ensure_bytes_available(max_varint_length)
    R.expect('E3-piece-loop-exits-at-end-of-input', 3)  # line_by_line, XMLParser::run, O5mParser::decode_data (the PBF / o5m refill loops: M5)
    R.expect('E2-failure-exit-guarded-by-end-of-input', 2)  # PBF throw after the pop; o5m `return false` before the pop (3 before the F2 fix a950292)
    R.expect('X2-xml-final-flag-from-queue-state', 1)
    R.expect('X3-xml-parse-args', 1)
    R.expect('T1-read-thread-forwards-piece', 1)
    R.expect('F1-fd-read-is-exact', 5)               # reliable_read->read, read_exactly->reliable_read, NoDecompressor::read, 2 PBF fd reads
    R.expect('F3-descriptor-read-not-suppressed', 1)  # NoDecompressor::read (descriptor mode)
    R.expect('F2-read-exactly-accumulates', 3)       # read_exactly: until-complete, appends-at-offset, fails-only-at-eof


def _selftest(fb, R):
    all_rules(fb, R)


SELFTESTS = [(r, 'c06_chunking.cpp', _selftest) for r in (
    'W1-window-rederived', 'W2-refill-result-decides', 'W3-no-stale-local', 'M1-carry-over-mutation-whitelist', 'M2-piece-kept',
    'M3-erase-is-consumed-prefix', 'M4-ensure-pop-paired', 'M5-refill-until-needed', 'M6-held-bytes-delivered',
    'W4-varint-read-window-refilled', 'E1-refill-cycle-tests-end-of-input', 'E2-failure-exit-guarded-by-end-of-input', 'E3-piece-loop-exits-at-end-of-input', 'X2-xml-final-flag-from-queue-state',
    'X3-xml-parse-args', 'T1-read-thread-forwards-piece', 'F1-fd-read-is-exact', 'F2-read-exactly-accumulates',
    'F3-descriptor-read-not-suppressed')]
