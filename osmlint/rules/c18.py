"""C18 -- Web-Mercator projection and tile numbers: the in-range clause only (ORDERTYPE + constants, narrow).

Everything is decided from the fact base; no libosmium code is run.  Instances are keyed by what the property REQUIRES
(the function / constructor / constant), so a deleted construct is a violated instance.

 K1-tile-result-clamped    mercx_to_tilex / mercy_to_tiley (and the helpers they call): exactly one scaled offset
        (x + max_coordinate) / tile_extent_in_zoom(zoom)  resp.  (max_coordinate - y) / tile_extent_in_zoom(zoom)  -- tiles are
        numbered left to right and top to bottom -- of the coordinate parameter and the zoom parameter; the tile range comes from
        num_tiles_in_zoom(<the zoom parameter>); num_tiles_in_zoom is 1 << zoom and tile_extent_in_zoom is
        (2 * max_coordinate) / num_tiles_in_zoom(zoom).
 K2-clamp-correct          the returned tile number is clamp(trunc(V), 0, N - 1) of the scaled offset V and the tile count N: V is shown
        to be used only in comparisons (incl. std::min / std::max) and conversions; then the function -- helper or inline form, ?: or
        if / early return -- is interpreted by the model interpreter with V and N as opaque inputs for every order type of V relative
        to 0, N - 1, N and the integer limits (incl. -0.0, +-inf, NaN) x N in {1, 2, 8, 2^30}; a floating -> integer conversion
        of a value outside the target type is an error of the run.
 K6-float-to-int-conversion-range-guarded   every floating -> integer conversion on the way to the tile number converts either a
        variable whose dominating guards, evaluated for every order type of the variable (relative to 0, the constants / integer
        variables it is compared with and the integer limits; NaN and infinities included), admit only finite values inside the
        target type, or an expression bounded by construction (std::min / std::max with values of the target range, NaN tracked per
        [alg.min.max]).  This is the rule that finds F22 (conversion before the clamp: +inf at the south pole).
 K3-constants-agree        |earth_radius_for_epsg3857 * PI - max_coordinate_epsg3857| < 0.01 m evaluated from the literals;
        PI is pi to double precision; the radius is the WGS84 semi-major axis 6378137; MERCATOR_MAX_LAT projected with the
        canonical formula R*ln(tan(pi/4 + lat/2)) lies within half a 1e-7 degree step (6.5 cm in y) of max_coordinate, i.e. it is the
        representable latitude nearest to the edge of the square.
 K4-tile-ctor-uses-conversions   Tile(zoom, Location): x = mercx_to_tilex(zoom, c.x), y = mercy_to_tiley(zoom, c.y) with
        c = lonlat_to_mercator(location), z = zoom;  Tile(zoom, Coordinates): the same on the argument;  Tile(zoom, tx, ty)
        stores (tx, ty, zoom);  lonlat_to_mercator builds Coordinates{lon_to_x(c.x), lat_to_y(c.y)}.
 K5-tile-valid-predicate   Tile::valid() returns true exactly when z <= Tile::max_zoom (the enumerator, whatever its value), x < num_tiles_in_zoom(z)
        and y < num_tiles_in_zoom(z) (ORDERTYPE); the enumerator satisfies 30 <= max_zoom <= bits(num_tiles_in_zoom result) - 1 (zoom 0..30 of
        the property are legal, 1U << zoom and num_tiles - 1 stay representable).
 K7-ctor-zoom-assertion-agrees-with-valid   (configurations with assertions) every assertion about the zoom parameter in a Tile constructor is
        equivalent to zoom <= Tile::max_zoom (ORDERTYPE on the assertion condition).
 K3 (continued)            deg_to_rad multiplies by exactly PI / 180.0, rad_to_deg by exactly 180.0 / PI (the folded constant compared bit for bit
        with the quotient evaluated in IEEE double from the library's PI).

Not decided (numerical, left to other technique families -- DESIGN.md section 6): accuracy of the degree-10 rational
approximation in lat_to_y against the tangent formula, strict monotonicity of the projection and of the tile numbers, the
projection round trip, containment of finer tiles in coarser ones.
"""
import math

from .. import ordertype as OT
from ..c17_util import Model, ModelAbort, ModelError, ModelThrow, ModelUnknown, float_value, param_index, peel, this_field, writes
from ..flow import guards_of

EXPLANATION = (
    'Decided: every tile number returned by mercx_to_tilex / mercy_to_tiley is the result of detail::clamp(v, 0, num_tiles_in_zoom(zoom) - 1) '
    'with v the scaled offset of the coordinate argument in the orientation left-to-right / top-to-bottom; clamp is comparison-only and correct '
    'for every order type of its three arguments (all values); num_tiles_in_zoom = 1 << zoom, tile_extent = 2*max/num_tiles; the EPSG:3857 '
    'constants agree with each other to 0.01 m; the Tile constructors and lonlat_to_mercator route the right axis through the right function; '
    'Tile::valid is the exact range predicate. NOT decided: accuracy of the rational latitude approximation, monotonicity, round trip, '
    'double->int32 conversion outside the int32 range (poles, infinities, NaN), tile nesting across zoom levels.')
ASSUMPTIONS = ['LP64 data model, IEEE-754 binary64 (the constant arithmetic of the checker uses the same operations as the compiler)',
               'zoom <= 30 (Tile::max_zoom): 1U << zoom and the conversion of num_tiles - 1 to int32_t do not overflow']

KNOWN = []

NS = 'osmium::geom::'
CLAMP = NS + 'detail::clamp'
NUM_TILES = NS + 'num_tiles_in_zoom'
EXTENT = NS + 'tile_extent_in_zoom'
MAXC = NS + 'detail::max_coordinate_epsg3857'
RADIUS = NS + 'detail::earth_radius_for_epsg3857'
PI = NS + 'PI'
MAXLAT = NS + 'MERCATOR_MAX_LAT'
TILE = NS + 'Tile'
COORD = NS + 'Coordinates'


# ------------------------------------------------------------------------------------------------ interprocedural value origin
#
# A value is a Ref (fn, node id, ctx): ctx binds the parameters of fn to the Refs of the arguments it was called with.  The
# origin of a value is followed through casts, single-definition locals, parameters (into the caller's argument) and calls of
# functions of the fact base that consist of one return statement (an extracted helper is seen through, as if inlined).

LEAVES = (NUM_TILES, EXTENT, NS + 'detail::lon_to_x', NS + 'detail::lat_to_y', NS + 'lonlat_to_mercator', NS + 'mercx_to_tilex', NS + 'mercy_to_tiley')


class Ref:
    __slots__ = ('fn', 'nid', 'ctx', 'top')

    def __init__(self, fn, nid, ctx=None, top=None):
        self.fn, self.nid, self.ctx, self.top = fn, nid, ctx or {}, top if top is not None else fn

    def at(self, nid):
        return Ref(self.fn, nid, self.ctx, self.top)

    @property
    def node(self):
        return self.fn.nodes.get(self.nid)

    def expr(self):
        return self.fn.expr(self.nid)


def xorigin(fb, ref, depth=0):
    while ref is not None and depth < 40:
        depth += 1
        nid = origin(ref.fn, ref.nid)
        if nid is None:
            return None
        ref = ref.at(nid)
        n = ref.node
        if n.get('k') == 'var' and n.get('vk') == 'param' and n['d'] in ref.ctx:
            ref = ref.ctx[n['d']]
            continue
        if n.get('k') == 'call' and n.get('u') and n.get('q') not in LEAVES:
            cands = [g for g in fb.by_usr.get(n['u'], []) if g.has_cfg]
            if cands:
                g = cands[0]
                rets = _returns(g)
                if len(rets) == 1 and len(g.params) == len(n.get('args', [])) and not g.loops:
                    ctx = {p['d']: ref.at(a) for p, a in zip(g.params, n['args'])}
                    ref = Ref(g, rets[0]['sub'], ctx, ref.top)
                    continue
        return ref
    return ref


def origin(fn, nid, depth=0):
    from ..c17_util import origin as _o
    return _o(fn, nid, depth)


def _is_global(fb, ref, q):
    r = xorigin(fb, ref)
    return r is not None and r.node.get('k') == 'var' and r.node.get('q') == q


def _is_param(fb, ref, idx):
    """the value is parameter idx of the function the analysis started in"""
    r = xorigin(fb, ref)
    return r is not None and r.fn is r.top and not r.ctx and r.node.get('k') == 'var' and r.node.get('vk') == 'param' \
        and param_index(r.fn, r.node['d']) == idx


def _call_of(fb, ref, q):
    r = xorigin(fb, ref)
    if r is not None and r.node.get('k') == 'call' and r.node.get('q') == q:
        return r
    return None


def _const(fb, ref):
    r = xorigin(fb, ref)
    if r is None:
        return None
    return r.fn.const_value(r.nid)


def _returns(fn):
    return [n for n in fn.all_nodes() if n.get('k') == 'return' and 'sub' in n]


# ================================================================================================ K1 / K2

def _closure(fb, fn, depth=3):
    """fn and the functions of namespace osmium::geom it calls (transitively), each once."""
    out, seen, work = [], set(), [(fn, 0)]
    while work:
        f, d = work.pop()
        if id(f) in seen:
            continue
        seen.add(id(f))
        out.append(f)
        if d >= depth:
            continue
        for n in f.all_nodes():
            if n.get('k') == 'call' and n.get('u') and n.get('q', '').startswith(NS):
                for g in fb.by_usr.get(n['u'], []):
                    if g.has_cfg:
                        work.append((g, d + 1))
    return out


def _scaled_value_nodes(fb, fn):
    """[(function, node)] quotients `offset / tile_extent_in_zoom(...)` in fn and the helpers it calls."""
    out = []
    for f in _closure(fb, fn):
        if f.q in (EXTENT, NUM_TILES):
            continue
        for n in f.all_nodes():
            if n.get('k') == 'binop' and n.get('op') == '/' and _call_of(fb, Ref(f, n['rhs']), EXTENT) is not None:
                out.append((f, n))
    return out


V_REPS = lambda m: sorted({-float('inf'), -1e300, -5.5, -1.0, -0.5, -0.0, 0.0, 0.25, 1.0, 1.5, m - 0.5, float(m), m + 0.5, m + 1.0, m + 3.5,
                           4294967295.0, 4294967296.0, 1e300, float('inf')}) + [float('nan')]


def _clamp_ref(v, m):
    if v != v:
        return None          # NaN: any tile number of the range
    if v == float('inf'):
        return m
    if v == -float('inf'):
        return 0
    return max(0, min(m, int(v)))


def clamp_dataflow(fb, R):
    for (name, axis) in (('mercx_to_tilex', 'x'), ('mercy_to_tiley', 'y')):
        q = NS + name
        fns = fb.fns(q)
        key = q + '#result-clamped'
        if not fns:
            R.bad('K1-tile-result-clamped', key, q, '%s not found' % q)
            R.bad('K1-tile-result-clamped', q + '#scaled-offset', q, '%s not found' % q)
            R.bad('K2-clamp-correct', q + '#clamps-scaled-value-into-tile-range', q, '%s not found' % q)
            continue
        for fn in fns:
            if len(fn.params) != 2:
                R.broken('%s: expected (zoom, coordinate) parameters' % fn.full)
                continue
            # ---- the scaled offset (x + max) / extent(zoom) resp. (max - y) / extent(zoom): exactly one, in the right orientation
            k2 = q + '#scaled-offset'
            sv = _scaled_value_nodes(fb, fn)
            if len(sv) != 1:
                R.check(False, 'K1-tile-result-clamped', k2, fn.site,
                        '%s: expected exactly one quotient <offset> / tile_extent_in_zoom(zoom) on the way to the result, found %d' % (name, len(sv)))
                continue
            vf, vn = sv[0]
            ctx = {}
            if vf is not fn:
                calls = [n for n in fn.all_nodes() if n.get('k') == 'call' and n.get('u') and any(g is vf for g in fb.by_usr.get(n['u'], []))]
                if len(calls) != 1 or len(calls[0].get('args', [])) != len(vf.params):
                    R.broken('%s: the helper computing the scaled value is not called exactly once from %s' % (fn.full, name))
                    continue
                ctx = {p['d']: Ref(fn, a) for p, a in zip(vf.params, calls[0]['args'])}
            d = Ref(vf, vn['id'], ctx, fn)
            ext = _call_of(fb, d.at(vn['rhs']), EXTENT)
            off = xorigin(fb, d.at(vn['lhs']))
            msg = None
            if off is None or off.node.get('k') != 'binop' or off.node.get('op') not in ('+', '-'):
                R.broken('%s: scaled value %s is not (offset) / tile_extent_in_zoom(zoom)' % (fn.full, d.expr()[:80]))
                continue
            if len(ext.node.get('args', [])) != 1 or not _is_param(fb, ext.at(ext.node['args'][0]), 0):
                msg = 'the tile extent is not taken for the zoom parameter'
            else:
                L, Rr = off.at(off.node['lhs']), off.at(off.node['rhs'])
                l_is_max, r_is_max = _is_global(fb, L, MAXC), _is_global(fb, Rr, MAXC)
                l_is_p, r_is_p = _is_param(fb, L, 1), _is_param(fb, Rr, 1)
                if not ((l_is_max and r_is_p) or (l_is_p and r_is_max)):
                    R.broken('%s: offset %s is not built from the coordinate parameter and max_coordinate_epsg3857' % (fn.full, off.expr()))
                    continue
                if axis == 'x' and off.node['op'] != '+':
                    msg = 'x tiles are numbered from left to right: the offset must be x + max_coordinate, found %s' % off.expr()
                elif axis == 'y' and not (off.node['op'] == '-' and l_is_max):
                    msg = 'y tiles are numbered from top to bottom: the offset must be max_coordinate - y, found %s' % off.expr()
            R.check(msg is None, 'K1-tile-result-clamped', k2, vf.loc(vn['id']), '%s: %s' % (name, msg), detail=d.expr()[:100])
            # ---- the upper bound is computed from num_tiles_in_zoom(<zoom parameter>)
            ntc = [(f, n) for f in _closure(fb, fn) if f.q not in (EXTENT, NUM_TILES) for n in f.all_nodes()
                   if n.get('k') == 'call' and n.get('q') == NUM_TILES and not any(n['id'] in f.subtree(x['id']) for (g_, x) in sv if g_ is f)]
            okn = len(ntc) >= 1
            for (f, n) in ntc:
                c2 = ctx if f is vf else {}
                if f is not fn and f is not vf:
                    okn = False
                elif len(n.get('args', [])) != 1 or not _is_param(fb, Ref(f, n['args'][0], c2, fn), 0):
                    okn = False
            R.check(okn, 'K1-tile-result-clamped', key, fn.site,
                    '%s: the tile range is not taken from num_tiles_in_zoom(<the zoom parameter>): the tile number can leave [0, 2^zoom - 1]' % name,
                    detail='result <- clamp(scaled value, 0, num_tiles_in_zoom(zoom) - 1)')
            if not okn:
                continue
            # ---- K2: case analysis of the clamp.  The scaled value V and the tile count N are given to the model interpreter as opaque
            # inputs (node override / hook); the function is interpreted for every order type of V relative to 0, N-1, N and the
            # limits of the integer types (representatives incl. -0.0, +-inf, NaN); the result must be clamp(trunc(V), 0, N-1) and no
            # floating -> integer conversion may see a value outside the target type (the model raises on it).
            kk = q + '#clamps-scaled-value-into-tile-range'
            if not _comparison_only(fb, fn, vf, vn, ctx_calls=True):
                R.broken('%s: the scaled value is used other than in comparisons and one conversion (the case analysis is not exhaustive)' % fn.full)
                continue
            bad = None
            runs = 0
            try:
                for N in (1, 2, 8, 1 << 30):
                    for v in V_REPS(N - 1):
                        runs += 1
                        model = Model(fb, hooks={NUM_TILES: (lambda fr, nid, n, args, N=N: N)}, node_values={(id(vf), vn['id']): v})
                        try:
                            r = model.call(fn, None, [5, 0.0])
                        except ModelError as e:
                            bad = bad or 'scaled value %r, %d tiles: %s' % (v, N, e)
                            continue
                        want = _clamp_ref(v, N - 1)
                        if isinstance(r, bool) or not isinstance(r, int) or not (0 <= r <= N - 1) or (want is not None and r != want):
                            bad = bad or 'scaled value %r with %d tiles per row gives tile %r, required %s' % (
                                v, N, r, want if want is not None else 'a number in [0, %d]' % (N - 1))
            except (ModelUnknown, ModelThrow, ModelAbort) as e:
                R.broken('%s: %s' % (fn.full, e))
                continue
            R.check(bad is None, 'K2-clamp-correct', kk, fn.site, '%s: %s' % (name, bad),
                    detail='%d order types of (scaled value, tile count) interpreted; result == clamp(trunc(V), 0, N - 1), no conversion out of range' % runs)
    # ---- num_tiles_in_zoom = 1 << zoom
    q = NUM_TILES
    fns = fb.fns(q)
    if not fns:
        R.bad('K1-tile-result-clamped', q + '#2^zoom', q, '%s not found' % q)
    for fn in fns:
        ok = bool(_returns(fn))
        for r in _returns(fn):
            b = xorigin(fb, Ref(fn, r['sub']))
            ok = ok and b is not None and b.node.get('k') == 'binop' and b.node.get('op') == '<<' and _const(fb, b.at(b.node['lhs'])) == 1 \
                and _is_param(fb, b.at(b.node['rhs']), 0) \
                and (b.fn.nodes.get(peel(b.fn, b.node['lhs']), {}).get('t') or '').startswith('unsigned')
        R.check(ok, 'K1-tile-result-clamped', q + '#2^zoom', fn.site, 'num_tiles_in_zoom must return 1U << zoom')
    # ---- tile_extent_in_zoom = 2 * max / num_tiles
    q = EXTENT
    fns = fb.fns(q)
    if not fns:
        R.bad('K1-tile-result-clamped', q + '#world-width/num-tiles', q, '%s not found' % q)
    g = fb.global_const(MAXC)
    maxc = float(g['cv']) if g is not None and 'cv' in g else None
    for fn in fns:
        ok = bool(_returns(fn)) and maxc is not None
        for r in _returns(fn):
            b = xorigin(fb, Ref(fn, r['sub']))
            if b is None or b.node.get('k') != 'binop' or b.node.get('op') != '/':
                ok = False
                continue
            nt = _call_of(fb, b.at(b.node['rhs']), NUM_TILES)
            wn = origin(b.fn, b.node['lhs'])
            w = float_value(b.fn, wn, fb) if wn is not None else None
            ok = ok and nt is not None and len(nt.node.get('args', [])) == 1 and _is_param(fb, nt.at(nt.node['args'][0]), 0) and w is not None \
                and maxc is not None and w == 2 * maxc and any(b.fn.nodes[x].get('q') == MAXC for x in b.fn.subtree(wn))
        R.check(ok, 'K1-tile-result-clamped', q + '#world-width/num-tiles', fn.site,
                'tile_extent_in_zoom must return (2 * max_coordinate_epsg3857) / num_tiles_in_zoom(zoom)')


# ================================================================================================ K2

def _comparison_only(fb, fn, vf, vn, ctx_calls=True):
    """The scaled value (node vn of function vf) reaches the result only through: a local it initialises, an argument of a call
    of a function of the fact base (then the parameter carries it), comparisons, and floating -> integer conversions."""
    work = []
    seen = set()

    def carriers_of(f, nid):
        pm = f.parent_map()
        x = nid
        hops = 0
        while x in pm and hops < 8:
            p = f.nodes[pm[x]]
            hops += 1
            k = p.get('k')
            if k in ('wrap', 'icast') or (k == 'cast' and p.get('ck') in ('NoOp', 'FloatingToIntegral')):
                if p.get('ck') == 'FloatingToIntegral':
                    return True
                x = p['id']
                continue
            if k == 'binop' and p.get('op') in ('<', '<=', '>', '>=', '==', '!='):
                return True
            if k == 'call' and p.get('q') in ('std::min', 'std::max') and x in p.get('args', []):
                x = p['id']      # comparison-only selection: the result carries one of the operands
                continue
            if k == 'decl':
                for v in p['vars']:
                    if isinstance(v.get('init'), int) and x in f.subtree(v['init']):
                        work.append((f, v['d']))
                return True
            if k == 'call' and p.get('u') and x in p.get('args', []):
                gs = [g for g in fb.by_usr.get(p['u'], []) if g.has_cfg]
                i = p['args'].index(x)
                if gs and i < len(gs[0].params):
                    work.append((gs[0], gs[0].params[i]['d']))
                    return True
                return False
            if k == 'return' or k == 'condop':
                return False        # the raw floating value would be returned / selected
            return False
        return False
    if not carriers_of(vf, vn['id']):
        return False
    while work:
        f, d = work.pop()
        if (id(f), d) in seen:
            continue
        seen.add((id(f), d))
        for n in f.all_nodes():
            if n.get('k') == 'var' and n.get('d') == d:
                if not carriers_of(f, n['id']):
                    return False
    return True


# ================================================================================================ K6

F2I_REPS = [float('nan'), -float('inf'), -1e300, -4294967296.5, -2147483649.0, -2147483648.0, -1.5, -1.0, -0.5, -0.0, 0.0, 0.5, 1.0, 999.5, 1000.0, 1000.5,
            2147483647.0, 2147483648.0, 4294967295.0, 4294967295.5, 4294967296.0, 1e300, float('inf')]
INT_REPS = {'unsigned int': (0, 1, 1000, 4294967295), 'int': (-2147483648, -1, 0, 1, 1000, 2147483647), 'unsigned long': (0, 1, 1000, 2 ** 64 - 1),
            'long': (-2 ** 63, 0, 1000, 2 ** 63 - 1)}
INT_RANGE = {'unsigned int': (0, 4294967295), 'int': (-2147483648, 2147483647), 'unsigned long': (0, 2 ** 64 - 1), 'long': (-2 ** 63, 2 ** 63 - 1),
             'unsigned short': (0, 65535), 'short': (-32768, 32767), 'unsigned char': (0, 255), 'signed char': (-128, 127), 'char': (-128, 127)}


def _feval(fn, nid, env):
    """Concrete value of a guard expression over env {decl id: number}; None when it depends on anything else."""
    n = fn.nodes.get(nid)
    if n is None:
        return None
    k = n.get('k')
    if k in ('wrap', 'icast', 'cast') and 'sub' in n:
        v = _feval(fn, n['sub'], env)
        if v is None:
            return None
        if n.get('ck') == 'IntegralToFloating':
            return float(v)
        return v
    if k == 'lit' and 'cv' in n:
        return float(n['cv']) if n.get('float') else int(n['cv'])
    if k == 'var':
        if n.get('d') in env:
            return env[n['d']]
        if 'cv' in n:
            return float(n['cv']) if n.get('float') else int(n['cv'])
        return None
    if k == 'unop' and n.get('op') == '!':
        v = _feval(fn, n['sub'], env)
        return None if v is None else (not v)
    if k == 'unop' and n.get('op') == '-':
        v = _feval(fn, n['sub'], env)
        return None if v is None else -v
    if k == 'binop':
        op = n['op']
        a, b = _feval(fn, n['lhs'], env), _feval(fn, n['rhs'], env)
        if op == '&&':
            if a is False or b is False:
                return False
            return None if (a is None or b is None) else bool(a and b)
        if op == '||':
            if (a is not None and a) or (b is not None and b):
                return True
            return None if (a is None or b is None) else False
        if a is None or b is None:
            return None
        try:
            return {'<': a < b, '<=': a <= b, '>': a > b, '>=': a >= b, '==': a == b, '!=': a != b, '+': a + b, '-': a - b, '*': a * b}[op]
        except KeyError:
            return None
    if 'cv' in n:
        try:
            return int(n['cv'])
        except ValueError:
            return None
    return None


def _frange(f, nid, depth=0):
    """(lo, hi, may be NaN) of a floating expression built from constants, integer values converted to double and std::min / std::max;
    anything else is unbounded and may be NaN."""
    INF = float('inf')
    n = f.nodes.get(nid)
    if n is None or depth > 24:
        return (-INF, INF, True)
    k = n.get('k')
    if k == 'wrap' and 'sub' in n:
        return _frange(f, n['sub'], depth + 1)
    if k == 'construct' and len(n.get('args', [])) == 1 and (n.get('elidable') or n.get('copymove')):
        return _frange(f, n['args'][0], depth + 1)
    if k in ('cast', 'icast') and n.get('ck') in ('NoOp', 'LValueToRValue') and 'sub' in n:
        return _frange(f, n['sub'], depth + 1)
    if k in ('cast', 'icast') and n.get('ck') == 'IntegralToFloating':
        t_ = (f.nodes.get(peel(f, n['sub']), {}).get('t') or '').replace('const ', '')
        c = f.const_value(n['sub'])
        if c is not None:
            return (float(c), float(c), False)
        if t_ in INT_RANGE:
            return (float(INT_RANGE[t_][0]), float(INT_RANGE[t_][1]), False)
        return (-INF, INF, False)
    if k == 'lit' and 'cv' in n:
        try:
            v = float(n['cv'])
            return (v, v, v != v)
        except ValueError:
            return (-INF, INF, True)
    if k == 'icast' and 'sub' in n:
        return _frange(f, n['sub'], depth + 1)
    if k == 'call' and n.get('q') in ('std::min', 'std::max') and len(n.get('args', [])) == 2:
        (la, ha, na), (lb, hb, nb) = _frange(f, n['args'][0], depth + 1), _frange(f, n['args'][1], depth + 1)
        if n['q'] == 'std::min':
            lo, hi = min(la, lb), min(ha, hb)
        else:
            lo, hi = max(la, lb), max(ha, hb)
        if nb:      # the comparison with a NaN second operand is false: the first operand is returned
            lo, hi = min(lo, la), max(hi, ha)
        return (lo, hi, na)
    return (-INF, INF, True)


def conversion_guards(fb, R):
    """K6: every floating -> integer conversion in the tile number functions (and what they call) is executed only for values inside
    the range of the target type: the guards that dominate it are evaluated for every order type of the converted variable (relative to
    0, the constants and integer variables it is compared with, and the limits of the integer types; NaN and the infinities included);
    wherever all of them hold the value must be finite and inside the range.  A conversion of anything but a plain variable has no
    guard that could bound it."""
    for name in ('mercx_to_tilex', 'mercy_to_tiley'):
        q = NS + name
        key = q + '#float-to-int-conversions-range-guarded'
        fns = fb.fns(q)
        if not fns:
            R.bad('K6-float-to-int-conversion-range-guarded', key, q, '%s not found' % q)
        for fn in fns:
            bad = None
            ncasts = 0
            for f in _closure(fb, fn):
                for c in f.all_nodes():
                    if c.get('k') not in ('cast', 'icast') or c.get('ck') != 'FloatingToIntegral':
                        continue
                    ncasts += 1
                    tgt = (c.get('t') or '').replace('const ', '')
                    rngt = INT_RANGE.get(tgt)
                    if rngt is None:
                        R.broken('%s: conversion to %s not understood' % (f.full, tgt))
                        continue
                    on_ = f.nodes.get(peel(f, c['sub']))
                    site = f.loc(c['id'])
                    if on_ is None or on_.get('k') != 'var' or on_.get('vk') not in ('local', 'param') or any(w[1] == ('var', on_['d']) for w in writes(f)):
                        lo_, hi_, nan_ = _frange(f, c['sub'])
                        if not nan_ and rngt[0] - 1 < lo_ and hi_ < rngt[1] + 1:
                            continue      # bounded by construction (min / max with values of the target range)
                        bad = bad or (site, '`%s` (an expression whose value no test bounds) is converted to %s: for a value outside [%d, %d] -- +-inf at a '
                                            'pole, > INT32_MAX far south at zoom 30 -- the conversion is undefined' % (f.expr(c['sub'])[:70], tgt, rngt[0], rngt[1]))
                        continue
                    dE = on_['d']
                    guards = guards_of(f, c['id'])
                    # integer variables the guards compare the value with
                    others = {}
                    for (g, _s, _b) in guards:
                        for x in f.subtree(g):
                            nx = f.nodes[x]
                            if nx.get('k') == 'var' and nx.get('vk') in ('local', 'param') and nx['d'] != dE:
                                t_ = (nx.get('t') or '').replace('const ', '')
                                if t_ in INT_REPS:
                                    others[nx['d']] = INT_REPS[t_]
                    import itertools
                    combos = [dict(zip(others, vals)) for vals in itertools.product(*others.values())] if others else [{}]
                    for env0 in combos:
                        reps = set(F2I_REPS)
                        for v_ in env0.values():
                            reps |= {v_ - 0.5, float(v_), v_ + 0.5}
                        for v in reps:
                            env = dict(env0)
                            env[dE] = v
                            holds = True
                            for (g, sense, _b) in guards:
                                r = _feval(f, g, env)
                                if r is not None and bool(r) != bool(sense):
                                    holds = False
                                    break
                            if holds and (v != v or v in (float('inf'), -float('inf')) or not (rngt[0] - 1 < v < rngt[1] + 1)):
                                bad = bad or (site, '`%s` is converted to %s although the tests before the conversion let the value %r through%s: undefined '
                                                    'behaviour (range [%d, %d])' % (on_['name'], tgt, v, (' (with %s)' % env0) if env0 else '', rngt[0], rngt[1]))
            R.check(bad is None, 'K6-float-to-int-conversion-range-guarded', key, bad[0] if bad else fn.site, '%s: %s' % (name, bad[1] if bad else ''),
                    detail='%d floating -> integer conversion(s) on the way to the tile number, each bounded below and above by its guards' % ncasts)
            R.check(ncasts >= 1, 'K6-float-to-int-conversion-range-guarded', key, fn.site, '%s: no floating -> integer conversion found' % name) if bad is None and ncasts == 0 else None


# ================================================================================================ K3

def constants(fb, R):
    vals = {}
    for q in (MAXC, RADIUS, PI, MAXLAT):
        g = fb.global_const(q)
        if g is None or 'cv' not in g:
            R.bad('K3-constants-agree', q + '#defined', q, 'constant %s not found' % q)
            continue
        try:
            vals[q] = float(g['cv'])
        except ValueError:
            R.broken('constant %s has the unparsable value %r' % (q, g['cv']))
    site = lambda q: '%s:%s' % (fb.global_const(q)['file'], fb.global_const(q).get('l', 0))
    if PI in vals:
        R.check(abs(vals[PI] - math.pi) < 1e-15, 'K3-constants-agree', PI + '#is-pi', site(PI), 'osmium::geom::PI = %r is not pi (%r)' % (vals[PI], math.pi))
    if RADIUS in vals:
        R.check(vals[RADIUS] == 6378137.0, 'K3-constants-agree', RADIUS + '#wgs84-semi-major-axis', site(RADIUS),
                'earth_radius_for_epsg3857 = %r, EPSG:3857 uses the WGS84 semi-major axis 6378137 m' % vals[RADIUS])
    if RADIUS in vals and PI in vals and MAXC in vals:
        d = abs(vals[RADIUS] * vals[PI] - vals[MAXC])
        R.check(d < 0.01, 'K3-constants-agree', MAXC + '#equals-radius*pi', site(MAXC),
                'max_coordinate_epsg3857 = %r differs from earth_radius * PI = %r by %.4f m (>= 0.01 m): lon_to_x(+-180) and the tile grid disagree'
                % (vals[MAXC], vals[RADIUS] * vals[PI], d), detail='|R*pi - max| = %.6f m' % d)
    if RADIUS in vals and MAXLAT in vals and MAXC in vals:
        lat = vals[MAXLAT]
        ok = 0 < lat < 90
        y = vals[RADIUS] * math.log(math.tan(math.pi / 4 + math.radians(lat) / 2)) if ok else float('nan')
        # the constant is given in the fixed-point resolution of osmium::Location (1e-7 degree): it must be the representable latitude
        # nearest to the edge of the square, i.e. within half a resolution step (times dy/dlat = R / cos(lat)) of max_coordinate
        tol = (0.5e-7 * math.pi / 180.0) * vals[RADIUS] / math.cos(math.radians(lat)) + 0.01 if ok else 0.0
        R.check(ok and abs(y - vals[MAXC]) <= tol, 'K3-constants-agree', MAXLAT + '#projects-to-max-coordinate', site(MAXLAT),
                'MERCATOR_MAX_LAT = %r projects to y = %.4f, max_coordinate_epsg3857 is %r (allowed distance: half a 1e-7 degree step = %.4f m): '
                'the projected square is not closed' % (lat, y, vals[MAXC], tol),
                detail='R*ln(tan(pi/4 + lat/2)) = %.6f, |y - max| = %.4f m <= %.4f m' % (y, abs(y - vals[MAXC]), tol))


# ================================================================================================ K4

def _field_sources(fb, fn, ctx=None, top=None, depth=0):
    """{field name: [Ref of the value stored]} for ctor initialisers and plain assignments to this-members; a delegating
    constructor contributes the stores of its target with the arguments bound."""
    out = {}
    top = top or fn
    for n in fn.all_nodes():
        if n.get('k') == 'init' and isinstance(n.get('init'), int):
            if 'name' in n:
                out.setdefault(n['name'], []).append(Ref(fn, n['init'], ctx, top))
            else:
                c = fn.nodes.get(peel(fn, n['init']), {})
                if c.get('k') == 'construct' and c.get('q') == TILE + '::(ctor)' and depth < 3:
                    cands = [g for g in fb.by_usr.get(c.get('u'), []) if g.has_cfg]
                    if cands and len(cands[0].params) == len(c.get('args', [])):
                        g = cands[0]
                        sub = {p['d']: Ref(fn, a, ctx, top) for p, a in zip(g.params, c['args'])}
                        for f, refs in _field_sources(fb, g, sub, top, depth + 1).items():
                            out.setdefault(f, []).extend(refs)
    for (n, key, kind, rhs) in writes(fn):
        if key[0] == 'field':
            out.setdefault(key[1], []).append(Ref(fn, rhs, ctx, top) if kind in ('assign', 'opassign') and rhs is not None else None)
    return out


def _member_of(fb, ref, name):
    """Ref of the base if the origin of the value is `<base>.name`."""
    r = xorigin(fb, ref)
    if r is not None and r.node.get('k') == 'member' and r.node.get('name') == name and r.node.get('field'):
        return r.at(r.node['base'])
    return None


def tile_ctors(fb, R):
    q = TILE + '::(ctor)'
    rec = fb.record(TILE)
    if rec is None or len(rec.fields) < 3:
        R.broken('record %s with fields x, y, z not found' % TILE)
        return
    crec = fb.record(COORD)
    cx, cy = (crec.fields[0]['name'], crec.fields[1]['name']) if crec is not None and len(crec.fields) >= 2 else ('x', 'y')
    fx, fy, fz = 'x', 'y', 'z'
    seen = set()
    for fn in fb.fns(q):
        ps = fn.params
        src = _field_sources(fb, fn)
        if len(ps) == 3:
            seen.add('xyz')
            ok = all(len(src.get(f, [])) == 1 and src[f][0] is not None for f in (fx, fy, fz)) and _is_param(fb, src[fx][0], 1) \
                and _is_param(fb, src[fy][0], 2) and _is_param(fb, src[fz][0], 0)
            R.check(ok, 'K4-tile-ctor-uses-conversions', q + '#from-xyz', fn.site, 'Tile(zoom, tx, ty) must store x = tx, y = ty, z = zoom')
            continue
        if len(ps) != 2:
            continue
        from_loc = 'Location' in ps[1]['tC']
        from_coord = COORD in ps[1]['tC']
        if not (from_loc or from_coord):
            continue
        tag = 'from-Location' if from_loc else 'from-Coordinates'
        seen.add(tag)
        msg = None
        if not all(len(src.get(f, [])) == 1 and src[f][0] is not None for f in (fx, fy, fz)):
            msg = 'x, y and z must each be set exactly once (found %s)' % {f: len(src.get(f, [])) for f in (fx, fy, fz)}
        elif not _is_param(fb, src[fz][0], 0):
            msg = 'z is not the zoom parameter'
        else:
            bases = []
            for (f, conv, member) in ((fx, NS + 'mercx_to_tilex', cx), (fy, NS + 'mercy_to_tiley', cy)):
                c = _call_of(fb, src[f][0], conv)
                if c is None:
                    msg = '%s is not computed by %s (found %s)' % (f, conv.rsplit('::', 1)[-1], src[f][0].expr()[:70])
                    break
                a = c.node.get('args', [])
                if len(a) != 2 or not _is_param(fb, c.at(a[0]), 0):
                    msg = '%s is computed for another zoom than the parameter' % f
                    break
                b = _member_of(fb, c.at(a[1]), member)
                if b is None:
                    msg = '%s is computed from %s, required the %s member of the mercator coordinates' % (f, c.at(a[1]).expr(), member)
                    break
                bases.append(b)
            if msg is None:
                if from_coord:
                    if not all(_is_param(fb, b, 1) for b in bases):
                        msg = 'the coordinates used are not the constructor argument'
                else:
                    for b in bases:
                        c = _call_of(fb, b, NS + 'lonlat_to_mercator')
                        if c is None:
                            msg = 'the location is not converted with lonlat_to_mercator (found %s)' % b.expr()[:70]
                            break
                        a = xorigin(fb, c.at(c.node['args'][0])) if c.node.get('args') else None
                        # implicit Coordinates(Location) conversion of the parameter
                        if a is not None and a.node.get('k') == 'construct' and a.node.get('q') == COORD + '::(ctor)' and len(a.node.get('args', [])) == 1:
                            a = a.at(a.node['args'][0])
                        if a is None or not _is_param(fb, a, 1):
                            msg = 'lonlat_to_mercator is not applied to the location argument'
                            break
        R.check(msg is None, 'K4-tile-ctor-uses-conversions', '%s#%s' % (q, tag), fn.site, 'Tile(zoom, %s): %s' % ('Location' if from_loc else 'Coordinates', msg))
    for tag in ('xyz', 'from-Location', 'from-Coordinates'):
        if tag not in seen:
            R.bad('K4-tile-ctor-uses-conversions', '%s#%s' % (q, 'from-xyz' if tag == 'xyz' else tag), '%s:%d' % (rec.file, rec.line),
                  'constructor %s not found / not instantiated' % tag)
    # lonlat_to_mercator
    q2 = NS + 'lonlat_to_mercator'
    key = q2 + '#x<-lon_to_x(c.x),y<-lat_to_y(c.y)'
    fns = fb.fns(q2)
    if not fns:
        R.bad('K4-tile-ctor-uses-conversions', key, q2, '%s not found' % q2)
    for fn in fns:
        msg = None
        rets = _returns(fn)
        if not rets:
            msg = 'no return'
        for r in rets:
            c = xorigin(fb, Ref(fn, r['sub']))
            while c is not None and c.node.get('k') == 'construct' and c.node.get('q') == COORD + '::(ctor)' and len(c.node.get('args', [])) == 1:
                c = xorigin(fb, c.at(c.node['args'][0]))
            if c is None or c.node.get('k') != 'construct' or c.node.get('q') != COORD + '::(ctor)' or len(c.node.get('args', [])) != 2:
                msg = 'does not return Coordinates{x, y}'
                break
            for (a, conv, member) in ((c.node['args'][0], NS + 'detail::lon_to_x', cx), (c.node['args'][1], NS + 'detail::lat_to_y', cy)):
                k = _call_of(fb, c.at(a), conv)
                if k is None or len(k.node.get('args', [])) != 1:
                    msg = '%s must be computed by %s' % ('x' if member == cx else 'y', conv.rsplit('::', 1)[-1])
                    break
                b = _member_of(fb, k.at(k.node['args'][0]), member)
                if b is None or not _is_param(fb, b, 0):
                    msg = '%s must be applied to c.%s' % (conv.rsplit('::', 1)[-1], member)
                    break
        R.check(msg is None, 'K4-tile-ctor-uses-conversions', key, fn.site, 'lonlat_to_mercator: %s' % msg)


# ================================================================================================ K5

def _max_zoom(fb):
    """(value, enum dict) of the enumerator Tile::max_zoom"""
    for e in fb.enums:
        if e['q'].startswith(TILE + '::'):
            for x in e['enumerators']:
                if x['name'] == 'max_zoom':
                    return int(x['value']), e
    return None, None


def tile_valid(fb, R):
    """K5: valid() <=> z <= Tile::max_zoom (the enumerator, whatever its value) && x, y < num_tiles_in_zoom(z); the enumerator itself must
    keep `1U << zoom` and `num_tiles_in_zoom(zoom) - 1` representable (max_zoom <= bits of the return type - 1) and cover the zoom levels
    0..30 the property quantifies over."""
    Z, ze = _max_zoom(fb)
    if Z is None:
        R.bad('K5-tile-valid-predicate', TILE + '::max_zoom#shift-range', TILE, 'enumerator Tile::max_zoom not found')
        return
    nt = fb.fns(NUM_TILES)
    bits = 32
    if nt:
        from ..c17_util import _SIZES
        bits = 8 * _SIZES.get(nt[0].retC.replace('const ', ''), 4)
    R.check(30 <= Z <= bits - 1, 'K5-tile-valid-predicate', TILE + '::max_zoom#shift-range', '%s:%s' % (ze['file'], ze['line']),
            'Tile::max_zoom = %d: %s' % (Z, 'the property quantifies over zoom 0..30, which valid() / the constructors would reject' if Z < 30 else
                                       '1U << zoom is not representable in the %d bit result of num_tiles_in_zoom for zoom = %d' % (bits, Z)),
            detail='30 <= max_zoom = %d <= %d' % (Z, bits - 1))
    q = TILE + '::valid'
    key = q + '#range-predicate'
    fns = fb.fns(q)
    if not fns:
        R.bad('K5-tile-valid-predicate', key, q, '%s not found' % q)
    for fn in fns:
        def atoms(f, n):
            if n.get('k') == 'call' and n.get('q') == NUM_TILES and len(n.get('args', [])) == 1 and this_field(f, n['args'][0]) == 'z':
                return ('ntiles', OT.UINT32)
            return None
        try:
            prog = OT.compile_function(fb, fn, atoms)
        except OT.Inexact as e:
            R.broken('%s is not comparison-only: %s' % (q, e))
            continue
        need = {'this.x', 'this.y', 'this.z', 'ntiles'}
        ints, bools, consts = prog.symbols()
        if set(ints) != need:
            R.check(False, 'K5-tile-valid-predicate', key, fn.site,
                    'valid() must test x, y, z and num_tiles_in_zoom(z); it depends on %s' % sorted(ints))
            continue
        bad = None
        n = 0
        try:
            for w in OT.program_worlds(prog, extra_consts=(Z, Z + 1)):
                n += 1
                got = OT.run(prog, w).as_bool()
                want = w.le('this.z', Z) and w.lt('this.x', 'ntiles') and w.lt('this.y', 'ntiles')
                if got != want and bad is None:
                    bad = (w, got)
        except OT.Inexact as e:
            R.broken('%s: %s' % (q, e))
            continue
        R.check(bad is None, 'K5-tile-valid-predicate', key, fn.site,
                'valid() returns %s for %s; required: z <= max_zoom (%d) && x < 2^z && y < 2^z' % (bad[1] if bad else '', bad[0].witness() if bad else '', Z),
                detail='decided over %d order types of (x, y, z, num_tiles, max_zoom = %d)' % (n, Z))


def ctor_zoom_asserts(fb, R):
    """K7 (configurations with assertions enabled): every assertion about the zoom parameter in a Tile constructor accepts exactly
    zoom <= Tile::max_zoom -- the bound valid() uses -- so no legal zoom level aborts and no illegal one passes in one constructor only."""
    Z, _ze = _max_zoom(fb)
    if Z is None:
        return
    from ..c17_util import is_abort_block
    for fn in fb.fns(TILE + '::(ctor)'):
        if not fn.params or 'int' not in fn.params[0]['tC']:
            continue
        pz = fn.params[0]['d']
        shape = 'from-xyz' if len(fn.params) == 3 else ('from-Location' if 'Location' in fn.params[1]['tC'] else
                                                        ('from-Coordinates' if COORD in fn.params[1]['tC'] else None)) if len(fn.params) >= 2 else None
        if shape is None:
            continue
        for blk in fn.blocks.values():
            if 'cond' not in blk or len(blk['succs']) != 2 or blk['succs'][1] is None or not is_abort_block(fn, blk['succs'][1]):
                continue
            c = blk['cond']
            vars_ = [fn.nodes[x] for x in fn.subtree(c) if fn.nodes[x].get('k') == 'var' and fn.nodes[x].get('vk') in ('local', 'param')]
            if not vars_ or any(v.get('d') != pz for v in vars_) or any(fn.nodes[x].get('k') in ('member', 'call') and not fn.nodes[x].get('cv')
                                                                      for x in fn.subtree(c) if fn.nodes[x].get('k') in ('member', 'call')):
                continue        # an assertion about something else (location.valid(), x < num_tiles ...)
            key = '%s::(ctor)#%s/zoom-assertion' % (TILE, shape)
            try:
                prog = OT.compile_expression(fb, fn, c)
            except OT.Inexact as e:
                R.broken('%s: zoom assertion `%s` is not comparison-only: %s' % (fn.full, fn.expr(c), e))
                continue
            name = fn.params[0]['name'] or 'arg0'
            bad = None
            for w in OT.program_worlds(prog, extra_ints={name: OT.UINT32}, extra_consts=(Z, Z + 1)):
                got = OT.run(prog, w).as_bool()
                if got != w.le(name, Z) and bad is None:
                    bad = (w, got)
            R.check(bad is None, 'K7-ctor-zoom-assertion-agrees-with-valid', key, fn.loc(blk['elems'][-1]) if blk['elems'] else fn.site,
                    'the assertion `%s` %s zoom = %s, but valid() and the other constructors accept exactly zoom <= max_zoom (%d)'
                    % (fn.expr(c), 'accepts' if bad and bad[1] else 'aborts for', bad[0].witness() if bad else '', Z),
                    detail='`%s` <=> zoom <= %d' % (fn.expr(c), Z))


def conversion_factors(fb, R):
    """K3 (continued): deg_to_rad multiplies by exactly PI / 180.0 and rad_to_deg by exactly 180.0 / PI, evaluated in IEEE double from the
    library's PI (the constant the compiler folded is compared bit for bit: one ulp more and deg_to_rad(90) exceeds pi/2, tan() turns
    negative and lat_to_y_with_tan(+-90) is NaN)."""
    g = fb.global_const(PI)
    if g is None or 'cv' not in g:
        return
    pi = float(g['cv'])
    for (name, want, text) in (('deg_to_rad', pi / 180.0, 'PI / 180.0'), ('rad_to_deg', 180.0 / pi, '180.0 / PI')):
        q = NS + name
        key = '%s#factor-is-%s' % (q, text.replace(' ', ''))
        fns = fb.fns(q)
        if not fns:
            R.bad('K3-constants-agree', key, q, '%s not found' % q)
        for fn in fns:
            msg = None
            for r in _returns(fn):
                b = xorigin(fb, Ref(fn, r['sub']))
                n = b.node if b is not None else None
                if n is None or n.get('k') != 'binop' or n.get('op') not in ('*', '/'):
                    R.broken('%s: return value %s is not a product / quotient' % (fn.full, fn.expr(r['sub'])))
                    msg = 'skip'
                    continue
                L, Rr = b.at(n['lhs']), b.at(n['rhs'])
                if n['op'] == '*' and (_is_param(fb, L, 0) or _is_param(fb, Rr, 0)):
                    fac = Rr if _is_param(fb, L, 0) else L
                    fo = origin(fac.fn, fac.nid)
                    v = float_value(fac.fn, fo, fb) if fo is not None else None
                    if v is None:
                        R.broken('%s: factor %s is not a constant expression' % (fn.full, fac.expr()))
                        msg = 'skip'
                    elif v != want:
                        msg = 'multiplies by %r, required %s = %r (differs by %.3g): the angle conversion is off by a rounding step' % (v, text, want, v - want)
                else:
                    # (x * PI) / 180.0 resp. (x * 180.0) / PI: the definition itself, written out
                    l2 = xorigin(fb, L)
                    n2 = l2.node if l2 is not None else None
                    ok = n['op'] == '/' and n2 is not None and n2.get('k') == 'binop' and n2.get('op') == '*' and \
                        (_is_param(fb, l2.at(n2['lhs']), 0) or _is_param(fb, l2.at(n2['rhs']), 0))
                    if ok:
                        other = l2.at(n2['rhs']) if _is_param(fb, l2.at(n2['lhs']), 0) else l2.at(n2['lhs'])
                        a_, b_ = float_value(other.fn, origin(other.fn, other.nid), fb), float_value(Rr.fn, origin(Rr.fn, Rr.nid), fb)
                        ok = (a_, b_) == ((pi, 180.0) if name == 'deg_to_rad' else (180.0, pi))
                    if not ok:
                        R.broken('%s: shape of %s not understood' % (fn.full, fn.expr(r['sub'])))
                        msg = 'skip'
            if msg != 'skip':
                R.check(msg is None, 'K3-constants-agree', key, fn.site, '%s %s' % (name, msg), detail='factor == %s == %r exactly' % (text, want))


def all_rules(fb, R):
    clamp_dataflow(fb, R)
    conversion_guards(fb, R)
    constants(fb, R)
    tile_ctors(fb, R)
    tile_valid(fb, R)
    ctor_zoom_asserts(fb, R)
    conversion_factors(fb, R)


def run(ctx):
    R = ctx.R
    configs = ['ndebug14'] if ctx.tier == 'quick' else ['ndebug14', 'debug14', 'ndebug17', 'debug17']
    for cfg in configs:
        fb = ctx.facts(['geom'], cfg)
        all_rules(fb, R)
    if ctx.tier == 'quick':
        # the constructor assertions exist only where assertions are compiled in: one such configuration also in the quick tier
        ctor_zoom_asserts(ctx.facts(['geom'], 'debug14'), R)
    R.expect('K1-tile-result-clamped', 6)          # 2 x (result-clamped, scaled-offset) + num_tiles + tile_extent
    R.expect('K2-clamp-correct', 2)
    R.expect('K6-float-to-int-conversion-range-guarded', 2)
    R.expect('K3-constants-agree', 6)              # pi, radius, radius*pi == max, max latitude closes the square
    R.expect('K4-tile-ctor-uses-conversions', 4)   # 3 constructors + lonlat_to_mercator
    R.expect('K5-tile-valid-predicate', 2)
    R.expect('K7-ctor-zoom-assertion-agrees-with-valid', 3)   # the three constructors (configurations with assertions)


def _st(fb, R):
    all_rules(fb, R)


SELFTESTS = [(r, 'c18_tile.cpp', _st) for r in ('K1-tile-result-clamped', 'K2-clamp-correct', 'K6-float-to-int-conversion-range-guarded', 'K3-constants-agree',
                                                  'K4-tile-ctor-uses-conversions', 'K5-tile-valid-predicate', 'K7-ctor-zoom-assertion-agrees-with-valid')]
