"""C18 -- Web-Mercator projection and tile numbers: the in-range clause only (ORDERTYPE + constants, narrow).

Everything is decided from the fact base; no libosmium code is run.  Instances are keyed by what the property REQUIRES
(the function / constructor / constant), so a deleted construct is a violated instance.

 K1-tile-result-clamped    every return of mercx_to_tilex / mercy_to_tiley is  static_cast<uint32_t>(detail::clamp(v, 0, num_tiles_in_zoom(zoom) - 1))
        (value origin followed through casts and single-definition locals): lower bound is the constant 0, upper bound is
        num_tiles_in_zoom(<the zoom parameter>) minus the constant 1; v is the scaled offset
        (x + max_coordinate) / tile_extent_in_zoom(zoom)  resp.  (max_coordinate - y) / tile_extent_in_zoom(zoom)  -- tiles are
        numbered left to right and top to bottom -- of the coordinate parameter and the same zoom; num_tiles_in_zoom is
        1 << zoom and tile_extent_in_zoom is (2 * max_coordinate) / num_tiles_in_zoom(zoom).
 K2-clamp-correct          detail::clamp is comparison-only (proved by the ORDERTYPE compiler) and, for every one of the 13
        order types of (value, min, max), i.e. for all 2^96 argument triples with min <= max:  min <= r <= max, and
        r == value whenever min <= value <= max.
 K3-constants-agree        |earth_radius_for_epsg3857 * PI - max_coordinate_epsg3857| < 0.01 m evaluated from the literals;
        PI is pi to double precision; the radius is the WGS84 semi-major axis 6378137; MERCATOR_MAX_LAT projected with the
        canonical formula R*ln(tan(pi/4 + lat/2)) lies within half a 1e-7 degree step (6.5 cm in y) of max_coordinate, i.e. it is the
        representable latitude nearest to the edge of the square.
 K4-tile-ctor-uses-conversions   Tile(zoom, Location): x = mercx_to_tilex(zoom, c.x), y = mercy_to_tiley(zoom, c.y) with
        c = lonlat_to_mercator(location), z = zoom;  Tile(zoom, Coordinates): the same on the argument;  Tile(zoom, tx, ty)
        stores (tx, ty, zoom);  lonlat_to_mercator builds Coordinates{lon_to_x(c.x), lat_to_y(c.y)}.
 K5-tile-valid-predicate   Tile::valid() returns true exactly when z <= 30, x < num_tiles_in_zoom(z) and y < num_tiles_in_zoom(z)
        (ORDERTYPE over the order types of x, y, z, the tile count and the constant 30).

Not decided (numerical, left to other technique families -- DESIGN.md section 6): accuracy of the degree-10 rational
approximation in lat_to_y against the tangent formula, strict monotonicity of the projection and of the tile numbers, the
projection round trip, the double -> int32 conversion range at the poles / for non-finite input (static_cast<int32_t> of a
value outside the int32 range happens BEFORE the clamp and is not covered by it), containment of finer tiles in coarser ones.
"""
import math

from .. import ordertype as OT
from ..c17_util import float_value, param_index, peel, this_field, writes

EXPLANATION = (
    'Decided: every tile number returned by mercx_to_tilex / mercy_to_tiley is the result of detail::clamp(v, 0, num_tiles_in_zoom(zoom) - 1) '
    'with v the scaled offset of the coordinate argument in the orientation left-to-right / top-to-bottom; clamp is comparison-only and correct '
    'for every order type of its three arguments (all values); num_tiles_in_zoom = 1 << zoom, tile_extent = 2*max/num_tiles; the EPSG:3857 '
    'constants agree with each other to 0.01 m; the Tile constructors and lonlat_to_mercator route the right axis through the right function; '
    'Tile::valid is the exact range predicate. NOT decided: accuracy of the rational latitude approximation, monotonicity, round trip, '
    'double->int32 conversion outside the int32 range (poles, infinities, NaN), tile nesting across zoom levels.')
ASSUMPTIONS = ['LP64 data model, IEEE-754 binary64 (the constant arithmetic of the checker uses the same operations as the compiler)',
               'zoom <= 30 (Tile::max_zoom): 1U << zoom and the conversion of num_tiles - 1 to int32_t do not overflow']

KNOWN = []

NS = 'osmium::geom::'
CLAMP = NS + 'detail::clamp'
NUM_TILES = NS + 'num_tiles_in_zoom'
EXTENT = NS + 'tile_extent_in_zoom'
MAXC = NS + 'detail::max_coordinate_epsg3857'
RADIUS = NS + 'detail::earth_radius_for_epsg3857'
PI = NS + 'PI'
MAXLAT = NS + 'MERCATOR_MAX_LAT'
TILE = NS + 'Tile'
COORD = NS + 'Coordinates'


# ------------------------------------------------------------------------------------------------ interprocedural value origin
#
# A value is a Ref (fn, node id, ctx): ctx binds the parameters of fn to the Refs of the arguments it was called with.  The
# origin of a value is followed through casts, single-definition locals, parameters (into the caller's argument) and calls of
# functions of the fact base that consist of one return statement (an extracted helper is seen through, as if inlined).

LEAVES = (CLAMP, NUM_TILES, EXTENT, NS + 'detail::lon_to_x', NS + 'detail::lat_to_y', NS + 'lonlat_to_mercator', NS + 'mercx_to_tilex', NS + 'mercy_to_tiley')


class Ref:
    __slots__ = ('fn', 'nid', 'ctx', 'top')

    def __init__(self, fn, nid, ctx=None, top=None):
        self.fn, self.nid, self.ctx, self.top = fn, nid, ctx or {}, top if top is not None else fn

    def at(self, nid):
        return Ref(self.fn, nid, self.ctx, self.top)

    @property
    def node(self):
        return self.fn.nodes.get(self.nid)

    def expr(self):
        return self.fn.expr(self.nid)


def xorigin(fb, ref, depth=0):
    while ref is not None and depth < 40:
        depth += 1
        nid = origin(ref.fn, ref.nid)
        if nid is None:
            return None
        ref = ref.at(nid)
        n = ref.node
        if n.get('k') == 'var' and n.get('vk') == 'param' and n['d'] in ref.ctx:
            ref = ref.ctx[n['d']]
            continue
        if n.get('k') == 'call' and n.get('u') and n.get('q') not in LEAVES:
            cands = [g for g in fb.by_usr.get(n['u'], []) if g.has_cfg]
            if cands:
                g = cands[0]
                rets = _returns(g)
                if len(rets) == 1 and len(g.params) == len(n.get('args', [])) and not g.loops:
                    ctx = {p['d']: ref.at(a) for p, a in zip(g.params, n['args'])}
                    ref = Ref(g, rets[0]['sub'], ctx, ref.top)
                    continue
        return ref
    return ref


def origin(fn, nid, depth=0):
    from ..c17_util import origin as _o
    return _o(fn, nid, depth)


def _is_global(fb, ref, q):
    r = xorigin(fb, ref)
    return r is not None and r.node.get('k') == 'var' and r.node.get('q') == q


def _is_param(fb, ref, idx):
    """the value is parameter idx of the function the analysis started in"""
    r = xorigin(fb, ref)
    return r is not None and r.fn is r.top and not r.ctx and r.node.get('k') == 'var' and r.node.get('vk') == 'param' \
        and param_index(r.fn, r.node['d']) == idx


def _call_of(fb, ref, q):
    r = xorigin(fb, ref)
    if r is not None and r.node.get('k') == 'call' and r.node.get('q') == q:
        return r
    return None


def _const(fb, ref):
    r = xorigin(fb, ref)
    if r is None:
        return None
    return r.fn.const_value(r.nid)


def _returns(fn):
    return [n for n in fn.all_nodes() if n.get('k') == 'return' and 'sub' in n]


# ================================================================================================ K1

def clamp_dataflow(fb, R):
    for (name, axis) in (('mercx_to_tilex', 'x'), ('mercy_to_tiley', 'y')):
        q = NS + name
        fns = fb.fns(q)
        key = q + '#result-clamped'
        if not fns:
            R.bad('K1-tile-result-clamped', key, q, '%s not found' % q)
            R.bad('K1-tile-result-clamped', q + '#scaled-offset', q, '%s not found' % q)
            continue
        for fn in fns:
            if len(fn.params) != 2:
                R.broken('%s: expected (zoom, coordinate) parameters' % fn.full)
                continue
            rets = _returns(fn)
            if not rets:
                R.bad('K1-tile-result-clamped', key, fn.site, '%s has no return value' % name)
                continue
            # a conditional expression returns either operand
            vals = []
            for r in rets:
                stack = [Ref(fn, r['sub'])]
                while stack:
                    x = xorigin(fb, stack.pop())
                    if x is not None and x.node.get('k') == 'condop':
                        stack.extend([x.at(x.node['then']), x.at(x.node['else'])])
                    else:
                        vals.append((r, x))
            for (r, x) in vals:
                c = x if (x is not None and x.node.get('k') == 'call' and x.node.get('q') == CLAMP) else None
                if c is None or len(c.node.get('args', [])) != 3:
                    R.bad('K1-tile-result-clamped', key, fn.loc(r['id']),
                          '%s returns %s, which is not the result of detail::clamp: the tile number can leave [0, 2^zoom - 1]'
                          % (name, x.expr()[:80] if x is not None else '?'))
                    continue
                v, lo, hi = (c.at(a) for a in c.node['args'])
                msg = None
                if _const(fb, lo) != 0:
                    msg = 'the lower clamp bound is %s, required the constant 0' % lo.expr()
                else:
                    h = xorigin(fb, hi)
                    if _call_of(fb, hi, NUM_TILES) is not None:
                        msg = 'the upper clamp bound is num_tiles_in_zoom(zoom) itself: tile number 2^zoom is outside the range [0, 2^zoom - 1]'
                    elif h is not None and h.node.get('k') == 'binop' and h.node.get('op') in ('-', '+'):
                        nt = _call_of(fb, h.at(h.node['lhs']), NUM_TILES)
                        k = _const(fb, h.at(h.node['rhs']))
                        if nt is None or k is None:
                            R.broken('%s: upper clamp bound %s not understood' % (fn.full, hi.expr()))
                            continue
                        if h.node['op'] != '-' or k != 1:
                            msg = 'the upper clamp bound is num_tiles_in_zoom(zoom) %s %d, required num_tiles_in_zoom(zoom) - 1' % (h.node['op'], k)
                        elif len(nt.node.get('args', [])) != 1 or not _is_param(fb, nt.at(nt.node['args'][0]), 0):
                            msg = 'the upper clamp bound is not computed for the zoom parameter'
                    else:
                        R.broken('%s: upper clamp bound %s not understood' % (fn.full, hi.expr()))
                        continue
                R.check(msg is None, 'K1-tile-result-clamped', key, c.fn.loc(c.nid), '%s: %s' % (name, msg),
                        detail='return <- clamp(v, 0, num_tiles_in_zoom(zoom) - 1)')
                # ---- the clamped value: scaled offset in the right orientation
                k2 = q + '#scaled-offset'
                d = xorigin(fb, v)
                if d is None or d.node.get('k') != 'binop' or d.node.get('op') != '/':
                    R.broken('%s: clamped value %s is not a quotient offset / tile extent' % (fn.full, v.expr()[:80]))
                    continue
                ext = _call_of(fb, d.at(d.node['rhs']), EXTENT)
                off = xorigin(fb, d.at(d.node['lhs']))
                if ext is None or off is None or off.node.get('k') != 'binop' or off.node.get('op') not in ('+', '-'):
                    R.broken('%s: clamped value %s is not (offset) / tile_extent_in_zoom(zoom)' % (fn.full, v.expr()[:80]))
                    continue
                msg = None
                if len(ext.node.get('args', [])) != 1 or not _is_param(fb, ext.at(ext.node['args'][0]), 0):
                    msg = 'the tile extent is not taken for the zoom parameter'
                else:
                    L, Rr = off.at(off.node['lhs']), off.at(off.node['rhs'])
                    l_is_max, r_is_max = _is_global(fb, L, MAXC), _is_global(fb, Rr, MAXC)
                    l_is_p, r_is_p = _is_param(fb, L, 1), _is_param(fb, Rr, 1)
                    if not ((l_is_max and r_is_p) or (l_is_p and r_is_max)):
                        R.broken('%s: offset %s is not built from the coordinate parameter and max_coordinate_epsg3857' % (fn.full, off.expr()))
                        continue
                    if axis == 'x' and off.node['op'] != '+':
                        msg = 'x tiles are numbered from left to right: the offset must be x + max_coordinate, found %s' % off.expr()
                    elif axis == 'y' and not (off.node['op'] == '-' and l_is_max):
                        msg = 'y tiles are numbered from top to bottom: the offset must be max_coordinate - y, found %s' % off.expr()
                R.check(msg is None, 'K1-tile-result-clamped', k2, d.fn.loc(d.nid), '%s: %s' % (name, msg), detail=v.expr()[:100])
    # ---- num_tiles_in_zoom = 1 << zoom
    q = NUM_TILES
    fns = fb.fns(q)
    if not fns:
        R.bad('K1-tile-result-clamped', q + '#2^zoom', q, '%s not found' % q)
    for fn in fns:
        ok = bool(_returns(fn))
        for r in _returns(fn):
            b = xorigin(fb, Ref(fn, r['sub']))
            ok = ok and b is not None and b.node.get('k') == 'binop' and b.node.get('op') == '<<' and _const(fb, b.at(b.node['lhs'])) == 1 \
                and _is_param(fb, b.at(b.node['rhs']), 0) \
                and (b.fn.nodes.get(peel(b.fn, b.node['lhs']), {}).get('t') or '').startswith('unsigned')
        R.check(ok, 'K1-tile-result-clamped', q + '#2^zoom', fn.site, 'num_tiles_in_zoom must return 1U << zoom')
    # ---- tile_extent_in_zoom = 2 * max / num_tiles
    q = EXTENT
    fns = fb.fns(q)
    if not fns:
        R.bad('K1-tile-result-clamped', q + '#world-width/num-tiles', q, '%s not found' % q)
    g = fb.global_const(MAXC)
    maxc = float(g['cv']) if g is not None and 'cv' in g else None
    for fn in fns:
        ok = bool(_returns(fn)) and maxc is not None
        for r in _returns(fn):
            b = xorigin(fb, Ref(fn, r['sub']))
            if b is None or b.node.get('k') != 'binop' or b.node.get('op') != '/':
                ok = False
                continue
            nt = _call_of(fb, b.at(b.node['rhs']), NUM_TILES)
            wn = origin(b.fn, b.node['lhs'])
            w = float_value(b.fn, wn, fb) if wn is not None else None
            ok = ok and nt is not None and len(nt.node.get('args', [])) == 1 and _is_param(fb, nt.at(nt.node['args'][0]), 0) and w is not None \
                and maxc is not None and w == 2 * maxc and any(b.fn.nodes[x].get('q') == MAXC for x in b.fn.subtree(wn))
        R.check(ok, 'K1-tile-result-clamped', q + '#world-width/num-tiles', fn.site,
                'tile_extent_in_zoom must return (2 * max_coordinate_epsg3857) / num_tiles_in_zoom(zoom)')


# ================================================================================================ K2

class _MinMaxCompiler(OT._Compiler):
    """The ORDERTYPE compiler plus the two comparison-only standard functions a clamp is commonly written with:
    std::min(a, b) is `b < a ? b : a`, std::max(a, b) is `a < b ? b : a` (their definition in [alg.min.max])."""

    def call(self, nid, n):
        q = n.get('q')
        args = [a for a in n.get('args', []) if a is not None]
        if q in ('std::min', 'std::max') and len(args) == 2:
            a, b = self.expr(args[0]), self.expr(args[1])
            return ('ite', ('cmp', '<', b, a), b, a) if q == 'std::min' else ('ite', ('cmp', '<', a, b), b, a)
        return OT._Compiler.call(self, nid, n)


def clamp_correct(fb, R):
    fns = fb.fns(CLAMP)
    if not fns:
        R.bad('K2-clamp-correct', CLAMP + '#within-bounds', CLAMP, '%s not found' % CLAMP)
        R.bad('K2-clamp-correct', CLAMP + '#identity-inside', CLAMP, '%s not found' % CLAMP)
    for fn in fns:
        try:
            prog = _MinMaxCompiler(fb, fn, None, False, 0, {}).compile()
        except OT.Inexact as e:
            R.broken('%s is not comparison-only, the order-type decision does not apply: %s' % (CLAMP, e))
            continue
        names = [p[0] for p in prog.params]
        if len(names) != 3 or any(p[1] != 'i' for p in prog.params):
            R.broken('%s: expected three integer parameters (value, min, max)' % CLAMP)
            continue
        v, lo, hi = names
        nworlds = len(list(OT.program_worlds(prog)))

        def within(w, o):
            if not w.le(lo, hi):
                return True
            if o.kind != 'return' or o.value is None or o.value[0] != 'i':
                return 'clamp does not return a value'
            r = o.value[1]
            return True if (w.le(lo, r) and w.le(r, hi)) else 'result %s outside [min, max]' % (r,)

        def identity(w, o):
            if not w.le(lo, hi) or not (w.le(lo, v) and w.le(v, hi)):
                return True
            if o.kind != 'return' or o.value is None or o.value[0] != 'i':
                return 'clamp does not return a value'
            return True if w.eq(o.value[1], v) else 'a value already inside [min, max] is changed (result %s)' % (o.value[1],)
        for (key, pred, text) in ((CLAMP + '#within-bounds', within, 'min <= clamp(value, min, max) <= max'),
                                  (CLAMP + '#identity-inside', identity, 'clamp(value, min, max) == value when min <= value <= max')):
            try:
                bad = OT.check_forall(prog, pred)
            except OT.Inexact as e:
                R.broken('%s: %s' % (CLAMP, e))
                continue
            R.check(not bad, 'K2-clamp-correct', key, fn.site, '%s does not hold: %s' % (text, '; '.join(str(b) for b in bad)),
                    detail='decided for all %d order types of (%s, %s, %s)' % (nworlds, v, lo, hi))


# ================================================================================================ K3

def constants(fb, R):
    vals = {}
    for q in (MAXC, RADIUS, PI, MAXLAT):
        g = fb.global_const(q)
        if g is None or 'cv' not in g:
            R.bad('K3-constants-agree', q + '#defined', q, 'constant %s not found' % q)
            continue
        try:
            vals[q] = float(g['cv'])
        except ValueError:
            R.broken('constant %s has the unparsable value %r' % (q, g['cv']))
    site = lambda q: '%s:%s' % (fb.global_const(q)['file'], fb.global_const(q).get('l', 0))
    if PI in vals:
        R.check(abs(vals[PI] - math.pi) < 1e-15, 'K3-constants-agree', PI + '#is-pi', site(PI), 'osmium::geom::PI = %r is not pi (%r)' % (vals[PI], math.pi))
    if RADIUS in vals:
        R.check(vals[RADIUS] == 6378137.0, 'K3-constants-agree', RADIUS + '#wgs84-semi-major-axis', site(RADIUS),
                'earth_radius_for_epsg3857 = %r, EPSG:3857 uses the WGS84 semi-major axis 6378137 m' % vals[RADIUS])
    if RADIUS in vals and PI in vals and MAXC in vals:
        d = abs(vals[RADIUS] * vals[PI] - vals[MAXC])
        R.check(d < 0.01, 'K3-constants-agree', MAXC + '#equals-radius*pi', site(MAXC),
                'max_coordinate_epsg3857 = %r differs from earth_radius * PI = %r by %.4f m (>= 0.01 m): lon_to_x(+-180) and the tile grid disagree'
                % (vals[MAXC], vals[RADIUS] * vals[PI], d), detail='|R*pi - max| = %.6f m' % d)
    if RADIUS in vals and MAXLAT in vals and MAXC in vals:
        lat = vals[MAXLAT]
        ok = 0 < lat < 90
        y = vals[RADIUS] * math.log(math.tan(math.pi / 4 + math.radians(lat) / 2)) if ok else float('nan')
        # the constant is given in the fixed-point resolution of osmium::Location (1e-7 degree): it must be the representable latitude
        # nearest to the edge of the square, i.e. within half a resolution step (times dy/dlat = R / cos(lat)) of max_coordinate
        tol = (0.5e-7 * math.pi / 180.0) * vals[RADIUS] / math.cos(math.radians(lat)) + 0.01 if ok else 0.0
        R.check(ok and abs(y - vals[MAXC]) <= tol, 'K3-constants-agree', MAXLAT + '#projects-to-max-coordinate', site(MAXLAT),
                'MERCATOR_MAX_LAT = %r projects to y = %.4f, max_coordinate_epsg3857 is %r (allowed distance: half a 1e-7 degree step = %.4f m): '
                'the projected square is not closed' % (lat, y, vals[MAXC], tol),
                detail='R*ln(tan(pi/4 + lat/2)) = %.6f, |y - max| = %.4f m <= %.4f m' % (y, abs(y - vals[MAXC]), tol))


# ================================================================================================ K4

def _field_sources(fb, fn, ctx=None, top=None, depth=0):
    """{field name: [Ref of the value stored]} for ctor initialisers and plain assignments to this-members; a delegating
    constructor contributes the stores of its target with the arguments bound."""
    out = {}
    top = top or fn
    for n in fn.all_nodes():
        if n.get('k') == 'init' and isinstance(n.get('init'), int):
            if 'name' in n:
                out.setdefault(n['name'], []).append(Ref(fn, n['init'], ctx, top))
            else:
                c = fn.nodes.get(peel(fn, n['init']), {})
                if c.get('k') == 'construct' and c.get('q') == TILE + '::(ctor)' and depth < 3:
                    cands = [g for g in fb.by_usr.get(c.get('u'), []) if g.has_cfg]
                    if cands and len(cands[0].params) == len(c.get('args', [])):
                        g = cands[0]
                        sub = {p['d']: Ref(fn, a, ctx, top) for p, a in zip(g.params, c['args'])}
                        for f, refs in _field_sources(fb, g, sub, top, depth + 1).items():
                            out.setdefault(f, []).extend(refs)
    for (n, key, kind, rhs) in writes(fn):
        if key[0] == 'field':
            out.setdefault(key[1], []).append(Ref(fn, rhs, ctx, top) if kind in ('assign', 'opassign') and rhs is not None else None)
    return out


def _member_of(fb, ref, name):
    """Ref of the base if the origin of the value is `<base>.name`."""
    r = xorigin(fb, ref)
    if r is not None and r.node.get('k') == 'member' and r.node.get('name') == name and r.node.get('field'):
        return r.at(r.node['base'])
    return None


def tile_ctors(fb, R):
    q = TILE + '::(ctor)'
    rec = fb.record(TILE)
    if rec is None or len(rec.fields) < 3:
        R.broken('record %s with fields x, y, z not found' % TILE)
        return
    crec = fb.record(COORD)
    cx, cy = (crec.fields[0]['name'], crec.fields[1]['name']) if crec is not None and len(crec.fields) >= 2 else ('x', 'y')
    fx, fy, fz = 'x', 'y', 'z'
    seen = set()
    for fn in fb.fns(q):
        ps = fn.params
        src = _field_sources(fb, fn)
        if len(ps) == 3:
            seen.add('xyz')
            ok = all(len(src.get(f, [])) == 1 and src[f][0] is not None for f in (fx, fy, fz)) and _is_param(fb, src[fx][0], 1) \
                and _is_param(fb, src[fy][0], 2) and _is_param(fb, src[fz][0], 0)
            R.check(ok, 'K4-tile-ctor-uses-conversions', q + '#from-xyz', fn.site, 'Tile(zoom, tx, ty) must store x = tx, y = ty, z = zoom')
            continue
        if len(ps) != 2:
            continue
        from_loc = 'Location' in ps[1]['tC']
        from_coord = COORD in ps[1]['tC']
        if not (from_loc or from_coord):
            continue
        tag = 'from-Location' if from_loc else 'from-Coordinates'
        seen.add(tag)
        msg = None
        if not all(len(src.get(f, [])) == 1 and src[f][0] is not None for f in (fx, fy, fz)):
            msg = 'x, y and z must each be set exactly once (found %s)' % {f: len(src.get(f, [])) for f in (fx, fy, fz)}
        elif not _is_param(fb, src[fz][0], 0):
            msg = 'z is not the zoom parameter'
        else:
            bases = []
            for (f, conv, member) in ((fx, NS + 'mercx_to_tilex', cx), (fy, NS + 'mercy_to_tiley', cy)):
                c = _call_of(fb, src[f][0], conv)
                if c is None:
                    msg = '%s is not computed by %s (found %s)' % (f, conv.rsplit('::', 1)[-1], src[f][0].expr()[:70])
                    break
                a = c.node.get('args', [])
                if len(a) != 2 or not _is_param(fb, c.at(a[0]), 0):
                    msg = '%s is computed for another zoom than the parameter' % f
                    break
                b = _member_of(fb, c.at(a[1]), member)
                if b is None:
                    msg = '%s is computed from %s, required the %s member of the mercator coordinates' % (f, c.at(a[1]).expr(), member)
                    break
                bases.append(b)
            if msg is None:
                if from_coord:
                    if not all(_is_param(fb, b, 1) for b in bases):
                        msg = 'the coordinates used are not the constructor argument'
                else:
                    for b in bases:
                        c = _call_of(fb, b, NS + 'lonlat_to_mercator')
                        if c is None:
                            msg = 'the location is not converted with lonlat_to_mercator (found %s)' % b.expr()[:70]
                            break
                        a = xorigin(fb, c.at(c.node['args'][0])) if c.node.get('args') else None
                        # implicit Coordinates(Location) conversion of the parameter
                        if a is not None and a.node.get('k') == 'construct' and a.node.get('q') == COORD + '::(ctor)' and len(a.node.get('args', [])) == 1:
                            a = a.at(a.node['args'][0])
                        if a is None or not _is_param(fb, a, 1):
                            msg = 'lonlat_to_mercator is not applied to the location argument'
                            break
        R.check(msg is None, 'K4-tile-ctor-uses-conversions', '%s#%s' % (q, tag), fn.site, 'Tile(zoom, %s): %s' % ('Location' if from_loc else 'Coordinates', msg))
    for tag in ('xyz', 'from-Location', 'from-Coordinates'):
        if tag not in seen:
            R.bad('K4-tile-ctor-uses-conversions', '%s#%s' % (q, 'from-xyz' if tag == 'xyz' else tag), '%s:%d' % (rec.file, rec.line),
                  'constructor %s not found / not instantiated' % tag)
    # lonlat_to_mercator
    q2 = NS + 'lonlat_to_mercator'
    key = q2 + '#x<-lon_to_x(c.x),y<-lat_to_y(c.y)'
    fns = fb.fns(q2)
    if not fns:
        R.bad('K4-tile-ctor-uses-conversions', key, q2, '%s not found' % q2)
    for fn in fns:
        msg = None
        rets = _returns(fn)
        if not rets:
            msg = 'no return'
        for r in rets:
            c = xorigin(fb, Ref(fn, r['sub']))
            while c is not None and c.node.get('k') == 'construct' and c.node.get('q') == COORD + '::(ctor)' and len(c.node.get('args', [])) == 1:
                c = xorigin(fb, c.at(c.node['args'][0]))
            if c is None or c.node.get('k') != 'construct' or c.node.get('q') != COORD + '::(ctor)' or len(c.node.get('args', [])) != 2:
                msg = 'does not return Coordinates{x, y}'
                break
            for (a, conv, member) in ((c.node['args'][0], NS + 'detail::lon_to_x', cx), (c.node['args'][1], NS + 'detail::lat_to_y', cy)):
                k = _call_of(fb, c.at(a), conv)
                if k is None or len(k.node.get('args', [])) != 1:
                    msg = '%s must be computed by %s' % ('x' if member == cx else 'y', conv.rsplit('::', 1)[-1])
                    break
                b = _member_of(fb, k.at(k.node['args'][0]), member)
                if b is None or not _is_param(fb, b, 0):
                    msg = '%s must be applied to c.%s' % (conv.rsplit('::', 1)[-1], member)
                    break
        R.check(msg is None, 'K4-tile-ctor-uses-conversions', key, fn.site, 'lonlat_to_mercator: %s' % msg)


# ================================================================================================ K5

def tile_valid(fb, R):
    q = TILE + '::valid'
    key = q + '#range-predicate'
    fns = fb.fns(q)
    if not fns:
        R.bad('K5-tile-valid-predicate', key, q, '%s not found' % q)
    for fn in fns:
        def atoms(f, n):
            if n.get('k') == 'call' and n.get('q') == NUM_TILES and len(n.get('args', [])) == 1 and this_field(f, n['args'][0]) == 'z':
                return ('ntiles', OT.UINT32)
            return None
        try:
            prog = OT.compile_function(fb, fn, atoms)
        except OT.Inexact as e:
            R.broken('%s is not comparison-only: %s' % (q, e))
            continue
        need = {'this.x', 'this.y', 'this.z', 'ntiles'}
        ints, bools, consts = prog.symbols()
        if set(ints) != need:
            R.check(False, 'K5-tile-valid-predicate', key, fn.site,
                    'valid() must test x, y, z and num_tiles_in_zoom(z); it depends on %s' % sorted(ints))
            continue
        bad = None
        n = 0
        try:
            for w in OT.program_worlds(prog, extra_consts=(30, 31)):
                n += 1
                got = OT.run(prog, w).as_bool()
                want = w.le('this.z', 30) and w.lt('this.x', 'ntiles') and w.lt('this.y', 'ntiles')
                if got != want and bad is None:
                    bad = (w, got)
        except OT.Inexact as e:
            R.broken('%s: %s' % (q, e))
            continue
        R.check(bad is None, 'K5-tile-valid-predicate', key, fn.site,
                'valid() returns %s for %s; required: z <= 30 && x < 2^z && y < 2^z' % (bad[1] if bad else '', bad[0].witness() if bad else ''),
                detail='decided over %d order types of (x, y, z, num_tiles, 30)' % n)


def all_rules(fb, R):
    clamp_dataflow(fb, R)
    clamp_correct(fb, R)
    constants(fb, R)
    tile_ctors(fb, R)
    tile_valid(fb, R)


def run(ctx):
    R = ctx.R
    configs = ['ndebug14'] if ctx.tier == 'quick' else ['ndebug14', 'debug14', 'ndebug17', 'debug17']
    for cfg in configs:
        fb = ctx.facts(['geom'], cfg)
        all_rules(fb, R)
    R.expect('K1-tile-result-clamped', 6)          # 2 x (result-clamped, scaled-offset) + num_tiles + tile_extent
    R.expect('K2-clamp-correct', 2)
    R.expect('K3-constants-agree', 4)              # pi, radius, radius*pi == max, max latitude closes the square
    R.expect('K4-tile-ctor-uses-conversions', 4)   # 3 constructors + lonlat_to_mercator
    R.expect('K5-tile-valid-predicate', 1)


def _st(fb, R):
    all_rules(fb, R)


SELFTESTS = [(r, 'c18_tile.cpp', _st) for r in ('K1-tile-result-clamped', 'K2-clamp-correct', 'K3-constants-agree',
                                                  'K4-tile-ctor-uses-conversions', 'K5-tile-valid-predicate')]
