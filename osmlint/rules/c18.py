"""C18 -- Web-Mercator projection and tile numbers: the in-range clause only (ORDERTYPE + constants, narrow).

Everything is decided from the fact base; no libosmium code is run.  Instances are keyed by what the property REQUIRES
(the function / constructor / constant), so a deleted construct is a violated instance.

 K1-tile-result-clamped    every return of mercx_to_tilex / mercy_to_tiley is  static_cast<uint32_t>(detail::clamp(v, 0, num_tiles_in_zoom(zoom) - 1))
        (value origin followed through casts and single-definition locals): lower bound is the constant 0, upper bound is
        num_tiles_in_zoom(<the zoom parameter>) minus the constant 1; v is the scaled offset
        (x + max_coordinate) / tile_extent_in_zoom(zoom)  resp.  (max_coordinate - y) / tile_extent_in_zoom(zoom)  -- tiles are
        numbered left to right and top to bottom -- of the coordinate parameter and the same zoom; num_tiles_in_zoom is
        1 << zoom and tile_extent_in_zoom is (2 * max_coordinate) / num_tiles_in_zoom(zoom).
 K2-clamp-correct          detail::clamp is comparison-only (proved by the ORDERTYPE compiler) and, for every one of the 13
        order types of (value, min, max), i.e. for all 2^96 argument triples with min <= max:  min <= r <= max, and
        r == value whenever min <= value <= max.
 K3-constants-agree        |earth_radius_for_epsg3857 * PI - max_coordinate_epsg3857| < 0.01 m evaluated from the literals;
        PI is pi to double precision; the radius is the WGS84 semi-major axis 6378137; MERCATOR_MAX_LAT projected with the
        canonical formula R*ln(tan(pi/4 + lat/2)) lies within half a 1e-7 degree step (6.5 cm in y) of max_coordinate, i.e. it is the
        representable latitude nearest to the edge of the square.
 K4-tile-ctor-uses-conversions   Tile(zoom, Location): x = mercx_to_tilex(zoom, c.x), y = mercy_to_tiley(zoom, c.y) with
        c = lonlat_to_mercator(location), z = zoom;  Tile(zoom, Coordinates): the same on the argument;  Tile(zoom, tx, ty)
        stores (tx, ty, zoom);  lonlat_to_mercator builds Coordinates{lon_to_x(c.x), lat_to_y(c.y)}.
 K5-tile-valid-predicate   Tile::valid() returns true exactly when z <= 30, x < num_tiles_in_zoom(z) and y < num_tiles_in_zoom(z)
        (ORDERTYPE over the order types of x, y, z, the tile count and the constant 30).

Not decided (numerical, left to other technique families -- DESIGN.md section 6): accuracy of the degree-10 rational
approximation in lat_to_y against the tangent formula, strict monotonicity of the projection and of the tile numbers, the
projection round trip, the double -> int32 conversion range at the poles / for non-finite input (static_cast<int32_t> of a
value outside the int32 range happens BEFORE the clamp and is not covered by it), containment of finer tiles in coarser ones.
"""
import math

from .. import ordertype as OT
from ..c17_util import decl_of, float_value, param_index, peel, this_field, writes

EXPLANATION = (
    'Decided: every tile number returned by mercx_to_tilex / mercy_to_tiley is the result of detail::clamp(v, 0, num_tiles_in_zoom(zoom) - 1) '
    'with v the scaled offset of the coordinate argument in the orientation left-to-right / top-to-bottom; clamp is comparison-only and correct '
    'for every order type of its three arguments (all values); num_tiles_in_zoom = 1 << zoom, tile_extent = 2*max/num_tiles; the EPSG:3857 '
    'constants agree with each other to 0.01 m; the Tile constructors and lonlat_to_mercator route the right axis through the right function; '
    'Tile::valid is the exact range predicate. NOT decided: accuracy of the rational latitude approximation, monotonicity, round trip, '
    'double->int32 conversion outside the int32 range (poles, infinities, NaN), tile nesting across zoom levels.')
ASSUMPTIONS = ['LP64 data model, IEEE-754 binary64 (the constant arithmetic of the checker uses the same operations as the compiler)',
               'zoom <= 30 (Tile::max_zoom): 1U << zoom and the conversion of num_tiles - 1 to int32_t do not overflow']

KNOWN = []

NS = 'osmium::geom::'
CLAMP = NS + 'detail::clamp'
NUM_TILES = NS + 'num_tiles_in_zoom'
EXTENT = NS + 'tile_extent_in_zoom'
MAXC = NS + 'detail::max_coordinate_epsg3857'
RADIUS = NS + 'detail::earth_radius_for_epsg3857'
PI = NS + 'PI'
MAXLAT = NS + 'MERCATOR_MAX_LAT'
TILE = NS + 'Tile'
COORD = NS + 'Coordinates'


def origin(fn, nid, depth=0):
    """Follow a value through parentheses, implicit and explicit casts and locals that have exactly one definition
    (their initialiser) to the expression that computes it."""
    while nid is not None and nid in fn.nodes and depth < 32:
        depth += 1
        nid = peel(fn, nid)
        n = fn.nodes.get(nid)
        if n is None:
            return None
        if n.get('k') == 'cast' and 'sub' in n:
            nid = n['sub']
            continue
        if n.get('k') == 'var' and n.get('vk') == 'local':
            dn, dv = decl_of(fn, n['d'])
            if dv is not None and isinstance(dv.get('init'), int) and not any(w[1] == ('var', n['d']) for w in writes(fn)):
                nid = dv['init']
                continue
        return nid
    return nid


def on(fn, nid):
    x = origin(fn, nid)
    return fn.nodes.get(x) if x is not None else None


def _is_global(fn, nid, q):
    n = on(fn, nid)
    return n is not None and n.get('k') == 'var' and n.get('q') == q


def _is_param(fn, nid, idx):
    n = on(fn, nid)
    return n is not None and n.get('k') == 'var' and n.get('vk') == 'param' and param_index(fn, n['d']) == idx


def _call_of(fn, nid, q):
    n = on(fn, nid)
    if n is not None and n.get('k') == 'call' and n.get('q') == q:
        return n
    return None


def _returns(fn):
    return [n for n in fn.all_nodes() if n.get('k') == 'return' and 'sub' in n]


# ================================================================================================ K1

def clamp_dataflow(fb, R):
    for (name, axis) in (('mercx_to_tilex', 'x'), ('mercy_to_tiley', 'y')):
        q = NS + name
        fns = fb.fns(q)
        key = q + '#result-clamped'
        if not fns:
            R.bad('K1-tile-result-clamped', key, q, '%s not found' % q)
            R.bad('K1-tile-result-clamped', q + '#scaled-offset', q, '%s not found' % q)
            continue
        for fn in fns:
            if len(fn.params) != 2:
                R.broken('%s: expected (zoom, coordinate) parameters' % fn.full)
                continue
            rets = _returns(fn)
            if not rets:
                R.bad('K1-tile-result-clamped', key, fn.site, '%s has no return value' % name)
                continue
            for r in rets:
                c = _call_of(fn, r['sub'], CLAMP)
                if c is None or len(c.get('args', [])) != 3:
                    R.bad('K1-tile-result-clamped', key, fn.loc(r['id']),
                          '%s returns %s, which is not the result of detail::clamp: the tile number can leave [0, 2^zoom - 1]' % (name, fn.expr(r['sub'])[:80]))
                    continue
                v, lo, hi = c['args']
                msg = None
                if fn.const_value(lo) != 0:
                    msg = 'the lower clamp bound is %s, required the constant 0' % fn.expr(lo)
                else:
                    h = on(fn, hi)
                    if _call_of(fn, hi, NUM_TILES) is not None:
                        msg = 'the upper clamp bound is num_tiles_in_zoom(zoom) itself: tile number 2^zoom is outside the range [0, 2^zoom - 1]'
                    elif h is not None and h.get('k') == 'binop' and h.get('op') in ('-', '+'):
                        nt = _call_of(fn, h['lhs'], NUM_TILES)
                        k = fn.const_value(h['rhs'])
                        if nt is None or k is None:
                            R.broken('%s: upper clamp bound %s not understood' % (fn.full, fn.expr(hi)))
                            continue
                        if h['op'] != '-' or k != 1:
                            msg = 'the upper clamp bound is num_tiles_in_zoom(zoom) %s %d, required num_tiles_in_zoom(zoom) - 1' % (h['op'], k)
                        elif len(nt.get('args', [])) != 1 or not _is_param(fn, nt['args'][0], 0):
                            msg = 'the upper clamp bound is computed for %s, not for the zoom parameter' % fn.expr(nt['args'][0] if nt.get('args') else hi)
                    else:
                        R.broken('%s: upper clamp bound %s not understood' % (fn.full, fn.expr(hi)))
                        continue
                R.check(msg is None, 'K1-tile-result-clamped', key, fn.loc(c['id']), '%s: %s' % (name, msg),
                        detail='return <- clamp(v, 0, num_tiles_in_zoom(zoom) - 1)')
                # ---- the clamped value: scaled offset in the right orientation
                k2 = q + '#scaled-offset'
                d = on(fn, v)
                if d is None or d.get('k') != 'binop' or d.get('op') != '/':
                    R.broken('%s: clamped value %s is not a quotient offset / tile extent' % (fn.full, fn.expr(v)[:80]))
                    continue
                ext = _call_of(fn, d['rhs'], EXTENT)
                off = on(fn, d['lhs'])
                if ext is None or off is None or off.get('k') != 'binop' or off.get('op') not in ('+', '-'):
                    R.broken('%s: clamped value %s is not (offset) / tile_extent_in_zoom(zoom)' % (fn.full, fn.expr(v)[:80]))
                    continue
                msg = None
                if len(ext.get('args', [])) != 1 or not _is_param(fn, ext['args'][0], 0):
                    msg = 'the tile extent is taken for %s, not for the zoom parameter' % fn.expr(ext['args'][0] if ext.get('args') else d['rhs'])
                else:
                    l_is_max, r_is_max = _is_global(fn, off['lhs'], MAXC), _is_global(fn, off['rhs'], MAXC)
                    l_is_p, r_is_p = _is_param(fn, off['lhs'], 1), _is_param(fn, off['rhs'], 1)
                    if not ((l_is_max and r_is_p) or (l_is_p and r_is_max)):
                        R.broken('%s: offset %s is not built from the coordinate parameter and max_coordinate_epsg3857' % (fn.full, fn.expr(d['lhs'])))
                        continue
                    if axis == 'x' and off['op'] != '+':
                        msg = 'x tiles are numbered from left to right: the offset must be x + max_coordinate, found %s' % fn.expr(d['lhs'])
                    elif axis == 'y' and not (off['op'] == '-' and l_is_max):
                        msg = 'y tiles are numbered from top to bottom: the offset must be max_coordinate - y, found %s' % fn.expr(d['lhs'])
                R.check(msg is None, 'K1-tile-result-clamped', k2, fn.loc(d['id']), '%s: %s' % (name, msg), detail=fn.expr(v)[:100])
    # ---- num_tiles_in_zoom = 1 << zoom
    q = NUM_TILES
    fns = fb.fns(q)
    if not fns:
        R.bad('K1-tile-result-clamped', q + '#2^zoom', q, '%s not found' % q)
    for fn in fns:
        ok = bool(_returns(fn))
        for r in _returns(fn):
            b = on(fn, r['sub'])
            ok = ok and b is not None and b.get('k') == 'binop' and b.get('op') == '<<' and fn.const_value(b['lhs']) == 1 and _is_param(fn, b['rhs'], 0) \
                and (fn.nodes.get(peel(fn, b['lhs']), {}).get('t') or '').startswith('unsigned')
        R.check(ok, 'K1-tile-result-clamped', q + '#2^zoom', fn.site, 'num_tiles_in_zoom must return 1U << zoom')
    # ---- tile_extent_in_zoom = 2 * max / num_tiles
    q = EXTENT
    fns = fb.fns(q)
    if not fns:
        R.bad('K1-tile-result-clamped', q + '#world-width/num-tiles', q, '%s not found' % q)
    g = fb.global_const(MAXC)
    maxc = float(g['cv']) if g is not None and 'cv' in g else None
    for fn in fns:
        ok = bool(_returns(fn)) and maxc is not None
        for r in _returns(fn):
            b = on(fn, r['sub'])
            if b is None or b.get('k') != 'binop' or b.get('op') != '/':
                ok = False
                continue
            nt = _call_of(fn, b['rhs'], NUM_TILES)
            w = float_value(fn, b['lhs'], fb)
            ok = ok and nt is not None and len(nt.get('args', [])) == 1 and _is_param(fn, nt['args'][0], 0) and w is not None and maxc is not None \
                and w == 2 * maxc and any(fn.nodes[x].get('q') == MAXC for x in fn.subtree(b['lhs']))
        R.check(ok, 'K1-tile-result-clamped', q + '#world-width/num-tiles', fn.site,
                'tile_extent_in_zoom must return (2 * max_coordinate_epsg3857) / num_tiles_in_zoom(zoom)')


# ================================================================================================ K2

def clamp_correct(fb, R):
    fns = fb.fns(CLAMP)
    if not fns:
        R.bad('K2-clamp-correct', CLAMP + '#within-bounds', CLAMP, '%s not found' % CLAMP)
        R.bad('K2-clamp-correct', CLAMP + '#identity-inside', CLAMP, '%s not found' % CLAMP)
    for fn in fns:
        try:
            prog = OT.compile_function(fb, fn)
        except OT.Inexact as e:
            R.broken('%s is not comparison-only, the order-type decision does not apply: %s' % (CLAMP, e))
            continue
        names = [p[0] for p in prog.params]
        if len(names) != 3 or any(p[1] != 'i' for p in prog.params):
            R.broken('%s: expected three integer parameters (value, min, max)' % CLAMP)
            continue
        v, lo, hi = names
        nworlds = len(list(OT.program_worlds(prog)))

        def within(w, o):
            if not w.le(lo, hi):
                return True
            if o.kind != 'return' or o.value is None or o.value[0] != 'i':
                return 'clamp does not return a value'
            r = o.value[1]
            return True if (w.le(lo, r) and w.le(r, hi)) else 'result %s outside [min, max]' % (r,)

        def identity(w, o):
            if not w.le(lo, hi) or not (w.le(lo, v) and w.le(v, hi)):
                return True
            if o.kind != 'return' or o.value is None or o.value[0] != 'i':
                return 'clamp does not return a value'
            return True if w.eq(o.value[1], v) else 'a value already inside [min, max] is changed (result %s)' % (o.value[1],)
        for (key, pred, text) in ((CLAMP + '#within-bounds', within, 'min <= clamp(value, min, max) <= max'),
                                  (CLAMP + '#identity-inside', identity, 'clamp(value, min, max) == value when min <= value <= max')):
            try:
                bad = OT.check_forall(prog, pred)
            except OT.Inexact as e:
                R.broken('%s: %s' % (CLAMP, e))
                continue
            R.check(not bad, 'K2-clamp-correct', key, fn.site, '%s does not hold: %s' % (text, '; '.join(str(b) for b in bad)),
                    detail='decided for all %d order types of (%s, %s, %s)' % (nworlds, v, lo, hi))


# ================================================================================================ K3

def constants(fb, R):
    vals = {}
    for q in (MAXC, RADIUS, PI, MAXLAT):
        g = fb.global_const(q)
        if g is None or 'cv' not in g:
            R.bad('K3-constants-agree', q + '#defined', q, 'constant %s not found' % q)
            continue
        try:
            vals[q] = float(g['cv'])
        except ValueError:
            R.broken('constant %s has the unparsable value %r' % (q, g['cv']))
    site = lambda q: '%s:%s' % (fb.global_const(q)['file'], fb.global_const(q).get('l', 0))
    if PI in vals:
        R.check(abs(vals[PI] - math.pi) < 1e-15, 'K3-constants-agree', PI + '#is-pi', site(PI), 'osmium::geom::PI = %r is not pi (%r)' % (vals[PI], math.pi))
    if RADIUS in vals:
        R.check(vals[RADIUS] == 6378137.0, 'K3-constants-agree', RADIUS + '#wgs84-semi-major-axis', site(RADIUS),
                'earth_radius_for_epsg3857 = %r, EPSG:3857 uses the WGS84 semi-major axis 6378137 m' % vals[RADIUS])
    if RADIUS in vals and PI in vals and MAXC in vals:
        d = abs(vals[RADIUS] * vals[PI] - vals[MAXC])
        R.check(d < 0.01, 'K3-constants-agree', MAXC + '#equals-radius*pi', site(MAXC),
                'max_coordinate_epsg3857 = %r differs from earth_radius * PI = %r by %.4f m (>= 0.01 m): lon_to_x(+-180) and the tile grid disagree'
                % (vals[MAXC], vals[RADIUS] * vals[PI], d), detail='|R*pi - max| = %.6f m' % d)
    if RADIUS in vals and MAXLAT in vals and MAXC in vals:
        lat = vals[MAXLAT]
        ok = 0 < lat < 90
        y = vals[RADIUS] * math.log(math.tan(math.pi / 4 + math.radians(lat) / 2)) if ok else float('nan')
        # the constant is given in the fixed-point resolution of osmium::Location (1e-7 degree): it must be the representable latitude
        # nearest to the edge of the square, i.e. within half a resolution step (times dy/dlat = R / cos(lat)) of max_coordinate
        tol = (0.5e-7 * math.pi / 180.0) * vals[RADIUS] / math.cos(math.radians(lat)) + 0.01 if ok else 0.0
        R.check(ok and abs(y - vals[MAXC]) <= tol, 'K3-constants-agree', MAXLAT + '#projects-to-max-coordinate', site(MAXLAT),
                'MERCATOR_MAX_LAT = %r projects to y = %.4f, max_coordinate_epsg3857 is %r (allowed distance: half a 1e-7 degree step = %.4f m): '
                'the projected square is not closed' % (lat, y, vals[MAXC], tol),
                detail='R*ln(tan(pi/4 + lat/2)) = %.6f, |y - max| = %.4f m <= %.4f m' % (y, abs(y - vals[MAXC]), tol))


# ================================================================================================ K4

def _field_sources(fn):
    """{field name: [rhs node id]} for ctor initialisers and plain assignments to this-members."""
    out = {}
    for n in fn.all_nodes():
        if n.get('k') == 'init' and 'name' in n and isinstance(n.get('init'), int):
            out.setdefault(n['name'], []).append(n['init'])
    for (n, key, kind, rhs) in writes(fn):
        if key[0] == 'field':
            out.setdefault(key[1], []).append(rhs if kind in ('assign', 'opassign') else None)
    return out


def _member_of(fn, nid, name):
    """(base node id) if origin of nid is `<base>.name`."""
    n = on(fn, nid)
    if n is not None and n.get('k') == 'member' and n.get('name') == name and n.get('field'):
        return n['base']
    return None


def tile_ctors(fb, R):
    q = TILE + '::(ctor)'
    rec = fb.record(TILE)
    if rec is None or len(rec.fields) < 3:
        R.broken('record %s with fields x, y, z not found' % TILE)
        return
    crec = fb.record(COORD)
    cx, cy = (crec.fields[0]['name'], crec.fields[1]['name']) if crec is not None and len(crec.fields) >= 2 else ('x', 'y')
    fx, fy, fz = 'x', 'y', 'z'
    seen = set()
    for fn in fb.fns(q):
        ps = fn.params
        src = _field_sources(fn)
        if len(ps) == 3:
            seen.add('xyz')
            ok = all(len(src.get(f, [])) == 1 for f in (fx, fy, fz)) and _is_param(fn, src[fx][0], 1) and _is_param(fn, src[fy][0], 2) \
                and _is_param(fn, src[fz][0], 0)
            R.check(ok, 'K4-tile-ctor-uses-conversions', q + '#from-xyz', fn.site, 'Tile(zoom, tx, ty) must store x = tx, y = ty, z = zoom')
            continue
        if len(ps) != 2:
            continue
        from_loc = 'Location' in ps[1]['tC']
        from_coord = COORD in ps[1]['tC']
        if not (from_loc or from_coord):
            continue
        tag = 'from-Location' if from_loc else 'from-Coordinates'
        seen.add(tag)
        msg = None
        if not all(len(src.get(f, [])) == 1 and src[f][0] is not None for f in (fx, fy, fz)):
            msg = 'x, y and z must each be set exactly once (found %s)' % {f: len(src.get(f, [])) for f in (fx, fy, fz)}
        elif not _is_param(fn, src[fz][0], 0):
            msg = 'z is not the zoom parameter'
        else:
            bases = []
            for (f, conv, member) in ((fx, NS + 'mercx_to_tilex', cx), (fy, NS + 'mercy_to_tiley', cy)):
                c = _call_of(fn, src[f][0], conv)
                if c is None:
                    msg = '%s is not computed by %s (found %s)' % (f, conv.rsplit('::', 1)[-1], fn.expr(src[f][0])[:70])
                    break
                a = c.get('args', [])
                if len(a) != 2 or not _is_param(fn, a[0], 0):
                    msg = '%s is computed for another zoom than the parameter' % f
                    break
                b = _member_of(fn, a[1], member)
                if b is None:
                    msg = '%s is computed from %s, required the %s member of the mercator coordinates' % (f, fn.expr(a[1]), member)
                    break
                bases.append(b)
            if msg is None:
                if from_coord:
                    if not all(_is_param(fn, b, 1) for b in bases):
                        msg = 'the coordinates used are not the constructor argument'
                else:
                    for b in bases:
                        c = _call_of(fn, b, NS + 'lonlat_to_mercator')
                        if c is None:
                            msg = 'the location is not converted with lonlat_to_mercator (found %s)' % fn.expr(b)[:70]
                            break
                        a = on(fn, c['args'][0]) if c.get('args') else None
                        # implicit Coordinates(Location) conversion of the parameter
                        if a is not None and a.get('k') == 'construct' and a.get('q') == COORD + '::(ctor)' and len(a.get('args', [])) == 1:
                            a = on(fn, a['args'][0])
                        if a is None or a.get('k') != 'var' or param_index(fn, a.get('d')) != 1:
                            msg = 'lonlat_to_mercator is not applied to the location argument'
                            break
        R.check(msg is None, 'K4-tile-ctor-uses-conversions', '%s#%s' % (q, tag), fn.site, 'Tile(zoom, %s): %s' % ('Location' if from_loc else 'Coordinates', msg))
    for tag in ('xyz', 'from-Location', 'from-Coordinates'):
        if tag not in seen:
            R.bad('K4-tile-ctor-uses-conversions', '%s#%s' % (q, 'from-xyz' if tag == 'xyz' else tag), '%s:%d' % (rec.file, rec.line),
                  'constructor %s not found / not instantiated' % tag)
    # lonlat_to_mercator
    q2 = NS + 'lonlat_to_mercator'
    key = q2 + '#x<-lon_to_x(c.x),y<-lat_to_y(c.y)'
    fns = fb.fns(q2)
    if not fns:
        R.bad('K4-tile-ctor-uses-conversions', key, q2, '%s not found' % q2)
    for fn in fns:
        msg = None
        rets = _returns(fn)
        if not rets:
            msg = 'no return'
        for r in rets:
            c = on(fn, r['sub'])
            while c is not None and c.get('k') == 'construct' and c.get('q') == COORD + '::(ctor)' and len(c.get('args', [])) == 1:
                c = on(fn, c['args'][0])
            if c is None or c.get('k') != 'construct' or c.get('q') != COORD + '::(ctor)' or len(c.get('args', [])) != 2:
                msg = 'does not return Coordinates{x, y}'
                break
            for (a, conv, member) in ((c['args'][0], NS + 'detail::lon_to_x', cx), (c['args'][1], NS + 'detail::lat_to_y', cy)):
                k = _call_of(fn, a, conv)
                if k is None or len(k.get('args', [])) != 1:
                    msg = '%s must be computed by %s' % ('x' if member == cx else 'y', conv.rsplit('::', 1)[-1])
                    break
                b = _member_of(fn, k['args'][0], member)
                if b is None or not _is_param(fn, b, 0):
                    msg = '%s must be applied to c.%s' % (conv.rsplit('::', 1)[-1], member)
                    break
        R.check(msg is None, 'K4-tile-ctor-uses-conversions', key, fn.site, 'lonlat_to_mercator: %s' % msg)


# ================================================================================================ K5

def tile_valid(fb, R):
    q = TILE + '::valid'
    key = q + '#range-predicate'
    fns = fb.fns(q)
    if not fns:
        R.bad('K5-tile-valid-predicate', key, q, '%s not found' % q)
    for fn in fns:
        def atoms(f, n):
            if n.get('k') == 'call' and n.get('q') == NUM_TILES and len(n.get('args', [])) == 1 and this_field(f, n['args'][0]) == 'z':
                return ('ntiles', OT.UINT32)
            return None
        try:
            prog = OT.compile_function(fb, fn, atoms)
        except OT.Inexact as e:
            R.broken('%s is not comparison-only: %s' % (q, e))
            continue
        need = {'this.x', 'this.y', 'this.z', 'ntiles'}
        ints, bools, consts = prog.symbols()
        if set(ints) != need:
            R.check(False, 'K5-tile-valid-predicate', key, fn.site,
                    'valid() must test x, y, z and num_tiles_in_zoom(z); it depends on %s' % sorted(ints))
            continue
        bad = None
        n = 0
        try:
            for w in OT.program_worlds(prog, extra_consts=(30, 31)):
                n += 1
                got = OT.run(prog, w).as_bool()
                want = w.le('this.z', 30) and w.lt('this.x', 'ntiles') and w.lt('this.y', 'ntiles')
                if got != want and bad is None:
                    bad = (w, got)
        except OT.Inexact as e:
            R.broken('%s: %s' % (q, e))
            continue
        R.check(bad is None, 'K5-tile-valid-predicate', key, fn.site,
                'valid() returns %s for %s; required: z <= 30 && x < 2^z && y < 2^z' % (bad[1] if bad else '', bad[0].witness() if bad else ''),
                detail='decided over %d order types of (x, y, z, num_tiles, 30)' % n)


def all_rules(fb, R):
    clamp_dataflow(fb, R)
    clamp_correct(fb, R)
    constants(fb, R)
    tile_ctors(fb, R)
    tile_valid(fb, R)


def run(ctx):
    R = ctx.R
    configs = ['ndebug14'] if ctx.tier == 'quick' else ['ndebug14', 'debug14', 'ndebug17', 'debug17']
    for cfg in configs:
        fb = ctx.facts(['geom'], cfg)
        all_rules(fb, R)
    R.expect('K1-tile-result-clamped', 6)          # 2 x (result-clamped, scaled-offset) + num_tiles + tile_extent
    R.expect('K2-clamp-correct', 2)
    R.expect('K3-constants-agree', 4)              # pi, radius, radius*pi == max, max latitude closes the square
    R.expect('K4-tile-ctor-uses-conversions', 4)   # 3 constructors + lonlat_to_mercator
    R.expect('K5-tile-valid-predicate', 1)


def _st(fb, R):
    all_rules(fb, R)


SELFTESTS = [(r, 'c18_tile.cpp', _st) for r in ('K1-tile-result-clamped', 'K2-clamp-correct', 'K3-constants-agree',
                                                  'K4-tile-ctor-uses-conversions', 'K5-tile-valid-predicate')]
