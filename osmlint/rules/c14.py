"""C14 -- text-format string escaping is injective and exactly undone by the parsers (CHARSET + CODEC + GUARD).

Everything is decided from the fact base (expression trees, CFG, resolved callees); no libosmium code is run.

OPL writer (append_utf8_encoded_string) against the OPL reader (opl_parse_string / opl_parse_escaped ...):
 O1-passthrough-disjoint-delims  the exact pass-through set P (code points copied verbatim; interval evaluation of the
        guards of the verbatim append over 0..0x10FFFF) lies inside the set of bytes the reader copies verbatim, and is
        disjoint from every delimiter set extracted from the reader itself: characters opl_parse_string does not copy
        (stop characters, escape introducer, NUL), constants handed to opl_parse_char next to strings, the section
        terminators of opl_non_empty / opl_parse_space, the line splitter's find_first_of literal.
 O2-escape-frame        every non-pass-through code point is written as <introducer> <one hex emitter call> <terminator>;
        the introducer is the only byte for which the reader enters opl_parse_escaped and the terminator the only byte
        for which it finishes an escape; every code point is either passed or escaped (partition).
 O3-hex-alphabet        the digit alphabet handed to the emitters has 16 entries, entry i is a byte the reader's digit
        classifier accepts with value i, and no alphabet / frame byte is a section or line delimiter.
 O4-hex-digits-positional  each emitter writes the hex numeral of its argument for every value that can reach it:
        nibbles in strictly descending order, a nibble (of any position a reaching value can occupy) is dropped only
        when it is zero, a lower nibble is never dropped while a higher one is written, at least one digit.
 O5-hex-length-within-reader-limit  the longest numeral a writer call site can produce fits the reader's digit limit.
 O8-escaped-value-is-codepoint  the value handed to every hex formatter (or used by inline digit writes) is the decoded code point:
        the variable initialised from next_utf8_codepoint, or a term that is bit-for-bit the identity on the reaching set; anything
        not computed from it (a raw input byte, a cast of *prev) is a violation.
 O6-passthrough-verbatim   the verbatim branch appends exactly the bytes [cursor before decode, cursor after decode).
 O7-opl-strings-escaped    every const char* accessor of an OSM object used by OPLOutputBlock flows into the escaper.
OPL reader:
 R1-unescape-accumulates-hex  value starts at 0, is shifted by the nibble width before each digit is added, and the
        finished value goes to append_codepoint_as_utf8 into the result string.
 R3-verbatim-copy-excludes-structural  cursor typestate of opl_parse_string: the bytes that can reach the literal copy (dataflow of
        the tests since the cursor last changed by an increment / a call taking its address) contain neither the escape introducer,
        nor a frame byte of the writer, nor a separator opl_parse_char expects right after a string, nor a section delimiter, nor NUL.
 R4-unescape-accepts-scalar-values  accept set of opl_parse_escaped (interval evaluation of every guard in front of the append of the
        decoded value, over 0..2^32-1) contains every scalar value the writer escapes, and whatever is refused is a surrogate or lies
        above U+10FFFF.
 E1-escaper-exceptions-reach-caller  no function from which the decoder's throw (cut-off / invalid UTF-8) is reachable through
        resolved calls is noexcept, unless the call sits in a try whose handlers cover the thrown types.
 R2-utf8-encoder-table  append_codepoint_as_utf8: range thresholds and every emitted byte (bit-slice evaluation) equal
        the UTF-8 encoding table.
XML writer:
 X1-xml-entity-table    append_xml_encoded_string: for each of & < > " ' \\n \\r \\t exactly one well-formed reference denoting that
        character is appended in the iteration that processes it, every other byte is copied exactly once.  Decided on the
        byte sets of the writes (dataflow), so a switch, an if/else-if chain, a named copy of the byte (`const char c = *data;`,
        `*data++`), early continue, or a `const char* entity_for(char)` lookup helper are all the same to it.
 X2-xml-strings-escaped every object string (const char* accessor of an OSM data class, also when first bound to a local) and every
        header option written by the XML output classes goes through append_xml_encoded_string, or is a local that is only
        written when it equals a markup-free literal.
 X3-xml-text-chunks-appended  XMLParser::characters appends each expat character-data chunk (never assigns).
        (X1 also covers bulk fast paths: `out.append(data)` guarded by a strpbrk scan passes every byte outside the scan's literal
        set, which therefore has to contain every character the per-character table replaces.)
Bounded reads:
 N1-cursor-advance-guarded  in opl_parse_string, opl_parse_escaped and append_xml_encoded_string the cursor is advanced
        only when the byte under it is known to be non-NUL (guard set excludes 0, no other advance in between).
 N2-utf8-decode-bounded (G9) next_utf8_codepoint: length==0 throws, distance(it,end) < length throws, both before the
        switch; case n advances n-1 times before its last read; exactly one more advance afterwards.
 N3-utf8-length-table   utf8_sequence_length partitions the first byte exactly like the UTF-8 lead byte table.
 N4-end-is-strlen       the end pointer given to next_utf8_codepoint is data + strlen(data) of the same string.
 U2-utf8-decode-assembly  each case of next_utf8_codepoint assembles exactly the payload bits of its bytes.

Form independence: reader / XML byte sets come from a forward dataflow that follows named copies of the byte under the cursor,
switch and if-chains alike, and summarises small pure helpers (`bool is_x(char)`, `const char* f(char)`) as if inlined; code point
guards follow named boolean locals and `bool helper(uint32_t)` predicates; digit emitters may be helpers, written inline in the
escaper, or counted loops (unrolled over their constant counter values).

All clauses of DESIGN.md section 5/C14 are implemented; none was dropped.  Byte sets of the reader are computed by a forward
dataflow over the CFG (c14_util.byte_states: exact truth sets of the tests on every path since the cursor last moved, union at
joins), code point sets by interval arithmetic (charset.Pred), bit assemblies by bit-slice evaluation (charset.Bits).

Not decided (left to other technique families): unescape(escape(s)) == s for every string as a value-level statement
(the rules prove the structural links writer table <-> reader table, not the executions); behaviour of expat on the XML
side (the entity table is compared with the XML 1.0 predefined entities / character references, not with expat);
rejection of overlong / surrogate UTF-8 input (next_utf8_codepoint does not validate continuation bytes; no listed clause
requires it); append_debug_encoded_string's output format (never parsed back) beyond its bounded reads.
"""
import functools

from ..charset import (Bits, CODEPOINTS, EMPTY, ISet, Pred, Unsupported, char_truth_bytes, field_vec, int_type, never_modified, unique_def_resolver, ZERO, ONE, W)
from ..c14_util import (BYTES, Broken, block_paths, byte_states, char_guard_set, char_leaf, char_aliases, cursor_lvalue, cursor_text, decisions, depends_on,
                        derived_helper, elems_on, ends_in_throw, forward_reach, guards, loop_iterations, helper_returns, input_byte_locals, is_current_char, set_fact_base, is_var, lvalue_modifications, make_callee_summary, valid_copies,
                        local_init, modifications, one, string_literal, string_out_calls, var_guard_set, vars_in)
from ..flow import path_search

EXPLANATION = (
    'Decided: (1) exact pass-through set of the OPL escaper (interval arithmetic over the condition tree, all code points 0..0x10FFFF) is '
    'inside the reader\'s verbatim set and disjoint from every delimiter set extracted from the OPL reader; (2) escape frame / hex alphabet / '
    'positional hex numeral / numeral length agree between append_utf8_encoded_string and opl_parse_escaped; (3) XML entity table complete and '
    'each reference denotes its character; every object string written by the OPL and XML output classes flows through the escaper; '
    '(4) bounded reads: cursor advances only on non-NUL bytes, UTF-8 decode dominated by the length checks, lead byte table, end pointer from '
    'strlen; UTF-8 encoder / decoder bit assembly equals the UTF-8 table. NOT decided: value-level round trip for every string, expat\'s '
    'behaviour, validation of malformed UTF-8 continuation bytes.')
ASSUMPTIONS = ['UTF-8 table (RFC 3629) and the XML 1.0 predefined entities / attribute-value normalisation characters are the frozen reference tables',
               'std::string::append / operator+= / find_first_of behave per the standard',
               'code point domain 0..0x10FFFF (the property\'s quantifier); plain char may be signed or unsigned (both evaluated, must agree)']

# Genuine defects of the unchanged tree found by these rules: (rule, key, explanation).  Reported with R.bad as usual.
KNOWN = [
    # (rule, key, explanation).  Nothing open at present.  Found by O4 on the original tree and since repaired in /repo
    # (mutant `hex4-fix-reverted` is the reverted fix):
    #   O4-hex-digits-positional  osmium::io::detail::append_min_4_hex_digits#nibble16-written-whenever-nibble20-is
    #   the four optional leading nibbles were tested on their own (`v = value & 0x000f0000; if (v)`), so U+100000..U+10FFFF lost the
    #   zero nibble at bit 16: "\xF4\x80\x80\x80" (U+100000) was escaped as "%10000%", which decodes to U+10000.
]

NS = 'osmium::io::detail::'
WR = NS + 'append_utf8_encoded_string'
DBG = NS + 'append_debug_encoded_string'
XMLENC = NS + 'append_xml_encoded_string'
DECODE = NS + 'next_utf8_codepoint'
SEQLEN = NS + 'utf8_sequence_length'
ENCODE = NS + 'append_codepoint_as_utf8'
PSTR = NS + 'opl_parse_string'
PESC = NS + 'opl_parse_escaped'
PCHAR = NS + 'opl_parse_char'
STR_APPENDERS = ('std::basic_string::operator+=', 'std::basic_string::append', 'std::basic_string::push_back')

# frozen reference tables
UTF8_LEAD = {1: ISet.span(0x00, 0x7f), 2: ISet.span(0xc0, 0xdf), 3: ISet.span(0xe0, 0xef), 4: ISet.span(0xf0, 0xf7),
             0: ISet(((0x80, 0xbf), (0xf8, 0xff)))}
UTF8_RANGE = {1: ISet.span(0, 0x7f), 2: ISet.span(0x80, 0x7ff), 3: ISet.span(0x800, 0xffff), 4: ISet.span(0x10000, 0x10ffff)}
UTF8_LEADBITS = {1: (0x00, 7), 2: (0xc0, 5), 3: (0xe0, 4), 4: (0xf0, 3)}
XML_STRUCTURAL = {0x26: 'amp', 0x3c: 'lt', 0x3e: 'gt', 0x22: 'quot', 0x27: 'apos', 0x0a: None, 0x0d: None, 0x09: None}
XML_ENTITIES = {'amp': 0x26, 'lt': 0x3c, 'gt': 0x3e, 'quot': 0x22, 'apos': 0x27}


def _ch(b):
    return ("'%s'" % chr(b)) if 0x20 < b < 0x7f else '0x%02x' % b


def _k(S):
    """set text usable inside an instance key (no blanks)"""
    return S.fmt().replace(', ', ',')


def _set_bytes(S):
    return ' '.join(_ch(b) for b in S.values(300))


# ================================================================================================ models

class WriterModel(object):
    """What append_utf8_encoded_string does with one decoded code point, as sets over the code point."""

    def __init__(self, fb):
        fn = self.fn = one(fb, WR)
        self.d_out = self.d_data = None
        for p in fn.params:
            if 'basic_string' in p['tC'] and p['tC'].endswith('&'):
                self.d_out = p['d']
            elif p['tC'].replace(' ', '') in ('constchar*',):
                self.d_data = p['d']
        if self.d_out is None or self.d_data is None:
            raise Broken('%s: parameters (std::string&, const char*) not recognised' % WR)
        # the decoded code point: local initialised from next_utf8_codepoint(&cursor, end)
        self.d_c = self.decode = self.decl_c = None
        for n in fn.all_nodes():
            if n.get('k') == 'decl':
                for v in n['vars']:
                    if isinstance(v.get('init'), int):
                        c = fn.sn(v['init'])
                        if c is not None and c.get('k') == 'call' and c.get('q') == DECODE:
                            self.d_c, self.decode, self.decl_c = v['d'], c, n
        if self.d_c is None:
            raise Broken('%s: no local initialised from %s' % (WR, DECODE))
        if not never_modified(fn, self.d_c):
            raise Broken('%s: the decoded code point is modified after decoding' % WR)
        self.verbatim, self.frames, self.emitters, self.digits = [], [], [], []
        for (n, kind) in string_out_calls(fn, self.d_out):
            args = [a for a in n.get('args', []) if a is not None]
            if kind == 'free':
                args = args[1:]
            uses_c = any(self.d_c in vars_in(fn, a) for a in args)
            ix = fn.sn(args[0]) if (kind == 'member' and len(args) == 1) else None
            has_alphabet = kind == 'free' and any(string_literal(fn, a) is not None and len(string_literal(fn, a)) >= 16 for a in args)
            if kind == 'free' and n.get('q', '').startswith(NS) and (uses_c or has_alphabet):
                self.emitters.append(n)
            elif ix is not None and n.get('q') in STR_APPENDERS and ix.get('k') == 'index' and (string_literal(fn, ix['base']) or '') != '' \
                    and len(string_literal(fn, ix['base'])) >= 16:
                self.digits.append(n)         # a hex digit written inline: out += alphabet[<nibble of c>]
            elif kind == 'member' and n.get('q') in STR_APPENDERS and len(args) == 1 and fn.const_value(args[0]) is not None:
                self.frames.append(n)
            elif kind == 'member' and n.get('q') in STR_APPENDERS and not uses_c and all(vars_in(fn, a) for a in args):
                self.verbatim.append(n)
            else:
                raise Broken('%s: unrecognised write to the output string: %s' % (WR, fn.expr(n['id'])))
        if len(self.verbatim) != 1 or not (self.emitters or self.digits) or not self.frames:
            raise Broken('%s: expected one verbatim append, >=1 hex emitter calls / inline digits and frame characters (found %d/%d+%d/%d)'
                         % (WR, len(self.verbatim), len(self.emitters), len(self.digits), len(self.frames)))
        dom = CODEPOINTS
        res = unique_def_resolver(fn)
        callee = make_callee_summary(fb)
        self.P = var_guard_set(fn, self.verbatim[0]['id'], self.d_c, dom, res, callee)
        self.E = [(e, var_guard_set(fn, e['id'], self.d_c, dom, res, callee)) for e in self.emitters]
        self.Edigits = EMPTY
        for n in self.digits:
            self.Edigits = self.Edigits | var_guard_set(fn, n['id'], self.d_c, dom, res, callee)

    def iteration_paths(self):
        """Event sequences of one loop iteration after the decode: [[('verbatim'|'frame'|'emit', node)...]...]"""
        fn = self.fn
        pos = fn.positions()
        b0 = pos[self.decl_c['id']][0]
        loops = [l for l in fn.loops if fn.in_range(self.decode['id'], l['b'], l['e'])]
        if len(loops) != 1:
            raise Broken('%s: the decode call must sit in exactly one loop' % WR)
        heads = {b['id'] for b in fn.blocks.values() if b.get('termcls') in ('WhileStmt', 'ForStmt', 'DoStmt') and 'cond' in b
                 and fn.in_range(b['cond'], loops[0]['b'], loops[0]['e'])}
        if not heads:
            raise Broken('%s: loop head not found' % WR)
        ev = {}
        for n in self.verbatim:
            ev[n['id']] = ('verbatim', n)
        for n in self.frames:
            ev[n['id']] = ('frame', n)
        for n in self.emitters:
            ev[n['id']] = ('emit', n)
        for n in self.digits:
            ev[n['id']] = ('digit', n)
        seqs = []
        for path in block_paths(fn, b0, heads):
            seqs.append([ev[e] for e in elems_on(fn, path, after=self.decl_c['id']) if e in ev])
        return seqs


class ReaderModel(object):
    """Byte sets of the OPL string reader."""

    def __init__(self, fb):
        # ---- opl_parse_string
        fn = self.ps = one(fb, PSTR)
        d_res = None
        for p in fn.params:
            if 'basic_string' in p['tC'] and p['tC'].endswith('&'):
                d_res = p['d']
        if d_res is None:
            raise Broken('%s: result parameter not recognised' % PSTR)
        self.ps_text = cursor_text(fn)
        copies = []
        for (n, kind) in string_out_calls(fn, d_res):
            if kind == 'member' and n.get('q') in STR_APPENDERS and len(n.get('args', [])) == 1 and is_current_char(fn, n['args'][0], n['id'], self.ps_text):
                copies.append(n)
                continue
            raise Broken('%s: unrecognised write to the result string: %s' % (PSTR, fn.expr(n['id'])))
        if len(copies) != 1:
            raise Broken('%s: expected exactly one verbatim copy `result += <byte under the cursor>`' % PSTR)
        self.copy = copies[0]
        self.V, used_v = char_guard_set(fn, self.copy['id'], self.ps_text)
        self.ps_ptext = cursor_lvalue(fn, self.ps_text)
        self.ps_cursor = next((('var', x['d'], x['name']) for x in fn.all_nodes() if x.get('k') == 'var' and x.get('vk') in ('local', 'param')
                               and x['name'] == self.ps_ptext), None)
        if self.ps_cursor is None:
            raise Broken('%s: cursor not recognised' % PSTR)
        esc = list(fn.calls(qname=PESC))
        if len(esc) != 1:
            raise Broken('%s: expected exactly one call of %s' % (PSTR, PESC))
        self.esc_call = esc[0]
        self.I = _consumed_before(fn, esc[0]['id'], self.ps_text, self.ps_cursor[1])
        # ---- opl_parse_escaped
        fe = self.pe = one(fb, PESC)
        enc = list(fe.calls(qname=ENCODE))
        if len(enc) != 1:
            raise Broken('%s: expected exactly one call of %s' % (PESC, ENCODE))
        self.enc_call = enc[0]
        v = fe.sn(enc[0]['args'][0])
        if v is None or v.get('k') != 'var' or v.get('vk') != 'local':
            raise Broken('%s: first argument of %s is not a local accumulator' % (PESC, ENCODE))
        self.d_value = v['d']
        self.pe_text = cursor_text(fe)
        self.pe_ptext = cursor_lvalue(fe, self.pe_text)
        self.pe_cursor = next((('var', x['d'], x['name']) for x in fe.all_nodes() if x.get('k') == 'var' and x.get('vk') in ('local', 'param')
                               and x['name'] == self.pe_ptext), None)
        if self.pe_cursor is None:
            raise Broken('%s: cursor not recognised' % PESC)
        self.T = _consumed_before(fe, enc[0]['id'], self.pe_text, self.pe_cursor[1])
        self.adds, self.shifts, self.other_mods = [], [], []
        for m in modifications(fe, self.d_value):
            n = fe.nodes[m]
            if n.get('k') == 'assign' and n['op'] == '+=':
                S, _ = char_guard_set(fe, m, self.pe_text)
                self.adds.append((n, S))
            elif n.get('k') == 'assign' and n['op'] == '<<=':
                self.shifts.append(n)
            else:
                self.other_mods.append(n)
        if not self.adds or not self.shifts:
            raise Broken('%s: digit accumulation (`value <<= k`, `value += digit`) not found' % PESC)

    def digit_value(self, byte):
        """value the reader adds for this byte, or None if it is not accepted as a digit."""
        hits = [(n, S) for (n, S) in self.adds if byte in S]
        if len(hits) != 1:
            return None
        n = hits[0][0]
        vals = set()
        leaf = char_leaf(self.pe_text, valid_copies(self.pe, n['id'], self.pe_text))
        for sg, dom in ((True, byte - 256 if byte >= 128 else byte), (False, byte)):
            p = Pred(self.pe, leaf, ISet.of(dom), None, char_signed=sg)
            vals.add(p.value_at(n['rhs'], dom))
        if len(vals) != 1:
            return None
        return vals.pop()

    def max_digits(self):
        """Largest number of digits opl_parse_escaped accepts before the terminator, from its loop counter."""
        fe = self.pe
        loops = [l for l in fe.loops if fe.in_range(self.enc_call['id'], l['b'], l['e'])]
        if len(loops) != 1:
            raise Broken('%s: the terminator handling must sit in exactly one loop' % PESC)
        heads = [b for b in fe.blocks.values() if b.get('termcls') in ('WhileStmt', 'ForStmt') and 'cond' in b
                 and fe.in_range(b['cond'], loops[0]['b'], loops[0]['e']) and len(b['succs']) == 2]
        if len(heads) != 1:
            raise Broken('%s: loop head not found' % PESC)
        c = fe.sn(heads[0]['cond'])
        if c is None or c.get('k') != 'binop' or c['op'] not in ('<', '<='):
            raise Broken('%s: loop condition is not `counter </<= limit`' % PESC)
        lim = fe.const_value(c['rhs'])
        u = fe.sn(c['lhs'])
        if lim is None or u is None or u.get('k') != 'unop' or u['op'] != '++':
            raise Broken('%s: loop condition is not `++counter <= constant`' % PESC)
        cv = fe.sn(u['sub'])
        if cv is None or cv.get('k') != 'var':
            raise Broken('%s: loop counter not recognised' % PESC)
        init, _ = local_init(fe, cv['d'])
        i0 = fe.const_value(init) if init is not None else None
        if i0 is None or modifications(fe, cv['d']) != [u['id']]:
            raise Broken('%s: loop counter is not a constant-initialised local changed only in the loop condition' % PESC)
        first = i0 + (0 if u.get('postfix') else 1)          # value compared in the first evaluation
        bound = lim if c['op'] == '<=' else lim - 1          # last value for which the body runs
        iterations = max(0, bound - first + 1)
        # every iteration consumes exactly one byte: the terminator needs an iteration of its own
        return iterations - 1, iterations


def _consumed_before(fn, nid, text, d_cursor):
    """Byte set of the character consumed last before node nid: the state in front of the latest cursor advance that
    dominates nid (the cursor has already moved on when nid runs); without such an advance, the state at nid."""
    adv = [m for m in modifications(fn, d_cursor) if fn.nodes[m].get('k') == 'unop' and fn.nodes[m]['op'] == '++' and fn.elem_dominates(m, nid)]
    if not adv:
        # state in front of the whole call expression (its own `&cursor` argument is evaluated first)
        b, _i = fn.positions()[nid]
        sub = set(fn.subtree(nid))
        first = next((e for e in fn.blocks[b]['elems'] if e in sub), nid)
        return char_guard_set(fn, first, text)[0]
    last = adv[0]
    for m in adv[1:]:
        if fn.elem_dominates(last, m):
            last = m
    return char_guard_set(fn, last, text)[0]


# ================================================================================================ OPL writer rules

def opl_writer_rules(fb, R):
    try:
        wm = WriterModel(fb)
        rm = ReaderModel(fb)
    except (Broken, Unsupported) as e:
        R.broken(str(e))
        return
    for rule in (_o1, _o2, _o3, _o4_o5, _o6, _r1, _r3, _r4):
        try:
            rule(fb, R, wm, rm)
        except (Broken, Unsupported) as e:
            R.broken('%s: %s' % (rule.__name__, e))


def _delimiter_sources(fb, rm):
    """[(key suffix, site, byte set, description)] extracted from the reader."""
    out = []
    ps = rm.ps
    notcopied = BYTES - rm.V
    out.append(('%s#not-copied-verbatim' % PSTR, ps.loc(rm.copy['id']), notcopied,
                'bytes opl_parse_string does not copy verbatim (stop characters, escape introducer, NUL)'))
    # constants handed to opl_parse_char in productions that also parse strings
    n = 0
    for fn in fb.functions:
        if not any(True for _ in fn.calls(qname=PSTR)):
            continue
        for c in fn.calls(qname=PCHAR):
            v = fn.const_value(c['args'][1]) if len(c.get('args', [])) == 2 else None
            if v is None:
                raise Broken('%s: opl_parse_char with a non-constant character' % fn.q)
            n += 1
            out.append(('%s#opl_parse_char:%s' % (fn.q, _ch(v & 0xff)), fn.loc(c['id']), ISet.of(v & 0xff), 'separator expected by %s' % fn.name))
    if n == 0:
        raise Broken('no opl_parse_char call found next to opl_parse_string')
    # section terminators: bytes for which opl_non_empty answers false; bytes that opl_parse_space consumes
    fn = one(fb, NS + 'opl_non_empty')
    text = cursor_text(fn)
    D = EMPTY
    rets = [x for x in fn.all_nodes() if x.get('k') == 'return' and 'sub' in x]
    if not rets:
        raise Broken('%s: no return found' % fn.q)
    for r in rets:
        st, _u = char_guard_set(fn, r['id'], text)
        D = D | (st - char_truth_bytes(fn, r['sub'], char_leaf(text, valid_copies(fn, r['id'], text))))
    out.append(('%s#section-delimiters' % fn.q, fn.loc(rets[0]['id']), D, 'section delimiters of %s' % fn.name))
    fn = one(fb, NS + 'opl_parse_space')
    text = cursor_text(fn)
    adv = [m for m in lvalue_modifications(fn, cursor_lvalue(fn, text)) if fn.nodes[m].get('k') == 'unop' and fn.nodes[m]['op'] == '++']
    if not adv:
        raise Broken('%s: no cursor advance found' % fn.q)
    D = EMPTY
    for m in adv:
        D = D | char_guard_set(fn, m, text)[0]
    out.append(('%s#section-delimiters' % fn.q, fn.loc(adv[0]), D, 'section delimiters of %s' % fn.name))
    # line splitter
    found = False
    for fn in fb.fns(NS + 'line_by_line'):
        for c in fn.calls(name='find_first_of'):
            if not c.get('q', '').startswith('std::basic_string::'):
                continue
            lit = string_literal(fn, c['args'][0]) if c.get('args') else None
            if lit is None:
                raise Broken('%s: find_first_of with a non-literal delimiter set' % fn.q)
            found = True
            out.append(('%s#find_first_of' % fn.q, fn.loc(c['id']), ISet.of(*[ord(ch) & 0xff for ch in lit]) if lit else EMPTY, 'line splitter'))
    if not found:
        raise Broken('line splitter (find_first_of in line_by_line) not found')
    out.append(('NUL', rm.ps.site, ISet.of(0), 'string terminator'))
    return out


def _o1(fb, R, wm, rm):
    rule = 'O1-passthrough-disjoint-delims'
    P = wm.P
    site = wm.fn.loc(wm.verbatim[0]['id'])
    Pb = P.clip(0, 0x7f)
    nonascii = bool(P.clip(0x80, 0x10ffff))
    if nonascii:
        Pb = Pb | ISet.span(0x80, 0xff)     # UTF-8 bytes of pass-through code points >= 0x80
    # inside the reader's verbatim set
    miss = Pb - rm.V
    R.check(not miss, rule, '%s#inside-reader-verbatim-set' % WR, site,
            'pass-through set %s contains bytes the reader does not copy verbatim: %s' % (P.fmt(), _set_bytes(miss)), detail='P=%s V=%s' % (P.fmt(), rm.V.fmt()))
    for (key, dsite, D, what) in _delimiter_sources(fb, rm):
        hit = Pb & D
        R.check(not hit, rule, '%s#vs#%s' % (WR, key), dsite,
                'pass-through set of %s contains %s, which is a delimiter for the reader (%s)' % (WR, _set_bytes(hit) if hit else '', what),
                detail='D=%s' % _set_bytes(D))


def _o2(fb, R, wm, rm):
    rule = 'O2-escape-frame'
    fn = wm.fn
    site = fn.site
    # partition: every code point is passed or escaped through exactly one emitter
    allE = EMPTY
    overlap = EMPTY
    for (_e, S) in wm.E + ([(None, wm.Edigits)] if wm.digits else []):
        overlap = overlap | (allE & S)
        allE = allE | S
    rest = CODEPOINTS - wm.P - allE
    both = (wm.P & allE) | overlap
    R.check(not rest and not both, rule, '%s#partition' % WR, site,
            'code points neither passed nor escaped: %s; handled twice: %s' % (rest.fmt(), both.fmt()))
    # reader's introducer / terminator are single bytes
    if rm.I.count() != 1 or rm.T.count() != 1:
        raise Broken('reader: escape introducer %s / terminator %s are not single bytes' % (rm.I.fmt(), rm.T.fmt()))
    intro, term = rm.I.min(), rm.T.min()
    ok = True
    why = ''
    for seq in wm.iteration_paths():
        kinds = []
        for (k, _n) in seq:
            k = 'emit' if k == 'digit' else k             # a run of inline digits is one numeral
            if not (k == 'emit' and kinds and kinds[-1] == 'emit' and _n in wm.digits):
                kinds.append(k)
        if kinds == ['verbatim']:
            continue
        if kinds != ['frame', 'emit', 'frame']:
            ok, why = False, 'an escaped code point is written as %s instead of introducer, hex numeral, terminator' % kinds
            break
        a = fn.const_value(seq[0][1]['args'][0]) & 0xff
        b = fn.const_value(seq[-1][1]['args'][0]) & 0xff
        if a != intro:
            ok, why = False, 'escape starts with %s but the reader enters opl_parse_escaped only on %s' % (_ch(a), _ch(intro))
            break
        if b != term:
            ok, why = False, 'escape ends with %s but the reader finishes an escape only on %s' % (_ch(b), _ch(term))
            break
    R.check(ok, rule, '%s#frame' % WR, site, why)
    # the introducer / terminator must themselves be escaped by the writer (not in P)
    R.check(intro not in wm.P and term not in wm.P, rule, '%s#frame-bytes-escaped' % WR, site,
            'the escape introducer/terminator is in the pass-through set')


def _emitter_alphabet(wm, call):
    """(callee Fn-independent) the literal passed as digit alphabet and its parameter index."""
    fn = wm.fn
    for i, a in enumerate(call['args']):
        if i == 0 or a is None:
            continue
        lit = string_literal(fn, a)
        if lit is not None:
            return i, lit
    raise Broken('%s: digit alphabet literal of %s not found' % (WR, fn.expr(call['id'])))


def _check_alphabet(R, rm, rule, key, site, lit, delim):
    bad = None
    if len(lit) < 16:
        bad = 'alphabet %r has fewer than 16 entries' % lit
    else:
        for i in range(16):
            b = ord(lit[i]) & 0xff
            dv = rm.digit_value(b)
            if dv != i:
                bad = 'alphabet entry %d is %s, which the reader %s' % (i, _ch(b), 'does not accept as a hex digit' if dv is None else 'decodes as %d' % dv)
                break
            if b in rm.T or b in delim:
                bad = 'alphabet entry %d (%s) is a terminator / delimiter byte for the reader' % (i, _ch(b))
                break
    R.check(bad is None, rule, key, site, bad)


def _o3(fb, R, wm, rm):
    rule = 'O3-hex-alphabet'
    fn = wm.fn
    delim = EMPTY
    for (key, _s, D, _w) in _delimiter_sources(fb, rm):
        if 'section-delimiters' in key or 'find_first_of' in key or key == 'NUL':
            delim = delim | D
    for (call, _S) in wm.E:
        _i, lit = _emitter_alphabet(wm, call)
        _check_alphabet(R, rm, rule, '%s#alphabet#%s' % (WR, call['q']), fn.loc(call['id']), lit, delim)
    inline_lits = sorted({string_literal(fn, fn.sn(n['args'][0])['base']) for n in wm.digits})
    if len(inline_lits) > 1:
        raise Broken('%s: inline digits use different alphabets' % WR)
    for lit in inline_lits:
        _check_alphabet(R, rm, rule, '%s#alphabet#inline' % WR, fn.loc(wm.digits[0]['id']), lit, delim)
    frame = rm.I | rm.T
    R.check(not (frame & delim), rule, '%s#frame-not-a-section-delimiter' % WR, fn.site,
            'escape frame byte %s also terminates a section / line in the reader' % _set_bytes(frame & delim))


class DigitProgram(object):
    """The hex digits a function writes for a value: events (nibble shift k, guard set over the value, node, iteration)
    for every `out += alphabet[<nibble k of value>]`, in execution order.  Counted loops are unrolled over the constant
    values of their counter; the function may be a dedicated emitter `f(out, value, alphabet)` or the escaper itself
    (digits written inline)."""

    def __init__(self, fn, d_out, d_val, is_alphabet, domain, only=None):
        self.fn = fn
        q = fn.q
        if not never_modified(fn, d_val):
            raise Broken('%s: the value is modified while its digits are written' % q)
        res = unique_def_resolver(fn)
        writes = []
        for (n, kind) in string_out_calls(fn, d_out):
            if only is not None and n['id'] not in only:
                continue
            ix = fn.sn(n['args'][0]) if (kind == 'member' and n.get('q') in STR_APPENDERS and len(n.get('args', [])) == 1) else None
            if ix is None or ix.get('k') != 'index' or not is_alphabet(fn, ix['base']):
                raise Broken('%s: unrecognised write to the output string: %s' % (q, fn.expr(n['id'])))
            writes.append((n, ix))
        if not writes:
            raise Broken('%s: no digit is written' % q)
        loops = {}
        for (n, _ix) in writes:
            ls = [l for l in fn.loops if fn.in_range(n['id'], l['b'], l['e'])]
            if len(ls) > 1:
                raise Broken('%s: digit written inside nested loops' % q)
            if ls and only is None:
                key = (ls[0]['b'], ls[0]['e'])
                if key not in loops:
                    d_i, vals, upd = loop_iterations(fn, ls[0])
                    loops[key] = (d_i, vals, upd)
        ev = []
        for (n, ix) in writes:
            ls = [l for l in fn.loops if fn.in_range(n['id'], l['b'], l['e'])] if only is None else []
            if ls:
                key = (ls[0]['b'], ls[0]['e'])
                d_i, vals, upd = loops[key]
                if forward_reach(fn, upd, n['id']):
                    raise Broken('%s: the loop counter is updated before a digit of the same iteration is written' % q)
                its = [(key, i, {d_i: v}) for i, v in enumerate(vals)]
            else:
                its = [(None, 0, {})]
            for (lkey, i, consts) in its:
                env = {d: Bits.const_vec(v) for d, v in consts.items()}
                bits = Bits(fn, lambda f, x: 'v' if x.get('k') == 'var' and x.get('d') == d_val else None, {'v': 32}, res, env=env)
                vec = bits.eval(ix['idx'])
                k = next((kk for kk in range(0, 64, 4) if vec == field_vec('v', kk, 4)), None)
                if k is None:
                    raise Broken('%s: index %s is not one nibble of the value' % (q, fn.expr(ix['idx'])))
                G = var_guard_set(fn, n['id'], d_val, domain, res, consts=consts)
                ev.append((k, G, n, (lkey, i)))

        def before(x, y):
            (lx, ix_), (ly, iy) = x[3], y[3]
            if lx is not None and lx == ly and ix_ != iy:
                return ix_ < iy
            return forward_reach(fn, x[2]['id'], y[2]['id'])
        self.before = before
        # execution order (events on exclusive paths keep their textual order)
        ev.sort(key=functools.cmp_to_key(lambda x, y: -1 if before(x, y) else (1 if before(y, x) else (x[2].get('o', 0) > y[2].get('o', 0)) - (x[2].get('o', 0) < y[2].get('o', 0)))))
        self.events = ev

    def order_violation(self, V):
        """two digits that can both be written for one value, the earlier one not more significant than the later one"""
        ev = self.events
        for i in range(len(ev)):
            for j in range(len(ev)):
                if i != j and self.before(ev[i], ev[j]) and ev[i][0] <= ev[j][0]:
                    both = ev[i][1] & ev[j][1] & V
                    if both:
                        return ev[i][0], ev[j][0], both
        return None


def emitter_program(fb, q, domain):
    """DigitProgram of a dedicated emitter `f(std::string& out, integer value, const char* alphabet)`"""
    fn = one(fb, q)
    d_out = d_val = d_alpha = None
    for p in fn.params:
        tc = p['tC']
        if 'basic_string' in tc and tc.endswith('&'):
            d_out = p['d']
        elif int_type(tc) is not None:
            d_val = p['d']
        elif tc.replace('const', '').replace(' ', '') == 'char*':
            d_alpha = p['d']
    if None in (d_out, d_val, d_alpha):
        raise Broken('%s: parameters (std::string&, integer, const char*) not recognised' % q)
    if not never_modified(fn, d_alpha):
        raise Broken('%s: alphabet parameter is modified' % q)
    dp = DigitProgram(fn, d_out, d_val, lambda f, base: is_var(f, base, d_alpha), domain)
    dp.i_val = [p['d'] for p in fn.params].index(d_val)
    dp.i_alpha = [p['d'] for p in fn.params].index(d_alpha)
    return dp


def _nibble_zero(k, V):
    """{v in V | ((v >> k) & 15) == 0}"""
    if not V:
        return V
    hi = V.max()
    out = []
    step = 1 << (k + 4)
    base = 0
    while base <= hi:
        out.append((base, base + (1 << k) - 1))
        base += step
    return ISet(out) & V


def _o4_o5(fb, R, wm, rm):
    maxd, iters = rm.max_digits()
    for (call, V) in wm.E:
        q = call['q']
        dp = emitter_program(fb, q, V)
        # O8: the value handed to the formatter is the decoded code point (the variable the pass-through and width tests read)
        _check_value_is_codepoint(R, wm, call['args'][dp.i_val], V, '%s#value-of#%s' % (WR, q), wm.fn.loc(call['id']), 'handed to %s' % q)
        ai, _lit = _emitter_alphabet(wm, call)
        if ai != dp.i_alpha:
            raise Broken('%s: alphabet literal is not passed as the alphabet parameter of %s' % (WR, q))
        _check_numeral(R, dp, V, q, wm.fn.loc(call['id']), maxd, iters)
    if wm.digits:
        V = EMPTY
        res = unique_def_resolver(wm.fn)
        callee = make_callee_summary(fb)
        for n in wm.digits:
            V = V | var_guard_set(wm.fn, n['id'], wm.d_c, CODEPOINTS, res, callee)
        res = unique_def_resolver(wm.fn)
        foreign = [n for n in wm.digits if not depends_on(wm.fn, wm.fn.sn(n['args'][0])['idx'], wm.d_c, res)]
        R.check(not foreign, 'O8-escaped-value-is-codepoint', '%s#value-of#inline-digits' % WR, wm.fn.loc((foreign or wm.digits)[0]['id']),
                'a hex digit is computed from %s, not from the decoded code point' % (wm.fn.expr(wm.fn.sn(foreign[0]['args'][0])['idx']) if foreign else ''))
        if not foreign:
            dp = DigitProgram(wm.fn, wm.d_out, wm.d_c, lambda f, base: string_literal(f, base) is not None, V, only={n['id'] for n in wm.digits})
            _check_numeral(R, dp, V, WR, wm.fn.loc(wm.digits[0]['id']), maxd, iters)


def _check_value_is_codepoint(R, wm, arg, V, key, site, what):
    """The expression `arg` denotes the decoded code point for every value in V: it is the variable itself, or a term over
    it whose bit-slice evaluation is the identity on V (a widening / same-width cast, `c & 0xff` where c <= 0xff)."""
    rule = 'O8-escaped-value-is-codepoint'
    fn = wm.fn
    res = unique_def_resolver(fn)
    if is_var(fn, arg, wm.d_c):
        R.ok(rule, key, site)
        return
    if not depends_on(fn, arg, wm.d_c, res):
        R.bad(rule, key, site, 'the value %s is %s, which is not computed from the decoded code point (a raw input byte is not the code point: '
              'every escaped code point >= U+0080 of that sequence length is written as the same number)' % (what, fn.expr(arg)))
        return
    width = max(V.max().bit_length(), 1) if V else 1
    bits = Bits(fn, lambda f, x: 'c' if x.get('k') == 'var' and x.get('d') == wm.d_c else None, {'c': width}, res)
    try:
        same = bits.eval(arg) == bits.input_vec('c')
    except Unsupported as e:
        raise Broken('%s: cannot decide whether %s equals the decoded code point: %s' % (WR, fn.expr(arg), e))
    R.check(same, rule, key, site, 'the value %s is %s, which differs from the decoded code point for some of %s' % (what, fn.expr(arg), V.fmt()))


def _check_numeral(R, dp, V, q, call_site, maxd, iters):
    rule = 'O4-hex-digits-positional'
    fn = dp.fn
    ks = [k for (k, _g, _n, _i) in dp.events]
    viol = dp.order_violation(V)
    R.check(viol is None, rule, '%s#order' % q, fn.site,
            'the digit for nibble shift %s is written before the digit for nibble shift %s (e.g. for U+%04X; all writes: %s); a numeral needs '
            'strictly descending significance' % (viol[0] if viol else '', viol[1] if viol else '', viol[2].min() if viol else 0, ks), detail='reaching set %s' % V.fmt())
    G = {}
    N = {}
    for (k, g, n, _i) in dp.events:
        G[k] = G.get(k, EMPTY) | g
        N.setdefault(k, n)
    # every nibble position that a reaching value can occupy, or that the emitter writes
    topbit = max(V.max().bit_length() - 1, 0) if V else 0
    K = list(range(max(max(ks), (topbit // 4) * 4), -1, -4))

    def site_of(k):
        return fn.loc(N[k]['id']) if k in N else fn.site
    for k in K:
        dropped_nonzero = (V - G.get(k, EMPTY)) - _nibble_zero(k, V)
        R.check(not dropped_nonzero, rule, '%s#nibble%d-dropped-only-if-zero' % (q, k), site_of(k),
                'the digit for bits %d..%d is not written although it is non-zero, e.g. for U+%04X (values reaching this emitter: %s)'
                % (k, k + 3, dropped_nonzero.min() if dropped_nonzero else 0, V.fmt()))
    for k in K[1:]:
        hole = (G.get(k + 4, EMPTY) & V) - G.get(k, EMPTY)
        R.check(not hole, rule, '%s#nibble%d-written-whenever-nibble%d-is' % (q, k, k + 4), site_of(k),
                'for %s the digit for bits %d..%d is written but the (zero) digit for bits %d..%d is dropped: the numeral loses a '
                'place and the reader decodes a different code point (first: U+%04X is written like U+%04X)'
                % (hole.fmt(), k + 4, k + 7, k, k + 3, hole.min() if hole else 0, _collapse(hole.min(), k) if hole else 0))
    some = any(V.issubset(G[k]) for k in G)
    R.check(some, rule, '%s#at-least-one-digit' % q, fn.site, 'no digit is written unconditionally: an empty numeral is possible')
    # O5: longest numeral
    written = [k for k in G if G[k] & V]
    longest = (max(written) // 4 + 1) if written else 0
    R.check(longest <= maxd, 'O5-hex-length-within-reader-limit', '%s#via#%s' % (WR, q), call_site,
            '%s writes up to %d hex digits for %s but %s accepts at most %d digits before the terminator (%d loop iterations, one is needed '
            'for the terminator)' % (q, longest, V.fmt(), PESC, maxd, iters), detail='longest=%d reader limit=%d' % (longest, maxd))


def _collapse(v, k):
    """value read back when the zero nibble at shift k is missing from the numeral."""
    return ((v >> (k + 4)) << k) | (v & ((1 << k) - 1))


def _o6(fb, R, wm, rm):
    rule = 'O6-passthrough-verbatim'
    fn = wm.fn
    v = wm.verbatim[0]
    site = fn.loc(v['id'])
    args = v.get('args', [])
    ok, why = False, 'the verbatim branch must append the byte range [cursor before decode, cursor after decode)'
    dec = wm.decode
    a0 = fn.sn(dec['args'][0]) if dec.get('args') else None
    cursor_ok = a0 is not None and a0.get('k') == 'unop' and a0['op'] == '&' and is_var(fn, a0['sub'], wm.d_data)
    if not cursor_ok:
        raise Broken('%s: first argument of %s is not the address of the data cursor' % (WR, DECODE))
    if v.get('q') == 'std::basic_string::append' and len(args) == 2:
        first, second = fn.sn(args[0]), fn.sn(args[1])
        if first is not None and first.get('k') == 'var' and second is not None and is_var(fn, args[1], wm.d_data):
            init, decl = local_init(fn, first['d'])
            if init is not None and is_var(fn, init, wm.d_data) and never_modified(fn, first['d']):
                if fn.elem_dominates(decl, dec['id']) and fn.elem_dominates(dec['id'], v['id']):
                    # no other change of the cursor between the snapshot and the append
                    mods = [m for m in modifications(fn, wm.d_data) if m != a0['id']]
                    if not mods:
                        ok = True
                    else:
                        why = 'the data cursor is modified besides the decode call'
                else:
                    why = 'the start pointer must be taken before the decode call and the append must follow the decode'
    R.check(ok, rule, '%s#append-range' % WR, site, why)


def _follow_chars(fb):
    """[(function, call node, byte)] constants that opl_parse_char expects directly after a string: reachable from an
    opl_parse_string call without another opl_parse_* call in between"""
    out = []
    for fn in fb.functions:
        strs = list(fn.calls(qname=PSTR))
        if not strs:
            continue
        parse_calls = {n['id'] for n in fn.all_nodes() if n.get('k') == 'call' and n.get('q', '').startswith(NS + 'opl_parse')}
        for c in fn.calls(qname=PCHAR):
            v = fn.const_value(c['args'][1]) if len(c.get('args', [])) == 2 else None
            if v is None:
                raise Broken('%s: opl_parse_char with a non-constant character' % fn.q)
            others = parse_calls - {c['id']}
            if any(path_search(fn, p['id'], lambda e: e == c['id'], lambda e: e in others) is not None for p in strs):
                out.append((fn, c, v & 0xff))
    return out


def _r3(fb, R, wm, rm):
    """Typestate of the reader's cursor: at the literal copy `result += <byte under the cursor>` that byte has been tested
    (since the cursor last changed: increment, call taking its address) against the escape introducer and against every
    character that ends a string -- i.e. the set of bytes that can reach the copy contains none of them."""
    rule = 'R3-verbatim-copy-excludes-structural'
    ps = rm.ps
    site = ps.loc(rm.copy['id'])
    V = rm.V
    src = [('escape-introducer', rm.I, 'the escape introducer: an escape that follows another escape / a literal is copied instead of decoded')]
    if wm is not None:
        fr = ISet.of(*[wm.fn.const_value(f['args'][0]) & 0xff for f in wm.frames])
        src.append(('writer-frame-bytes', fr, 'a frame byte of the writer\'s escapes'))
    for (fn, c, v) in _follow_chars(fb):
        src.append(('%s#follows-string:%s' % (fn.q, _ch(v)), ISet.of(v), 'the separator %s expects after a string' % fn.name))
    for (key, _s, D, what) in _delimiter_sources(fb, rm):
        if 'section-delimiters' in key or key == 'NUL':      # (line terminators are removed before a line is parsed)
            src.append((key, D, what))
    for (key, D, what) in src:
        hit = V & D
        R.check(not hit, rule, '%s#copy-vs#%s' % (PSTR, key), site,
                'opl_parse_string can copy %s literally without having tested it since the cursor last moved (%s)' % (_set_bytes(hit) if hit else '', what),
                detail='bytes that can reach the copy: %s' % V.fmt())


SURROGATES = ISet.span(0xd800, 0xdfff)


def _r4(fb, R, wm, rm):
    """Accept set of opl_parse_escaped: the values of the accumulator for which the decoded value is appended (interval
    evaluation of every guard between the terminator and append_codepoint_as_utf8 over 0..2^32-1)."""
    rule = 'R4-unescape-accepts-scalar-values'
    fe = rm.pe
    call = rm.enc_call
    dom = ISet.span(0, (1 << 32) - 1)
    res = unique_def_resolver(fe)
    A = var_guard_set(fe, call['id'], rm.d_value, dom, res, make_callee_summary(fb))
    # the guards refer to the finished value: no digit is accumulated between a guard and the append
    bar_ok = True
    for (c, _sense, X) in guards(fe, call['id']):
        if not depends_on(fe, c, rm.d_value, res):
            continue
        for m in modifications(fe, rm.d_value):
            if fe.positions()[m][0] != X and forward_reach(fe, c, m) and forward_reach(fe, m, call['id']):
                bar_ok = False
    if not bar_ok:
        raise Broken('%s: the accumulator changes between a range test and the append of the decoded value' % PESC)
    site = fe.loc(call['id'])
    W = CODEPOINTS - wm.P - SURROGATES - ISet.of(0)            # scalar values the writer emits as escapes
    lost = W - A
    R.check(not lost, rule, PESC + '#accepts-every-escaped-scalar', site,
            'the writer escapes %s but %s refuses %s (first: U+%04X, written as %%%x%%)'
            % (W.fmt(), PESC, lost.fmt(), lost.min() if lost else 0, lost.min() if lost else 0), detail='accept set %s' % A.fmt())
    rejected = ISet.span(1, (1 << 32) - 1) - A
    wrong = rejected - SURROGATES - ISet.span(0x110000, (1 << 32) - 1)
    R.check(not wrong, rule, PESC + '#rejects-only-non-scalars', site,
            '%s refuses the Unicode scalar value(s) %s; only surrogates (U+D800..U+DFFF) and values above U+10FFFF may be refused'
            % (PESC, wrong.fmt()), detail='rejected %s' % rejected.fmt())


def _r1(fb, R, wm, rm):
    rule = 'R1-unescape-accumulates-hex'
    fe = rm.pe
    key = PESC
    init, _ = local_init(fe, rm.d_value)
    ok = init is not None and fe.const_value(init) == 0
    R.check(ok, rule, key + '#starts-at-zero', fe.site, 'the accumulator must start at 0')
    R.check(not rm.other_mods, rule, key + '#only-shift-and-add', fe.site,
            'the accumulator is modified by something other than `<<=` and `+=`: %s' % [fe.expr(n['id']) for n in rm.other_mods])
    sh_ok = len(rm.shifts) == 1 and fe.const_value(rm.shifts[0]['rhs']) == 4
    R.check(sh_ok, rule, key + '#shift-is-nibble-width', fe.loc(rm.shifts[0]['id']),
            'the accumulator must be shifted left by exactly 4 bits per digit (writer emits 4-bit digits)')
    sh = rm.shifts[0]
    for (a, S) in rm.adds:
        dom = fe.elem_dominates(sh['id'], a['id'])
        # exactly one shift since the previous add: no path add -> add without passing the shift
        skip = None
        for (b, _S) in rm.adds:
            w = path_search(fe, b['id'], lambda e: e == a['id'], lambda e: e == sh['id'])
            if w is not None:
                skip = w
        twice = path_search(fe, sh['id'], lambda e: e == sh['id'], lambda e: e in {x['id'] for (x, _s) in rm.adds})
        # a shift that is not followed by an add is only allowed on paths that leave the function by throw
        R.check(dom and skip is None and (twice is None), rule, '%s#shift-before-add#%s' % (key, _k(S)), fe.loc(a['id']),
                'each digit must be added after exactly one shift of the accumulator')
    # result goes through append_codepoint_as_utf8(value, back_inserter(result))
    enc = rm.enc_call
    d_res = None
    for p in fe.params:
        if 'basic_string' in p['tC'] and p['tC'].endswith('&'):
            d_res = p['d']
    bi = [fe.nodes[x] for x in fe.subtree(enc['args'][1]) if fe.nodes[x].get('k') == 'call' and fe.nodes[x].get('q') == 'std::back_inserter'] if len(enc.get('args', [])) == 2 else []
    ok = bool(bi) and d_res is not None and any(is_var(fe, b['args'][0], d_res) for b in bi)
    R.check(ok, rule, key + '#decoded-value-appended-to-result', fe.loc(enc['id']),
            'the decoded value must be appended to the result string via append_codepoint_as_utf8(value, std::back_inserter(result))')
    # the escape call in opl_parse_string hands over the same result string and the cursor
    ps = rm.ps
    ec = rm.esc_call
    d_psres = next((p['d'] for p in ps.params if 'basic_string' in p['tC'] and p['tC'].endswith('&')), None)
    a0 = ps.sn(ec['args'][0])
    ok = (len(ec['args']) == 2 and is_var(ps, ec['args'][1], d_psres) and a0 is not None and a0.get('k') == 'unop' and a0['op'] == '&'
          and rm.ps_cursor is not None and is_var(ps, a0['sub'], rm.ps_cursor[1]))
    R.check(ok, rule, PSTR + '#escape-call-arguments', ps.loc(ec['id']), 'opl_parse_escaped must get the address of the cursor and the result string')
    # the introducer is consumed exactly once before the call
    adv = [m for m in modifications(ps, rm.ps_cursor[1]) if ps.nodes[m].get('k') == 'unop' and ps.nodes[m]['op'] == '++']
    pre = [m for m in adv if ps.elem_dominates(m, ec['id']) and ps.positions()[m][0] == ps.positions()[ec['id']][0]]
    R.check(len(pre) == 1, rule, PSTR + '#introducer-consumed-once', ps.loc(ec['id']),
            'exactly one cursor advance (skipping the introducer) must precede the call of opl_parse_escaped in its branch')


# ================================================================================================ UTF-8 encoder / decoder

def utf8_rules(fb, R):
    for rule in (_r2_encoder, _n3_length_table, _n2_u2_decoder, _n4_end):
        try:
            rule(fb, R)
        except (Broken, Unsupported) as e:
            R.broken('%s: %s' % (rule.__name__, e))


def _r2_encoder(fb, R):
    rule = 'R2-utf8-encoder-table'
    fns = fb.fns(ENCODE)
    if not fns:
        raise Broken('%s not instantiated' % ENCODE)
    for fn in fns:
        d_cp = next((p['d'] for p in fn.params if int_type(p['tC']) is not None), None)
        if d_cp is None or not never_modified(fn, d_cp):
            raise Broken('%s: code point parameter not recognised / modified' % ENCODE)
        stores = []
        for n in fn.all_nodes():
            if n.get('k') == 'call' and n.get('op') == '=' and n.get('args'):
                stores.append(n)
            elif n.get('k') == 'assign' and n.get('op') == '=':
                l = fn.sn(n['lhs'])
                if l is not None and l.get('k') == 'unop' and l['op'] == '*':
                    stores.append(n)
        if not stores:
            raise Broken('%s: no byte stores found' % ENCODE)
        groups = {}
        for s in stores:
            G = var_guard_set(fn, s['id'], d_cp, CODEPOINTS)
            groups.setdefault(G, []).append(s)
        seen = EMPTY
        for G, ss in sorted(groups.items(), key=lambda kv: kv[0].min() if kv[0] else -1):
            n = next((k for k, S in UTF8_RANGE.items() if S == G), None)
            key = '%s#range:%s' % (ENCODE, _k(G))
            site = fn.loc(ss[0]['id'])
            if n is None:
                R.bad(rule, key, site, 'bytes are stored for the code point range %s, which is not one of the UTF-8 ranges %s'
                      % (G.fmt(), ', '.join(S.fmt() for S in UTF8_RANGE.values())))
                continue
            seen = seen | G
            # order stores by CFG position
            ss = sorted(ss, key=lambda s: (-fn.positions()[s['id']][0], fn.positions()[s['id']][1]))
            for i in range(len(ss) - 1):
                if path_search(fn, ss[i]['id'], lambda e: e == ss[i + 1]['id'], lambda e: False) is None:
                    raise Broken('%s: byte stores are not sequential' % ENCODE)
            width = max(G.max().bit_length(), 1)
            bits = Bits(fn, lambda f, x: 'cp' if x.get('k') == 'var' and x.get('d') == d_cp else None, {'cp': width})
            ok, why = len(ss) == n, '%d bytes stored for %s, UTF-8 needs %d' % (len(ss), G.fmt(), n)
            if ok:
                for j, s in enumerate(ss):
                    val = s['args'][-1] if s.get('k') == 'call' else s['rhs']
                    vec = _strip_cast_bits(fn, bits, val)[:8]
                    if j == 0:
                        lead, nb = UTF8_LEADBITS[n]
                        want = tuple(('cp', 6 * (n - 1) + i) if (i < nb and 6 * (n - 1) + i < width) else ((lead >> i) & 1) for i in range(8))
                    else:
                        sh = 6 * (n - 1 - j)
                        want = tuple(('cp', sh + i) if (i < 6 and sh + i < width) else ((0x80 >> i) & 1 if i >= 6 else ZERO) for i in range(8))
                    if vec != want:
                        ok, why = False, 'byte %d of the %d-byte form is %s, not the UTF-8 byte for these code points' % (j + 1, n, fn.expr(val))
                        break
            R.check(ok, rule, '%s#bytes:%d' % (ENCODE, n), site, why)
        R.check(seen == CODEPOINTS, rule, ENCODE + '#covers-all-code-points', fn.site, 'no bytes are stored for %s' % (CODEPOINTS - seen).fmt())


def _strip_cast_bits(fn, bits, nid):
    """bit vector of a stored byte; an explicit cast to char only truncates."""
    n = fn.sn(nid)
    while n is not None and n.get('k') in ('cast', 'wrap') and 'sub' in n:
        if n.get('k') == 'cast' and n.get('ck') not in ('IntegralCast', 'NoOp'):
            break
        n = fn.nodes.get(fn.strip(n['sub']))
    if n is None:
        raise Broken('stored value not recognised')
    return bits.eval(n['id'])


def _n3_length_table(fb, R):
    rule = 'N3-utf8-length-table'
    fn = one(fb, SEQLEN)
    if len(fn.params) != 1:
        raise Broken('%s: expected one parameter' % SEQLEN)
    d = fn.params[0]['d']
    got = {}
    for n in fn.all_nodes():
        if n.get('k') == 'return' and 'sub' in n:
            v = fn.const_value(n['sub'])
            if v is None:
                raise Broken('%s: non-constant return value' % SEQLEN)
            got[v] = got.get(v, EMPTY) | var_guard_set(fn, n['id'], d, ISet.span(0, 255))
    for length, S in sorted(UTF8_LEAD.items()):
        g = got.get(length, EMPTY)
        R.check(g == S, rule, '%s#length:%d' % (SEQLEN, length), fn.site,
                'returns %d for first bytes %s; the UTF-8 lead byte table says %s' % (length, g.fmt(), S.fmt()))
    extra = [k for k in got if k not in UTF8_LEAD and got[k]]
    R.check(not extra, rule, SEQLEN + '#no-other-length', fn.site, 'returns lengths %s that UTF-8 does not have' % extra)
    # the caller passes a value restricted to 8 bits
    fd = one(fb, DECODE)
    c = list(fd.calls(qname=SEQLEN))
    if len(c) != 1:
        raise Broken('%s: expected one call of %s' % (DECODE, SEQLEN))
    res = unique_def_resolver(fd)
    b = Bits(fd, lambda f, x: 'b' if x.get('k') == 'unop' and x.get('op') == '*' and (int_type(x.get('t')) or (0, 0))[1] == 8 else None, {'b': 8}, res)
    try:
        vec = b.eval(c[0]['args'][0])
        ok = all(x == ZERO for x in vec[8:])
    except Unsupported:
        ok = False
    R.check(ok, rule, DECODE + '#first-byte-is-8-bit', fd.loc(c[0]['id']), 'the value classified by utf8_sequence_length must be one byte (0..255)')


def _n2_u2_decoder(fb, R):
    fn = one(fb, DECODE)
    rule = 'N2-utf8-decode-bounded'
    # anchors: it (local pointer initialised from *begin), length (local initialised from utf8_sequence_length), cp
    c = list(fn.calls(qname=SEQLEN))
    if len(c) != 1:
        raise Broken('%s: expected one call of %s' % (DECODE, SEQLEN))
    d_len = d_it = None
    for n in fn.all_nodes():
        if n.get('k') == 'decl':
            for v in n['vars']:
                if isinstance(v.get('init'), int):
                    if fn.strip(v['init']) == c[0]['id'] or c[0]['id'] in fn.subtree(v['init']):
                        d_len = v['d']
                    elif v['tC'].endswith('*') and fn.root_var(v['init']) is not None and fn.root_var(v['init'])[0] == 'var' \
                            and fn.root_var(v['init'])[1] == fn.params[0]['d']:
                        d_it = v['d']
    if d_len is None or d_it is None:
        raise Broken('%s: length / iterator locals not recognised' % DECODE)
    d_end = fn.params[1]['d']
    sw = [b for b in fn.blocks.values() if b.get('termcls') == 'SwitchStmt']
    if len(sw) != 1 or not is_var(fn, sw[0]['cond'], d_len):
        raise Broken('%s: expected one switch over the sequence length' % DECODE)
    sw = sw[0]
    # G9a: length == 0 -> throw ; distance(it, end) < length -> throw ; both dominate the switch
    zero_ok = short_ok = False
    for (C, group, t, f, X) in decisions(fn):
        n = fn.sn(C)
        if n is None or n.get('k') != 'binop':
            continue
        doms = X in fn.dominators().get(sw['id'], ())
        if n['op'] == '==' and ((is_var(fn, n['lhs'], d_len) and fn.const_value(n['rhs']) == 0) or (is_var(fn, n['rhs'], d_len) and fn.const_value(n['lhs']) == 0)):
            zero_ok = doms and t is not None and ends_in_throw(fn, t)
        if n['op'] in ('<', '>'):
            a, b = (n['lhs'], n['rhs']) if n['op'] == '<' else (n['rhs'], n['lhs'])
            dist = fn.sn(a)
            if dist is not None and dist.get('k') == 'call' and dist.get('q') == 'std::distance' and is_var(fn, b, d_len):
                aa = dist.get('args', [])
                if len(aa) == 2 and is_var(fn, aa[0], d_it) and fn.root_var(aa[1]) == ('var', d_end, fn.params[1]['name']):
                    # `it` not yet advanced at this point
                    advanced = any(fn.elem_dominates(m, C) or path_search(fn, m, lambda e: e == C, lambda e: False) for m in modifications(fn, d_it))
                    short_ok = doms and t is not None and ends_in_throw(fn, t) and not advanced
            elif dist is not None and dist.get('k') == 'binop' and dist['op'] == '-' and is_var(fn, b, d_len):
                if fn.root_var(dist['lhs']) == ('var', d_end, fn.params[1]['name']) and is_var(fn, dist['rhs'], d_it):
                    advanced = any(path_search(fn, m, lambda e: e == C, lambda e: False) for m in modifications(fn, d_it))
                    short_ok = doms and t is not None and ends_in_throw(fn, t) and not advanced
    R.check(zero_ok, rule, DECODE + '#invalid-lead-byte-throws', fn.site, 'a sequence length of 0 (invalid lead byte) must throw before the bytes are read')
    R.check(short_ok, rule, DECODE + '#short-input-throws', fn.site,
            'the test `distance(it, end) < length` with a throwing true edge must dominate the switch that reads the continuation bytes')
    # G9b + U2: per case
    # cp: the local that is returned
    rets = [n for n in fn.all_nodes() if n.get('k') == 'return' and 'sub' in n]
    if len(rets) != 1 or fn.sn(rets[0]['sub']) is None or fn.sn(rets[0]['sub']).get('k') != 'var':
        raise Broken('%s: expected `return cp`' % DECODE)
    d_cp = fn.sn(rets[0]['sub'])['d']
    init_cp, decl_cp = local_init(fn, d_cp)
    if init_cp is None:
        raise Broken('%s: code point accumulator has no initialiser' % DECODE)
    cases = {}
    for s in sw['succs']:
        if s is None:
            continue
        lab = fn.blocks[s].get('label', {})
        if 'case' in lab:
            v = fn.const_value(lab['case'])
            if v is None:
                raise Broken('%s: non-constant case label' % DECODE)
            cases[v] = s
    for n_bytes in (1, 2, 3, 4):
        key = '%s#case:%d' % (DECODE, n_bytes)
        if n_bytes not in cases:
            R.bad(rule, key, fn.site, 'no case for sequence length %d' % n_bytes)
            continue
        blk = fn.blocks[cases[n_bytes]]
        if len(fn.succs(blk['id'])) != 1:
            raise Broken('%s: case %d is not straight-line code' % (DECODE, n_bytes))
        # symbolic walk: count advances, evaluate assignments to cp with input bytes b0..b3
        k = 0
        env = {}
        leafk = {'k': 0}

        def leaf(f, x):
            if x.get('k') == 'unop' and x.get('op') == '*' and is_var(f, x['sub'], d_it):
                return 'b%d' % leafk['k']
            return None
        bits = Bits(fn, leaf, {'b0': 8, 'b1': 8, 'b2': 8, 'b3': 8, 'b4': 8, 'b5': 8}, None, env=env)
        env[d_cp] = bits.eval(init_cp)
        reads_max = 0
        ok_shape = True
        for e in blk['elems']:
            x = fn.nodes[e]
            if x.get('k') == 'unop' and x['op'] in ('++', '--') and is_var(fn, x['sub'], d_it):
                if x['op'] == '--':
                    ok_shape = False
                leafk['k'] += 1
            elif x.get('k') == 'unop' and x['op'] == '*' and is_var(fn, x['sub'], d_it):
                reads_max = max(reads_max, leafk['k'])
            elif x.get('k') == 'assign':
                l = fn.sn(x['lhs'])
                if l is not None and l.get('k') == 'var' and l['d'] == d_cp:
                    rhs = bits.eval(x['rhs'])
                    if x['op'] == '=':
                        env[d_cp] = rhs
                    elif x['op'] == '+=':
                        env[d_cp] = bits.binop('+', env[d_cp], rhs)
                    elif x['op'] == '|=':
                        env[d_cp] = bits.binop('|', env[d_cp], rhs)
                    else:
                        raise Broken('%s: unsupported update %s of the accumulator' % (DECODE, x['op']))
                elif l is not None and l.get('k') == 'var' and l['d'] == d_it:
                    ok_shape = False
        R.check(ok_shape and reads_max <= n_bytes - 1, rule, key + '#reads-within-length', fn.loc(blk['elems'][0]) if blk['elems'] else fn.site,
                'case %d reads the byte at offset %d; only offsets 0..%d are covered by the length check' % (n_bytes, reads_max, n_bytes - 1))
        R.check(leafk['k'] == n_bytes - 1, rule, key + '#advances', fn.loc(blk['elems'][0]) if blk['elems'] else fn.site,
                'case %d advances the iterator %d times; it must advance %d times (one more advance follows the switch)' % (n_bytes, leafk['k'], n_bytes - 1))
        # U2 assembly
        want = [ZERO] * W
        if n_bytes == 1:
            for i in range(8):
                want[i] = ('b0', i)
        else:
            _lead, nb = UTF8_LEADBITS[n_bytes]
            for j in range(n_bytes):
                sh = 6 * (n_bytes - 1 - j)
                for i in range(nb if j == 0 else 6):
                    want[sh + i] = ('b%d' % j, i)
        got = env[d_cp]
        if n_bytes == 1:
            # lead byte < 0x80: bit 7 is known to be zero on this path
            got = tuple(ZERO if b == ('b0', 7) else b for b in got)
            want[7] = ZERO
        R.check(tuple(want) == got, 'U2-utf8-decode-assembly', key, fn.loc(blk['elems'][0]) if blk['elems'] else fn.site,
                'case %d assembles %s; UTF-8 needs %s' % (n_bytes, _fmt_vec(got), _fmt_vec(tuple(want))))
    # after the switch: exactly one advance, then *begin = it
    after = [m for m in modifications(fn, d_it) if fn.nodes[m].get('k') == 'unop' and fn.nodes[m]['op'] == '++'
             and fn.positions()[m][0] not in cases.values() and sw['id'] in fn.dominators().get(fn.positions()[m][0], ())]
    stores = [n for n in fn.all_nodes() if n.get('k') == 'assign' and n['op'] == '=' and fn.root_var(n['lhs']) == ('var', fn.params[0]['d'], fn.params[0]['name'])
              and fn.root_var(n['rhs']) is not None and fn.root_var(n['rhs'])[:2] == ('var', d_it)]
    ok = len(after) == 1 and len(stores) == 1 and fn.elem_dominates(after[0], stores[0]['id'])
    R.check(ok, rule, DECODE + '#consumes-length-bytes', fn.site,
            'after the switch the iterator must be advanced exactly once more and stored back through the begin pointer')


def _fmt_vec(vec):
    out = []
    i = 0
    while i < len(vec):
        b = vec[i]
        if isinstance(b, tuple):
            j = i
            while j + 1 < len(vec) and isinstance(vec[j + 1], tuple) and vec[j + 1][0] == b[0] and vec[j + 1][1] == vec[j][1] + 1:
                j += 1
            out.append('bits %d..%d <- %s[%d..%d]' % (i, j, b[0], b[1], vec[j][1]))
            i = j + 1
        else:
            if b == ONE:
                out.append('bit %d = 1' % i)
            i += 1
    return '{' + '; '.join(out) + '}'


def _n4_end(fb, R):
    rule = 'N4-end-is-strlen'
    n = 0
    for fn in fb.functions:
        for c in fn.calls(qname=DECODE):
            n += 1
            key = '%s#end-argument' % fn.q
            d_data = next((p['d'] for p in fn.params if p['tC'].replace(' ', '') == 'constchar*'), None)
            a0 = fn.sn(c['args'][0])
            ok = False
            why = 'the end pointer given to next_utf8_codepoint must be `data + strlen(data)` of the string being read'
            if d_data is not None and a0 is not None and a0.get('k') == 'unop' and a0['op'] == '&' and is_var(fn, a0['sub'], d_data):
                e = fn.sn(c['args'][1])
                if e is not None and e.get('k') == 'var' and e.get('vk') == 'local' and never_modified(fn, e['d']):
                    init, decl = local_init(fn, e['d'])
                    x = fn.sn(init) if init is not None else None
                    if x is not None and x.get('k') == 'binop' and x['op'] == '+':
                        sides = [(x['lhs'], x['rhs']), (x['rhs'], x['lhs'])]
                        for (p, l) in sides:
                            ln = fn.sn(l)
                            if is_var(fn, p, d_data) and ln is not None and ln.get('k') == 'call' and ln.get('q') in ('strlen', 'std::strlen') \
                                    and ln.get('args') and is_var(fn, ln['args'][0], d_data):
                                # taken before the cursor moves
                                moved = any(path_search(fn, m, lambda el: el == decl, lambda el: False) for m in modifications(fn, d_data))
                                ok = not moved
                                if moved:
                                    why = 'the end pointer is computed after the cursor was moved'
            R.check(ok, rule, key, fn.loc(c['id']), why)
            # the loop that decodes runs while cursor != end
            heads = [b for b in fn.blocks.values() if b.get('termcls') in ('WhileStmt', 'ForStmt') and 'cond' in b
                     and any(fn.in_range(c['id'], l['b'], l['e']) and fn.in_range(b['cond'], l['b'], l['e']) for l in fn.loops)]
            okc = False
            e = fn.sn(c['args'][1])
            for h in heads:
                cn = fn.sn(h['cond'])
                if cn is not None and cn.get('k') == 'binop' and cn['op'] in ('!=', '<') and e is not None and e.get('k') == 'var':
                    if is_var(fn, cn['lhs'], d_data) and is_var(fn, cn['rhs'], e['d']):
                        okc = True
                    if cn['op'] == '!=' and is_var(fn, cn['rhs'], d_data) and is_var(fn, cn['lhs'], e['d']):
                        okc = True
            R.check(okc, rule, '%s#loop-until-end' % fn.q, fn.loc(c['id']), 'the decoding loop must run while the cursor has not reached that end pointer')
    if n == 0:
        raise Broken('no caller of %s found' % DECODE)


# ================================================================================================ XML

def _x3_chunks(fb, R):
    """expat delivers the character data of an element in several callbacks (one per entity / character reference and
    one per run of text between them -- exactly what append_xml_encoded_string produces): the collector must append."""
    rule = 'X3-xml-text-chunks-appended'
    fns = fb.fns(NS + 'XMLParser::characters')
    if not fns:
        raise Broken('XMLParser::characters not found')
    for fn in fns:
        d_text = next((p['d'] for p in fn.params if '*' in p['tC']), None)
        if d_text is None:
            raise Broken('%s: text parameter not recognised' % fn.q)
        uses = []
        for n in fn.all_nodes():
            if n.get('k') == 'call' and n.get('rcls') == 'std::basic_string' and any(a is not None and is_var(fn, a, d_text) for a in n.get('args', [])):
                uses.append(n)
        if not uses:
            raise Broken('%s: the character data is not stored in a string' % fn.q)
        for n in uses:
            r = fn.sn(n['recv']) if n.get('recv') is not None else None
            name = r.get('name', '?') if r is not None else '?'
            R.check(n.get('q') in ('std::basic_string::append', 'std::basic_string::operator+='), rule, '%s#%s' % (fn.q, name), fn.loc(n['id']),
                    'the character data chunk is stored with %s: every chunk overwrites the text collected so far, so a text that contained '
                    'an escaped character comes back as its last piece only' % n.get('q'))


def xml_rules(fb, R):
    for rule in (_x1_table, _x3_chunks):
        try:
            rule(fb, R)
        except (Broken, Unsupported) as e:
            R.broken('%s: %s' % (rule.__name__, e))


def _xml_reference_value(lit):
    """code point denoted by an XML reference literal, or None."""
    if len(lit) < 4 or lit[0] != '&' or lit[-1] != ';':
        return None
    body = lit[1:-1]
    if body in XML_ENTITIES:
        return XML_ENTITIES[body]
    if body.startswith('#x') and len(body) > 2 and all(c in '0123456789abcdefABCDEF' for c in body[2:]):
        return int(body[2:], 16)
    if body.startswith('#') and len(body) > 1 and body[1:].isdigit():
        return int(body[1:])
    return None


def _tested_null(fn, cond):
    """(expression id, True if the condition holds when that pointer expression is non-null) for `e`, `!e`, `e != nullptr`, `e == nullptr`"""
    n = fn.sn(cond)
    if n is None:
        return None
    if n.get('k') == 'unop' and n.get('op') == '!':
        r = _tested_null(fn, n['sub'])
        return (r[0], not r[1]) if r else None
    if n.get('k') == 'binop' and n.get('op') in ('==', '!='):
        for a, b in ((n['lhs'], n['rhs']), (n['rhs'], n['lhs'])):
            y = fn.sn(b)
            if y is not None and (y.get('null') or fn.const_value(b) == 0):
                return fn.strip(a), n['op'] == '!='
        return None
    return n['id'], True


def _bulk_appends(fn, d_out, d_data):
    """{write node id: (ISet of bytes that pass through it unescaped, explanation)} for appends of the whole remaining input
    (`out.append(data)`, `out += data`).  A dominating scan `strpbrk(data, "set")` that found nothing (or `strcspn(data, "set")`
    compared equal to `strlen(data)`) removes the bytes of its literal set; an unguarded bulk append passes every byte."""
    res = unique_def_resolver(fn)
    out = {}
    for (n, kind) in string_out_calls(fn, d_out):
        args = [a for a in n.get('args', []) if a is not None]
        if kind != 'member' or n.get('q') not in STR_APPENDERS + ('std::basic_string::assign',) or len(args) != 1 or not is_var(fn, args[0], d_data):
            continue
        passes = ISet.span(1, 255)
        why = 'no scan of the input for special characters guards it'
        for (c, sense, _X) in guards(fn, n['id']):
            t = _tested_null(fn, c)
            if t is None:
                continue
            e, nonnull = t
            x = fn.nodes.get(e)
            if x is not None and x.get('k') == 'var' and x.get('vk') == 'local':
                r = res(fn, x)
                x = fn.sn(r) if r is not None else None
            if x is None or x.get('k') != 'call' or x.get('q') not in ('strpbrk', 'std::strpbrk'):
                continue
            cargs = [a for a in x.get('args', []) if a is not None]
            lit = string_literal(fn, cargs[1]) if len(cargs) == 2 else None
            if lit is None or not is_var(fn, cargs[0], d_data) or nonnull == sense:
                continue            # not a "nothing found" edge of a scan of this input with a literal set
            if any(forward_reach(fn, x['id'], m) and forward_reach(fn, m, n['id']) for m in modifications(fn, d_data)):
                continue            # the cursor moved between the scan and the append
            S = ISet.of(*[ord(ch) & 0xff for ch in lit]) if lit else EMPTY
            passes = passes - S
            why = 'the guarding scan %s does not look for it' % fn.expr(x['id'])
        out[n['id']] = (passes, why)
    return out


def _x1_table(fb, R):
    """Decided on the byte sets of the writes, not on the statement form: for every byte value b the dataflow gives
    the writes to `out` that run in an iteration in which the byte under the cursor is b (switch, if-chain, named copy
    of the byte, early continue are all the same to it)."""
    rule = 'X1-xml-entity-table'
    fn = one(fb, XMLENC)
    d_out = next((p['d'] for p in fn.params if 'basic_string' in p['tC'] and p['tC'].endswith('&')), None)
    if d_out is None:
        raise Broken('%s: parameters not recognised' % XMLENC)
    d_data = next((p['d'] for p in fn.params if p['tC'].replace(' ', '') == 'constchar*'), None)
    bulk = _bulk_appends(fn, d_out, d_data) if d_data is not None else {}

    def classify(text):
        lits, copies = [], []
        for (n, kind) in string_out_calls(fn, d_out):
            if n['id'] in bulk:
                continue
            args = n.get('args', [])
            if kind != 'member' or n.get('q') not in STR_APPENDERS or len(args) != 1:
                raise Broken('%s: unrecognised write to the output string: %s' % (XMLENC, fn.expr(n['id'])))
            S, _u = char_guard_set(fn, n['id'], text)
            lit = string_literal(fn, args[0])
            if lit is not None:
                lits.append((n, S, lit))
            elif is_current_char(fn, args[0], n['id'], text):
                copies.append((n, S))
            elif derived_helper(fn, args[0], n['id'], text) is not None:
                # `const char* e = entity_for(c); if (e) out += e;` -- the helper's returns are the replacement table
                hs, hu = (helper_returns(derived_helper(fn, args[0], n['id'], text), sg) for sg in (True, False))
                if hs != hu:
                    raise Broken('%s: helper table depends on the signedness of plain char' % XMLENC)
                for (Sr, kind2, lit2) in hs:
                    if not (S & Sr):
                        continue
                    if kind2 != 'lit':
                        raise Broken('%s: a helper result that is not a string literal is appended for %s' % (XMLENC, (S & Sr).fmt()))
                    lits.append((n, S & Sr, lit2))
            else:
                raise Broken('%s: write of something that is neither a literal nor the byte being processed: %s' % (XMLENC, fn.expr(n['id'])))
        if not lits or not copies:
            raise Broken('%s: expected replacement literals and a verbatim copy (found %d/%d)' % (XMLENC, len(lits), len(copies)))
        return lits, copies
    # the byte processed in one iteration: the byte under the cursor, or a local that took it (`const char c = *data++;`)
    text = cursor_text(fn)
    try:
        lits, copies = classify(text)
    except Broken as first:
        names = sorted(input_byte_locals(fn, text))
        if len(names) != 1:
            raise first
        lits, copies = classify(names[0])

    def check_byte(ch, key):
        ws = [(n, S, lit) for (n, S, lit) in lits if ch in S]
        cs = [(n, S) for (n, S) in copies if ch in S]
        site = fn.loc(ws[0][0]['id']) if ws else (fn.loc(cs[0][0]['id']) if cs else fn.site)
        if cs:
            R.bad(rule, key, site, 'no replacement for %s: the character is copied unescaped into XML attribute values / text' % _ch(ch))
        elif len(ws) != 1:
            R.bad(rule, key, site, 'for %s %d replacement literals are appended in one iteration (%s); exactly one is needed (fall-through?)'
                  % (_ch(ch), len(ws), ', '.join(repr(w[2]) for w in ws)))
        else:
            v = _xml_reference_value(ws[0][2])
            R.check(v == ch, rule, key, site, 'for %s the literal %r is appended, which %s'
                    % (_ch(ch), ws[0][2], 'is not a well-formed XML reference' if v is None else 'denotes %s' % _ch(v)))
    escaped = EMPTY
    for (_n, S, _l) in lits:
        escaped = escaped | S
    bulk_leak = {}
    for wid, (passes, why) in bulk.items():
        # a bulk append of the (rest of the) input is a pass-through for every byte the guarding scan does not look for
        for ch in ((escaped | ISet.of(*XML_STRUCTURAL)) & passes).values(300):
            bulk_leak.setdefault(ch, (wid, why))
        per_char = [n for (n, _S, _l) in lits] + [n for (n, _S) in copies]
        if any(forward_reach(fn, wid, n['id']) for n in per_char):
            raise Broken('%s: the per-character loop can run after a bulk append of the same input' % XMLENC)
    for ch in sorted(XML_STRUCTURAL):
        if ch in bulk_leak:
            wid, why = bulk_leak[ch]
            R.bad(rule, '%s#case:%s' % (XMLENC, _ch(ch)), fn.loc(wid),
                  'the bulk append %s copies %s unescaped: %s' % (fn.expr(wid), _ch(ch), why))
        else:
            check_byte(ch, '%s#case:%s' % (XMLENC, _ch(ch)))
    replaced = EMPTY
    for (_n, S, _l) in lits:
        replaced = replaced | S
    for ch in (replaced - ISet.of(*XML_STRUCTURAL)).values(300):
        if ch != 0:
            check_byte(ch, '%s#case:%s' % (XMLENC, _ch(ch)))
    # every other non-NUL byte is copied exactly once
    rest = ISet.span(1, 255) - replaced
    bad = None
    for b in rest.values(300):
        k = sum(1 for (_n, S) in copies if b in S)
        if k != 1:
            bad = 'byte %s is copied %d times per iteration' % (_ch(b), k)
            break
    R.check(bad is None, rule, XMLENC + '#default-copies', fn.loc(copies[0][0]['id']), bad)


# ================================================================================================ who-must-call

DATA_ACCESSOR_CLASSES_EXCLUDE = ('osmium::io::', 'osmium::detail::', 'osmium::util::', 'osmium::memory::Buffer', 'osmium::thread::')


def _is_object_string(n):
    """call of a const char*-returning member function of an OSM data class (user(), key(), value(), role(), text())"""
    if n.get('k') != 'call' or 'q' not in n or not n.get('rcls'):
        return False
    if n.get('t', '').replace(' ', '') != 'constchar*':
        return False
    rc = n['rcls']
    return rc.startswith('osmium::') and not rc.startswith(DATA_ACCESSOR_CLASSES_EXCLUDE)


def _consumer(fn, nid):
    """nearest enclosing call / construct / index / deref / decl that consumes the value of node nid."""
    pm = fn.parent_map()
    x = nid
    while x in pm:
        x = pm[x]
        n = fn.nodes[x]
        k = n.get('k')
        if k in ('wrap', 'icast'):
            continue
        if k == 'cast' and n.get('ck') in ('NoOp', 'LValueToRValue'):
            continue
        if k == 'member' and n.get('method'):
            # callee expression of a member call: the call itself (same receiver expression) is the consumer
            if x in pm:
                continue
            for c in fn.all_nodes():
                if c.get('k') == 'call' and c.get('recv') == n.get('base') and c.get('q') == n.get('q'):
                    return c
            return n
        return n
    return None


def _string_flow(fn, nid, encoders, depth):
    """Where does the const char* value of node nid go?  ('escaped'|'read'|'leak', description).  Locals initialised with
    it are followed through all their uses."""
    cons = _consumer(fn, nid)
    if cons is None:
        return 'leak', 'nothing'
    k = cons.get('k')
    if k == 'call' and cons.get('q') in encoders:
        return 'escaped', cons['q']
    if k == 'index' or (k == 'unop' and cons.get('op') == '*'):
        return 'read', 'a character read'
    if k == 'call' and cons.get('q') in ('strlen', 'std::strlen', 'strcmp', 'std::strcmp'):
        return 'read', cons['q']
    if k == 'binop' and cons.get('op') in ('==', '!='):
        return 'read', 'a pointer comparison'
    if k == 'decl' and depth < 3:
        d = next((v['d'] for v in cons['vars'] if isinstance(v.get('init'), int) and nid in fn.subtree(v['init'])), None)
        if d is None:
            return 'leak', 'a declaration'
        worst = 'read'
        what = 'local variable'
        for u in fn.all_nodes():
            if u.get('k') == 'var' and u.get('d') == d:
                v, w = _string_flow(fn, u['id'], encoders, depth + 1)
                if v == 'leak':
                    return v, w
                if v == 'escaped':
                    worst, what = 'escaped', w
        return worst, what
    return 'leak', cons.get('q', k)


def sink_rules(fb, R):
    try:
        _sinks(fb, R, 'X2-xml-strings-escaped', (NS + 'XMLOutputBlock', NS + 'XMLOutputFormat'), XMLENC, None)
        # OPL: the class's own forwarding member must forward to the escaper
        fw = NS + 'OPLOutputBlock::append_encoded_string'
        _sinks(fb, R, 'O7-opl-strings-escaped', (NS + 'OPLOutputBlock',), WR, fw)
    except (Broken, Unsupported) as e:
        R.broken('sink rules: %s' % e)


def _forwards(fb, fwq, encq):
    """member `void f(const char* data)` whose body passes its parameter to encq as the data argument"""
    fns = fb.fns(fwq)
    if not fns:
        return False
    for fn in fns:
        calls = list(fn.calls(qname=encq))
        if len(calls) != 1 or not fn.params:
            return False
        if not any(a is not None and is_var(fn, a, fn.params[0]['d']) for a in calls[0]['args'][1:]):
            return False
        if fn.blocks and any(len(fn.succs(b)) > 1 for b in fn.blocks):
            return False
    return True


def _sinks(fb, R, rule, classes, encq, fwq):
    encoders = {encq}
    if fwq is not None:
        ok = _forwards(fb, fwq, encq)
        R.check(ok, rule, fwq + '#forwards-to-escaper', (fb.fns(fwq)[0].site if fb.fns(fwq) else encq),
                '%s must pass its argument to %s on every path' % (fwq, encq))
        if ok:
            encoders.add(fwq)
    n = 0
    for fn in fb.functions:
        if fn.cls not in classes or fn.is_lambda:
            continue
        for c in list(fn.all_nodes()):
            if _is_object_string(c):
                n += 1
                key = '%s#%s' % (fn.q, c['q'])
                site = fn.loc(c['id'])
                verdict, what = _string_flow(fn, c['id'], encoders, 0)
                if verdict == 'escaped':
                    R.ok(rule, key, site)
                elif verdict == 'read':
                    # only single characters / the length are read (an emptiness guard): nothing is written, so this is not an
                    # obligation of its own -- the instance census must not depend on how a guard condition is spelled
                    R.note('%s: %s at %s is only read (%s)' % (rule, c['q'], site, what))
                else:
                    R.bad(rule, key, site, 'object string %s is handed to %s instead of %s: markup / delimiter characters reach the output unescaped'
                          % (c['q'], what, encq))
            elif c.get('k') == 'call' and c.get('q') in ('osmium::Options::get', 'osmium::io::Header::get', 'osmium::util::Options::get') and fn.kind != 'ctor':
                n += 1
                _option_string(fb, fn, R, rule, c, encoders, encq)
    if n == 0:
        raise Broken('%s: no object string accessor found in %s' % (rule, classes))


def _option_string(fb, fn, R, rule, c, encoders, encq):
    """std::string-valued header option: `.c_str()` straight into the escaper, or a local only written when it equals
    a markup-free literal."""
    name = next((fn.nodes[x]['str'] for a in c.get('args', []) if a is not None for x in fn.subtree(a)
                 if fn.nodes[x].get('k') == 'lit' and 'str' in fn.nodes[x]), '?')
    key = '%s#%s#%s' % (fn.q, c['q'], name)
    site = fn.loc(c['id'])
    cons = _consumer(fn, c['id'])
    if cons is not None and cons.get('k') == 'call' and cons.get('q', '').endswith(('::c_str', '::data')):
        c2 = _consumer(fn, cons['id'])
        R.check(c2 is not None and c2.get('k') == 'call' and c2.get('q') in encoders, rule, key, site,
                'header option is written without going through %s' % encq)
        return
    # bound to a local std::string?
    d = None
    for n in fn.all_nodes():
        if n.get('k') == 'decl':
            for v in n['vars']:
                if isinstance(v.get('init'), int) and c['id'] in fn.subtree(v['init']):
                    d = v['d']
    if d is None:
        R.bad(rule, key, site, 'header option value is used in an unrecognised way (neither escaped nor compared)')
        return
    bad = None
    for n in fn.all_nodes():
        if n.get('k') != 'var' or n.get('d') != d:
            continue
        cons = _consumer(fn, n['id'])
        if cons is None or cons.get('k') != 'call':
            bad = 'used outside a call'
            break
        q = cons.get('q', '')
        if q in ('std::operator==', 'std::operator!=') or q in encoders:
            continue
        if q in STR_APPENDERS:
            if not _guarded_by_safe_literals(fn, cons['id'], d):
                bad = 'appended to the output without escaping and without being compared to markup-free literals first'
                break
            continue
        if q.endswith(('::c_str', '::data')):
            c2 = _consumer(fn, cons['id'])
            if c2 is not None and c2.get('k') == 'call' and c2.get('q') in encoders:
                continue
        bad = 'handed to %s' % q
        break
    R.check(bad is None, rule, key, site, 'header option value is %s' % bad)


def _guarded_by_safe_literals(fn, nid, d):
    for (c, sense, _X) in guards(fn, nid):
        if not sense:
            continue
        if _safe_disjunction(fn, c, d):
            return True
    return False


def _safe_disjunction(fn, c, d):
    n = fn.sn(c)
    if n is None:
        return False
    if n.get('k') == 'binop' and n['op'] == '||':
        return _safe_disjunction(fn, n['lhs'], d) and _safe_disjunction(fn, n['rhs'], d)
    if n.get('k') == 'call' and n.get('q') == 'std::operator==' and len(n.get('args', [])) == 2:
        a, b = n['args']
        for (v, l) in ((a, b), (b, a)):
            lit = string_literal(fn, l, resolve_locals=False)
            if is_var(fn, v, d) and lit is not None and not any((ord(ch) & 0xff) in XML_STRUCTURAL for ch in lit):
                return True
    return False


# ================================================================================================ exceptions reach the caller

def exception_rules(fb, R):
    """EXCFLOW: a cut-off / invalid UTF-8 sequence is reported by a throw in the decoder.  Every function from which that
    throw is reachable through resolved calls must let it pass: it is not noexcept, or the call is inside a try whose
    handlers cover the thrown types."""
    rule = 'E1-escaper-exceptions-reach-caller'
    try:
        srcs = [f for q in (DECODE, SEQLEN, WR, DBG, XMLENC) for f in fb.fns(q)]
        thrown = {}     # usr -> set of frozenset(type + bases) that can leave the function
        for f in srcs:
            for n in f.all_nodes():
                if n.get('k') == 'throw' and not n.get('rethrow') and not f.enclosing_tries(n['id']):
                    thrown.setdefault(f.usr, set()).add((n.get('tt'), frozenset([n.get('tt')] + list(n.get('bases', [])))))
        if not thrown:
            raise Broken('no throw found in the escaping code (next_utf8_codepoint)')

        def uncaught(f, c, types):
            """thrown types of a callee that are not covered by a try around call c in f"""
            left = set(types)
            for t in f.enclosing_tries(c['id']):
                for h in t['handlers']:
                    if h.get('all'):
                        return set()
                    left = {ty for ty in left if h.get('typeq') not in ty[1] and h.get('type') not in ty[1]}
            return left
        changed = True
        via = {}
        while changed:
            changed = False
            for f in fb.functions:
                for c in f.calls():
                    ts = thrown.get(c.get('u'))
                    if not ts:
                        continue
                    left = uncaught(f, c, ts)
                    if left - thrown.get(f.usr, set()):
                        thrown.setdefault(f.usr, set()).update(left)
                        via.setdefault(f.usr, c)
                        changed = True
        n = 0
        for f in fb.functions:
            if f.usr not in thrown or not thrown[f.usr]:
                continue
            n += 1
            c = via.get(f.usr)
            types = sorted({str(t[0]) for t in thrown[f.usr]})
            R.check(not f.noexcept, rule, '%s#lets-escaper-exceptions-pass' % f.q, f.site,
                    '%s is noexcept but %s can throw %s for a cut-off / invalid UTF-8 sequence (e.g. "caf\\xc3"): the error ends in '
                    'std::terminate instead of reaching the caller' % (f.q, ('its callee ' + c['q']) if c is not None else 'it', ', '.join(types)))
        if n == 0:
            raise Broken('no function reaches the decoder throw')
    except (Broken, Unsupported) as e:
        R.broken('E1: %s' % e)


# ================================================================================================ cursor advance

def advance_rules(fb, R):
    rule = 'N1-cursor-advance-guarded'
    for q in (PSTR, PESC, XMLENC):
        try:
            fn = one(fb, q)
            text = cursor_text(fn)
            n = 0
            for m in lvalue_modifications(fn, cursor_lvalue(fn, text)):
                x = fn.nodes[m]
                if x.get('k') == 'unop' and x['op'] == '++':
                    n += 1
                    S, _u = char_guard_set(fn, m, text)
                    key = '%s#%s' % (q, _advance_role(fn, m, S))
                    R.check(0 not in S, rule, key, fn.loc(m),
                            'the cursor is advanced although the byte under it may be the terminating NUL (bytes possible here: %s)' % S.fmt())
                elif x.get('k') == 'unop' and x['op'] == '&':
                    continue      # handed to a callee that is checked on its own (opl_parse_escaped)
                elif x.get('k') == 'assign' and x['op'] == '=':
                    continue      # (re)initialisation
                else:
                    R.bad(rule, '%s#other-cursor-change' % q, fn.loc(m), 'the cursor is changed by %s' % fn.expr(m))
            if n == 0:
                raise Broken('%s: no cursor advance found' % q)
        except (Broken, Unsupported) as e:
            R.broken('N1 %s: %s' % (q, e))


def _advance_role(fn, m, S):
    """stable role of a cursor advance: the (NUL-free part of the) byte set it is executed for."""
    return 'advance-on:%s' % _k(S - ISet.of(0))


# ================================================================================================ driver

def all_rules(fb, R):
    set_fact_base(fb)
    opl_writer_rules(fb, R)
    utf8_rules(fb, R)
    xml_rules(fb, R)
    sink_rules(fb, R)
    advance_rules(fb, R)
    exception_rules(fb, R)


def run(ctx):
    R = ctx.R
    configs = ['ndebug14'] if ctx.tier == 'quick' else ['ndebug14', 'debug14', 'ndebug17', 'debug17']
    for cfg in configs:
        fb = ctx.facts(['io_read', 'io_write'], cfg)
        all_rules(fb, R)
    # instance floors confirmed by reading the code (see the module docstring for what each instance is)
    R.expect('O1-passthrough-disjoint-delims', 10)   # verbatim-set inclusion + 9 delimiter sources of the reader
    R.expect('O2-escape-frame', 3)                   # partition, frame, frame bytes escaped
    R.expect('O3-hex-alphabet', 3)                   # 2 emitter call sites + frame vs section delimiters
    R.expect('O4-hex-digits-positional', 22)         # 2-digit emitter: 5, min-4 emitter: 17
    R.expect('O5-hex-length-within-reader-limit', 2)
    R.expect('O6-passthrough-verbatim', 1)
    R.expect('O8-escaped-value-is-codepoint', 2)     # both formatter calls
    R.expect('O7-opl-strings-escaped', 6)            # forwarder + key, value, user, role, changeset user
    R.expect('R1-unescape-accumulates-hex', 9)
    R.expect('R4-unescape-accepts-scalar-values', 2)
    # 25 today: decoder, 2 escapers, 2 forwarders, the OPL/debug write_* helpers and handler callbacks, osmium::apply*; the floor
    # tolerates helpers being inlined / merged
    R.expect('E1-escaper-exceptions-reach-caller', 12)
    R.expect('R3-verbatim-copy-excludes-structural', 8)  # introducer, writer frame, 3 separators after strings, 2 section sets, NUL
    R.expect('R2-utf8-encoder-table', 5)
    R.expect('X1-xml-entity-table', 9)               # 8 characters + default
    R.expect('X3-xml-text-chunks-appended', 1)
    R.expect('X2-xml-strings-escaped', 9)            # 7 object strings written + generator + xml_josm_upload (read-only uses are not instances)
    R.expect('N1-cursor-advance-guarded', 5)
    R.expect('N2-utf8-decode-bounded', 11)
    R.expect('N3-utf8-length-table', 7)
    R.expect('N4-end-is-strlen', 4)                  # OPL and debug escaper: end argument + loop condition
    R.expect('U2-utf8-decode-assembly', 4)


# ------------------------------------------------------------------------------------------------ positive examples
_POSITIVE = {}


def _selftest_all(fb, R):
    """all rules on the deliberately broken copies in selftest/positive/c14_escape.cpp (evaluated once per run)."""
    key = tuple(fb.units)
    if key not in _POSITIVE:
        from ..engine import Reporter
        sub = Reporter('C14')
        all_rules(fb, sub)
        _POSITIVE[key] = sub
    R.instances.update(_POSITIVE[key].instances)


SELFTESTS = [(rule, 'c14_escape.cpp', _selftest_all) for rule in (
    'O1-passthrough-disjoint-delims', 'O2-escape-frame', 'O3-hex-alphabet', 'O4-hex-digits-positional', 'O5-hex-length-within-reader-limit',
    'O6-passthrough-verbatim', 'O8-escaped-value-is-codepoint', 'O7-opl-strings-escaped', 'R1-unescape-accumulates-hex', 'R4-unescape-accepts-scalar-values', 'E1-escaper-exceptions-reach-caller', 'R3-verbatim-copy-excludes-structural', 'R2-utf8-encoder-table', 'X1-xml-entity-table',
    'X2-xml-strings-escaped', 'X3-xml-text-chunks-appended', 'N1-cursor-advance-guarded', 'N2-utf8-decode-bounded', 'N3-utf8-length-table', 'N4-end-is-strlen',
    'U2-utf8-decode-assembly')]
