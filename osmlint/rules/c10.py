"""C10 -- assembled areas are valid multipolygons: the structural clauses (PAIR + SORTED + ORDERTYPE-style worlds).

Every instance is keyed by what the property REQUIRES (qualified function + role), so a deleted construct shows up as a
violated instance.  Clause numbers refer to DESIGN.md section 5 "C10".

 [1] pipeline of BasicAssembler::create_rings (stages are found by ROLE, through the call closure of each call):
  P1-pipeline-order               segment sort < duplicate removal < intersection sweep < location-list sort < open-ring /
                                  split-location scan < ring building: every occurrence of a stage is dominated by the
                                  previous stage
  P1-accepting-path-runs-stage    no path from the entry to a return that may be true bypasses a stage
  P2-rejection-propagates         a rejecting result (intersection count != 0; false from the open-ring scan, the complex
                                  ring builder, the ring joiner) cannot reach a return that may be true -- in create_rings
                                  and in every bool helper between it and the function that found the problem
  P2-open-ring-returns-false      in a function that counts an open ring every return reachable afterwards is false
                                  (constant, or `<that counter> == 0`)
  P3-problem-counted-and-reported every increment of a problem counter of area_stats (identity of the incremented lvalue
                                  resolved through reference parameters, returned locals and lambda captures) sits in the
                                  same guarded region as a call of the matching ProblemReporter::report_* (only the
                                  reporter-null test, a complementary selector or an enclosing for-each may be added), and
                                  vice versa.  Table COUNTER_REPORTS is frozen from the repository.
 [2] SORTED (engine osmlint/sorted.py; the multi-return NodeRefSegment comparator is decided by G2 below)
  S1-search-key-agrees-with-sort-key   m_locations: the 3 binary searches use the key of the stable_sort; the two-argument
                                  slocation::location(list, default) used by the searches is proved to delegate to the
                                  one-argument accessor used by the sort for stored elements and to yield the probe for the
                                  default-constructed search value; xrings: equal_range / adjacent_find use the sort key;
                                  m_segments: operator== reads only what operator< orders by (see G2)
  S2-searched-after-sort          m_locations: sorted by a stage of create_rings that dominates every call reaching a search,
                                  insertions only before the sort, searching helpers are private and only called from the
                                  pipeline; local containers (xrings, outer_rings): the searched/scanned container is, at
                                  every call site, a local that was sorted (or returned by a function whose last action on
                                  it is the sort) with no insertion in between
  S3-sorted-storage-stays-sorted  nothing reachable from create_rings inserts into the segment vector; the key fields of
                                  NodeRefSegment (the two end points) are written by constructors only
  S4-nearest-ring-chosen          find_enclosing_ring returns the element with the greatest y of the sorted stack
                                  (descending sort <-> front(), ascending <-> back())
 geometric conventions that ARE comparison-only, decided for all coordinate values by symbolic interpretation of the
 library's own accessor / operator bodies over every order type of the coordinates (c10_util.SymExec):
  G1-segment-normal-form          NodeRefSegment(nr1, nr2): first() <= second() lexicographically and {first, second} =
                                  {nr1, nr2}
  G2-segment-order-primary-key    operator<(NodeRefSegment): decided by first().location() (x, then y) whenever those
                                  differ; equal segments (operator==) are never ordered; operator== is equality of both
                                  end points
  G3-sweep-prefilter-sound        every predicate that keeps find_intersections from testing a pair implies that the closed
                                  x- or y-ranges of the two segments are disjoint; a predicate that ends the inner loop
                                  (`break`) implies first(later).x > second(earlier).x, the only fact that holds for all
                                  later segments of the sort order (calculate_intersection counts touching interiors, so
                                  the ranges are closed: `>=` would skip T-crossings on vertical segments)
  G4-ray-crossing-interval        find_enclosing_ring, ray cast below `location`: a segment ENDING at the location is not
                                  counted (its cross product is identically 0 there), segments spanning the ray are, segments
                                  left/right of it and vertical ones are not, and of the two segments meeting in a vertex
                                  under the location exactly one is counted
 [3] rejection reaches the output
  R1-rings-added-only-after-success   add_rings_to_area is unreachable when create_rings() returned false, and dominated by it
  R2-create-area-result           create_area may return true after a false create_rings() only under
                                  AssemblerConfig::create_empty_areas
  R3-commit-only-on-success       Buffer::commit is unreachable after a false result; when the failing callee had already
                                  written into the buffer (constructs a builder) every path to the exit passes rollback
  R4-ring-roles-in-output         add_rings_to_area writes a ring of the ring list with the OuterRing builder and only under
                                  is_outer(), and the elements of ITS inner_rings() with the InnerRing builder, after it
 even-odd rule for duplicates
  D1-duplicates-cancel-in-pairs   the erase that follows an adjacent_find over the sorted segments / the ring stack removes
                                  exactly [it, it + 2)
 completeness inside the property's quantifier domain ("up to 100 touching points"; the number comes from the property
 record, not from the source)
  P4-valid-input-within-limits-is-assembled   with no problem detected (intersection count 0, every rejecting step returned
                                  true, segments left) and n <= 100 split locations create_rings cannot reach a false
                                  return; comparisons of split_locations.size() with constants are decided over all
                                  order types of {n, constants}.  (The give-up path itself is silent -- no counter, no
                                  reporter call -- in the unchanged tree as well; that is the library's documented
                                  behaviour for n > 100, outside the property's domain, and therefore not a P3 instance.)
 ring orientation bookkeeping
  A1-ring-sum-matches-segment-directions   ProtoRing's sum is the sum of det() of its segments in their CURRENT direction:
                                  wherever a segment's det() is added to a ring (add_segment_back, the constructor, a ring
                                  emplaced in a container) the same segment is not reversed afterwards, and a ring method
                                  that reverses its own segments negates the sum on every path
  A2-reset-undoes-tentative-classification   every data member that the calls preceding ProtoRing::reset() (the tentative
                                  classification in join_connected_rings) write through ProtoRing methods -- the set is
                                  DERIVED from those writers (assignments, mutating calls on members, members of the own
                                  segments written through a NodeRefSegment method); orientation methods are excepted, A1
                                  keeps them consistent -- is put back to its initial state on every path through reset()
  A3-extremum-tracker-consistent  a guarded replacement `V.front() = c` / `V.back() = c` is decided by a strict comparison
                                  of c's key with the key of the element it replaces (same key function on both sides, any
                                  operand order, named locals followed), and the smallest / largest slot (and insertion
                                  at begin()) use opposite directions
  A4-classified-segments-marked-done   a function that adds segments to a ring AND asks find_enclosing_ring (the simple-case
                                  builder) marks every segment it adds direction-done on every path (the flag and its setter
                                  are derived: the bool member find_enclosing_ring reads through a const accessor of the
                                  scanned segment, and the NodeRefSegment method that assigns it true)
  A5-backtracking-state-restored  a recursive function (find_candidates) that pushes onto a container before the self-call
                                  (push dominates the call) and pops it after the call on some path pops it on EVERY normal
                                  path from the call to the exit / next push / next self-call (the visited-locations stack)
  S5-equal-group-skipped-entirely in the scan `it = adjacent_find(it, end)` of try_to_merge a new pair test is only reachable
                                  after some test showed that a cursor is at the end or that its key differs from the one it is
                                  compared with (or the cursor was re-positioned by an algorithm/helper): assuming "never at
                                  the end, keys never differ" no cycle through the adjacent_find may exist
  G6-scan-covers-location-group   find_enclosing_ring: every path from the entry into the backward scan loop takes an edge on
                                  which `current segment starts at the query location` is false (the condition is recognised
                                  semantically: SymExec over all order types shows it is equivalent to first() == location)
                                  or on which the pointer is the last segment of the list
 segments
  G5-segment-end-points-differ    a segment is stored in the segment vector only under guards that decide (for all
                                  coordinate values AND node ids, by SymExec) that the two end LOCATIONS differ -- the
                                  premise of G2/G3/G4 (strict normal form) and of "at least four points per ring";
                                  conversely no decided guard keeps a segment between two DIFFERENT locations from
                                  being stored

NOT decided (the bulk of the property): validity, orientation, nesting, even-odd coverage, permutation invariance; the
tie-break of NodeRefSegment::operator< (slopes: products of differences); calculate_intersection; the ring-joining
search; that slocation::item of a stored element never equals invalid_item (asserted by the code); m_split_locations is
only scanned linearly (std::find), there is no binary search on it to check; the adjacency scan over outer_rings compares
ring pointers although the stack is sorted by y (stack cancellation justified geometrically: whitelisted, order only).
"""
from .. import sorted as S
from ..c10_util import (CallIndex, Facts, Obj, Poly, SymExec, UNK, Unsupported, callee_bodies, calls_of, edge_filter, facts_for_result, guard_set, is_noreturn,
                        lazy_env, live, local_decl, pretty, product_worlds, reach_under, return_may_be_true, stat_fields, symbolic, tv)
from ..flow import describe_path, guards_of, path_search
from ..ordertype import INT32, Inexact, worlds

EXPLANATION = (
    'Decided: (1) stage order of BasicAssembler::create_rings (segment sort, duplicate removal, intersection sweep, location list, '
    'open-ring scan, ring building; stages found by role) and that no accepting return bypasses a stage or follows a rejecting '
    'result; every problem counter of area_stats is incremented exactly where the matching ProblemReporter callback is made; '
    '(2) SORTED: each binary search / adjacency scan of the assembler runs on a container sorted by the same key, after the sort, '
    'with no insertion in between; (3) add_rings_to_area / Buffer::commit are unreachable after a rejection and the buffer is rolled '
    'back; plus the comparison-only geometric conventions, decided for ALL coordinate values over order types: segment normal form, '
    'primary key of the segment order, soundness of the intersection-sweep prefilters (closed ranges), half-open x interval of the '
    'ray cast in find_enclosing_ring; duplicates cancel in pairs; outer/inner roles of the rings written by add_rings_to_area. NOT decided: geometric validity, orientation, nesting, coverage, permutation invariance, slope '
    'tie-break of the segment order, calculate_intersection, the ring-joining search.')
ASSUMPTIONS = ['std::sort / stable_sort / lower_bound / equal_range / adjacent_find behave per the standard',
               'coordinates are within the property\'s quantifier domain (no overflow in 64-bit arithmetic)',
               'the assembler classes instantiated by drivers/relarea.cpp (Assembler, AssemblerLegacy, GeomAssembler) are the users of BasicAssembler',
               'slocation::item of a stored element is never invalid_item (asserted by create_locations_list)']

KNOWN = []

NS = 'osmium::area::detail::'
BA = NS + 'BasicAssembler'
SL = NS + 'SegmentList'
NRS = NS + 'NodeRefSegment'
STATS = 'osmium::area::area_stats'
REPORTER = 'osmium::area::ProblemReporter'
CONFIG = 'osmium::area::AssemblerConfig'
BUFFER = 'osmium::memory::Buffer'

#: statistics counter -> reporter callbacks that must accompany it (frozen from the repository; one line each)
COUNTER_REPORTS = {
    'duplicate_nodes': ('report_duplicate_node',),
    'invalid_locations': ('report_invalid_location',),
    'duplicate_ways': ('report_duplicate_way',),
    'duplicate_segments': ('report_duplicate_segment',),
    'overlapping_segments': ('report_overlapping_segment',),
    'intersections': ('report_intersection',),
    'open_rings': ('report_ring_not_closed',),
    'wrong_role': ('report_role_should_be_outer', 'report_role_should_be_inner'),
    'ways_in_multiple_rings': ('report_way_in_multiple_rings',),
    'inner_with_same_tags': ('report_inner_with_same_tags',),
}
REPORT_COUNTER = {m: c for c, ms in COUNTER_REPORTS.items() for m in ms}
#: counters whose non-zero value must lead to rejection of the area (property statement)
REJECTING = ('intersections', 'open_rings')

#: adjacency scans whose equality is deliberately NOT a function of the sort key (one symbol, one reason)
ADJACENCY_NOT_BY_KEY = {
    BA + '::rings_stack_element': 'stack cancellation of the two crossings of one ring, ordered by y; justified geometrically, not decided here',
}

STAGES = [
    ('seg-sort', 'segment-sort', 'sorts the segment vector'),
    ('seg-dedupe', 'duplicate-removal', 'removes adjacent equal segments'),
    ('seg-sweep', 'intersection-sweep', 'tests segment pairs with calculate_intersection'),
    ('loc-sort', 'location-list-sort', 'builds and sorts the end-point list'),
    ('split-scan', 'open-ring-scan', 'collects split locations / detects open rings'),
    ('ring-build', 'ring-building', 'creates the rings'),
]


def base_type(t):
    """Plain record name of a type, also through pointers and references."""
    t = (t or '').strip()
    changed = True
    while changed:
        changed = False
        for suf in ('&&', '&', '*', ' const', '*const', ' volatile'):
            if t.endswith(suf):
                t = t[:-len(suf)].strip() + ('*' if suf == '*const' else '')
                changed = True
        if t.startswith('const '):
            t = t[6:].strip()
            changed = True
    return S.plain_name(t)


def fkey(f):
    """Qualified name, disambiguated for overloads by the plain parameter types (no blanks: known_findings is tokenised)."""
    ps = ','.join(S.plain_name(p['tC']).rsplit('::', 1)[-1] for p in f.params)
    return '%s(%s)' % (f.q, ps)


def area_fns(fb):
    return [f for f in fb.functions if f.has_cfg and f.q.startswith('osmium::area::')]


# ====================================================================================================== model

class Model(object):
    pass


def build_model(fb, R):
    M = Model()
    M.fb = fb
    M.fns = area_fns(fb)
    M.idx = CallIndex(fb)
    M.sites = S.algo_sites(fb, M.fns)
    rec = fb.record(BA)
    srec = fb.record(SL)
    if rec is None or srec is None:
        R.broken('record %s / %s not found' % (BA, SL))
        return None
    M.rec = rec
    segv = [f for f in srec.fields if S.plain_name(S.element_type(f['tC']) or '') == NRS and f['tC'].startswith('std::vector<')]
    if len(segv) != 1:
        R.broken('%s: expected exactly one vector<NodeRefSegment> member' % SL)
        return None
    M.seg_field = segv[0]['name']
    M.seg_proto = S.container_protocol(fb, SL, M.seg_field)
    # the member of BasicAssembler that is binary-searched (m_locations)
    searched = sorted({s.container[2] for s in M.sites if s.kind == 'search' and s.container and s.container[0] == 'field'
                       and s.container[1].startswith(BA + '::')})
    if len(searched) != 1:
        R.broken('%s: expected exactly one binary-searched member container, found %s' % (BA, searched))
        return None
    M.loc_field = searched[0]
    M.loc_proto = S.container_protocol(fb, BA, M.loc_field)
    M.loc_elem = S.plain_name(S.element_type(rec.field(M.loc_field)['tC']) or '')
    splits = [f['name'] for f in rec.fields if f['tC'].startswith('std::vector<') and S.plain_name(S.element_type(f['tC']) or '') == 'osmium::Location']
    rings = [f['name'] for f in rec.fields if f['tC'].startswith('std::list<') and S.plain_name(S.element_type(f['tC']) or '') == NS + 'ProtoRing']
    if len(splits) != 1 or len(rings) != 1:
        R.broken('%s: cannot identify the split-location vector / the ring list by type' % BA)
        return None
    M.split_field, M.ring_field = splits[0], rings[0]
    M.create_rings = [f for f in fb.fns(BA + '::create_rings')]
    if not M.create_rings:
        R.broken('%s::create_rings not found' % BA)
        return None
    M.marks = {}
    for f in M.fns:
        M.marks[id(f)] = _own_marks(M, f)
    return M


def _field_mutators(f, field_q):
    out = []
    for n in f.all_nodes():
        if n.get('k') == 'call' and n.get('recv') is not None and 'q' in n and n['q'].rsplit('::', 1)[-1] in S.ORDER_BREAKING:
            r = f.sn(n['recv'])
            if r is not None and r.get('k') == 'member' and r.get('field') and r.get('q') == field_q:
                out.append(n)
    return out


def _own_marks(M, f):
    """{mark: [node ids]} role-defining constructs in the body of f itself."""
    out = {}
    for s in M.sites:
        if s.fn is not f:
            continue
        et = S.plain_name(s.elem_type or '')
        if s.kind == 'sort' and et == NRS:
            out.setdefault('seg-sort', []).append(s.node['id'])
        if s.kind == 'adjacent' and et == NRS:
            out.setdefault('seg-dedupe', []).append(s.node['id'])
        if s.kind == 'sort' and et == M.loc_elem and s.container and s.container[0] == 'field':
            out.setdefault('loc-sort', []).append(s.node['id'])
        if s.kind == 'search' and s.container and s.container[0] == 'field' and s.container[2] == M.loc_field:
            out.setdefault('loc-search', []).append(s.node['id'])
    for n in calls_of(f, NS + 'calculate_intersection'):
        out.setdefault('seg-sweep', []).append(n['id'])
    for n in _field_mutators(f, BA + '::' + M.split_field):
        out.setdefault('split-scan', []).append(n['id'])
    for n in _field_mutators(f, BA + '::' + M.ring_field):
        out.setdefault('ring-build', []).append(n['id'])
    return out


def closure_marks(M, n, depth=4, _seen=None):
    """Marks found in the bodies reachable from call node n."""
    _seen = _seen if _seen is not None else set()
    out = set()
    for g in callee_bodies(M.fb, n):
        if id(g) in _seen or not g.q.startswith('osmium::area::'):
            continue
        _seen.add(id(g))
        out |= set(M.marks.get(id(g), {}))
        if depth > 0:
            for c in calls_of(g):
                if c.get('u'):
                    out |= closure_marks(M, c, depth - 1, _seen)
    return out


def occurrences(M, fn):
    """{mark: [node ids in fn]}: direct constructs and calls whose closure carries the mark."""
    occ = {}
    for m, ids in M.marks.get(id(fn), {}).items():
        occ.setdefault(m, []).extend(ids)
    for c in calls_of(fn):
        if not c.get('u') or not live(fn, c['id']):
            continue
        for m in closure_marks(M, c):
            occ.setdefault(m, []).append(c['id'])
    return occ


# ====================================================================================================== [1] pipeline

def _order_ok(M, fn, a_mark, b_mark, depth=0):
    occ = occurrences(M, fn)
    A, B = occ.get(a_mark, []), occ.get(b_mark, [])
    if not A:
        return 'no step that %s' % dict((s[0], s[2]) for s in STAGES)[a_mark]
    if not B:
        return 'no step that %s' % dict((s[0], s[2]) for s in STAGES)[b_mark]
    for b in B:
        if any(a != b and fn.elem_dominates(a, b) for a in A):
            continue
        if b in A and depth < 3:
            whys = [_order_ok(M, g, a_mark, b_mark, depth + 1) for g in callee_bodies(M.fb, fn.nodes[b])]
            if whys and all(w is None for w in whys):
                continue
        return 'the step at %s is not preceded on every path by one that %s' % (fn.loc(b), dict((s[0], s[2]) for s in STAGES)[a_mark])
    return None


def pipeline_rules(M, R):
    fb = M.fb
    for fn in M.create_rings:
        occ = occurrences(M, fn)
        for (a, b) in zip(STAGES, STAGES[1:]):
            why = _order_ok(M, fn, a[0], b[0])
            R.check(why is None, 'P1-pipeline-order', '%s#%s-before-%s' % (fn.q, a[1], b[1]), fn.site,
                    'create_rings: %s (required order: %s)' % (why, ' < '.join(s[1] for s in STAGES)))
        nofacts = Facts()
        for (m, label, what) in STAGES:
            ids = set(occ.get(m, []))
            w = path_search(fn, fn.entry, lambda e: return_may_be_true(fn, e, nofacts), lambda e: e in ids or is_noreturn(fn, e), from_block_start=True) \
                if ids else ['<no such step>']
            R.check(w is None, 'P1-accepting-path-runs-stage', '%s#accepting-path-runs-%s' % (fn.q, label), fn.site,
                    'create_rings can return true without a step that %s: %s' % (what, describe_path(fn, w) if ids else 'there is no such step'))
    # ---- P2: the intersection count is tested where the sweep is called
    sweep_fns = [g for g in M.fns if 'seg-sweep' in M.marks.get(id(g), {}) and not g.q.startswith(BA + '::')]
    extra_seeds = {}
    n_sites = 0
    for g in sweep_fns:
        for (f, c) in M.idx.callers(g):
            if not f.q.startswith(BA + '::') or not live(f, c['id']):
                continue
            n_sites += 1
            key = '%s#intersections-found-rejects' % f.q
            if S.strip_cvref(f.retC) != 'bool':
                R.bad('P2-rejection-propagates', key, f.loc(c['id']), '%s runs the intersection sweep but cannot report failure (returns %s)' % (f.q, f.retC))
                continue
            w, facts = reach_under(f, c['id'], True, lambda e, fa, f=f: return_may_be_true(f, e, fa))
            R.check(w is None, 'P2-rejection-propagates', key, f.loc(c['id']),
                    'a non-zero result of %s can reach a return that may be true (crossing segments are not rejected): %s'
                    % (g.q, describe_path(f, w)))
            if f.q != BA + '::create_rings':
                extra_seeds[f.usr] = f
    if n_sites == 0:
        for fn in M.create_rings:
            R.bad('P2-rejection-propagates', '%s#intersections-found-rejects' % fn.q, fn.site, 'the intersection sweep is never run by %s' % BA)
    # ---- P2: bool helpers between create_rings and the function that found the problem
    rej = _rejecting_functions(M, R, extra_seeds)
    M.rej, M.sweep_fns = rej, sweep_fns
    for g in sorted(rej.values(), key=lambda f: f.q):
        for (f, c) in M.idx.callers(g):
            if not f.q.startswith(BA + '::') or not live(f, c['id']):
                continue
            key = '%s#false-from-%s-rejects' % (f.q, g.name)
            if S.strip_cvref(f.retC) != 'bool':
                R.bad('P2-rejection-propagates', key, f.loc(c['id']), '%s calls the rejecting step %s but cannot report failure (returns %s)'
                      % (f.q, g.q, f.retC))
                continue
            w, facts = reach_under(f, c['id'], False, lambda e, fa, f=f: return_may_be_true(f, e, fa))
            R.check(w is None, 'P2-rejection-propagates', key, f.loc(c['id']),
                    'a false result of %s can reach a return that may be true: %s' % (g.q, describe_path(f, w)))


def _counter_increments(M, counters):
    """[(fn, unop node, counter)] increments of the named statistics counters in the area code."""
    out = []
    for f in M.fns:
        for n in f.all_nodes():
            if n.get('k') == 'unop' and n.get('op') == '++' and live(f, n['id']):
                fs = stat_fields(M.fb, M.idx, f, n['sub'], STATS)
                for c in sorted(fs & set(counters)):
                    out.append((f, n, c))
    return out


def _rejecting_functions(M, R, extra_seeds=None):
    """{usr: Fn}: bool methods of BasicAssembler that count an open ring, closed under `bool caller on this`;
    also applies P2-open-ring-returns-false to the seeds."""
    seeds = {}
    for (f, n, c) in _counter_increments(M, ('open_rings',)):
        if not f.q.startswith(BA + '::'):
            continue
        key = '%s#open-ring-found-returns-false' % f.q
        if S.strip_cvref(f.retC) != 'bool':
            R.broken('%s counts an open ring but does not return bool (unknown shape of the rejection protocol)' % f.q)
            continue
        seeds[f.usr] = f
        facts = Facts()
        t = f.expr(n['sub'])
        facts.texts[t] = True
        kill = {x['id'] for x in f.all_nodes() if (x.get('k') == 'assign' and f.expr(x['lhs']) == t)
                or (x.get('k') == 'unop' and x.get('op') == '--' and f.expr(x['sub']) == t)}
        w = path_search(f, n['id'], lambda e: return_may_be_true(f, e, facts), lambda e: e in kill or is_noreturn(f, e), edge_filter(f, facts))
        R.check(w is None, 'P2-open-ring-returns-false', key, f.loc(n['id']),
                'after counting an open ring %s can reach a return that is not false / `%s == 0`: %s' % (f.q, t, describe_path(f, w)))
    rej = dict(seeds)
    rej.update(extra_seeds or {})
    changed = True
    while changed:
        changed = False
        for g in list(rej.values()):
            for (f, c) in M.idx.callers(g):
                if f.usr in rej or not f.q.startswith(BA + '::') or f.q == BA + '::create_rings':
                    continue
                r = f.sn(c.get('recv')) if c.get('recv') is not None else None
                if r is not None and r.get('k') == 'this' and S.strip_cvref(f.retC) == 'bool':
                    rej[f.usr] = f
                    changed = True
    return rej


# ---- P3

def pairing_rules(M, R):
    fb = M.fb
    incs = {}      # fn id -> [(node, counter, guards)]
    reps = {}      # fn id -> [(node, method, guards, loops, reporter guards)]
    for (f, n, c) in _counter_increments(M, tuple(COUNTER_REPORTS)):
        g, _l = guard_set(f, n['id'])
        incs.setdefault(id(f), (f, []))[1].append((n, c, g))
    for f in M.fns:
        for n in f.all_nodes():
            if n.get('k') == 'call' and n.get('q', '').startswith(REPORTER + '::report_') and live(f, n['id']):
                m = n['q'].rsplit('::', 1)[-1]
                if m not in REPORT_COUNTER:
                    continue
                g, loops = guard_set(f, n['id'])
                rg = set()
                for (c, sense, _b) in guards_of(f, n['id']):
                    if sense and base_type(f.nodes.get(f.strip(c), {}).get('t', '')) == REPORTER and '*' in f.nodes.get(f.strip(c), {}).get('t', ''):
                        rg.add((f.expr(c), True))
                reps.setdefault(id(f), (f, []))[1].append((n, m, g, loops, rg))

    def paired(ig, rep):
        (_n, _m, g, loops, rg) = rep
        if not ig <= g:
            return None
        extra = g - ig - rg - loops
        return extra

    for fid in sorted(set(incs) | set(reps), key=lambda i: (incs.get(i) or reps.get(i))[0].q):
        f = (incs.get(fid) or reps.get(fid))[0]
        fi = incs.get(fid, (f, []))[1]
        fr = reps.get(fid, (f, []))[1]
        for (n, c, ig) in fi:
            key = '%s#%s-is-reported' % (f.q, c)
            cands = [(r, paired(ig, r)) for r in fr if r[1] in COUNTER_REPORTS[c]]
            cands = [(r, ex) for (r, ex) in cands if ex is not None]
            ok = bool(cands)
            msg = 'the problem counted by `%s` is not passed to ProblemReporter::%s in the same guarded region' % (
                f.expr(n['id']), '/'.join(COUNTER_REPORTS[c]))
            if ok:
                # selector guards must be complementary across the candidate reports
                sel = set()
                for (_r, ex) in cands:
                    sel |= ex
                for (t, s) in sel:
                    if (t, not s) not in sel:
                        ok = False
                        msg = 'the report for `%s` is additionally restricted by `%s` == %s, so some counted problems are not reported' % (
                            f.expr(n['id']), t[:60], 'true' if s else 'false')
            R.check(ok, 'P3-problem-counted-and-reported', key, f.loc(n['id']), msg)
        for r in fr:
            (n, m, g, loops, rg) = r
            c = REPORT_COUNTER[m]
            key = '%s#%s-is-counted' % (f.q, m)
            ok = any(cc == c and paired(ig, r) is not None for (_n, cc, ig) in fi)
            R.check(ok, 'P3-problem-counted-and-reported', key, f.loc(n['id']),
                    '%s is called but area_stats::%s is not incremented in the same guarded region (the statistics, and for %s the '
                    'rejection, miss this problem)' % (m, c, '/'.join(REJECTING)))


# ====================================================================================================== [2] SORTED

def _accessor_bridge(fb, search_comp, sort_comp):
    """The search accessor is an overload `acc(args.., default)` of the sort accessor `acc(args..)`: None when it provably
    yields the sort key for stored elements and the default for the search value's sentinel; otherwise the reason."""
    if len(search_comp.path) != len(sort_comp.path) or not search_comp.path:
        return 'different access paths'
    for a, b in zip(search_comp.path[:-1], sort_comp.path[:-1]):
        if a != b:
            return 'different access paths'
    a, b = search_comp.path[-1], sort_comp.path[-1]
    if a[0] != 'call' or b[0] != 'call' or a[1] != b[1]:
        return 'searched by %s but sorted by %s' % (search_comp.text(), sort_comp.text())
    sa = [x.strip() for x in a[2].split(',')] if a[2] else []
    sb = [x.strip() for x in b[2].split(',')] if b[2] else []
    if len(sa) != len(sb) + 1 or sa[:len(sb)] != sb:
        return 'accessor arguments differ: search %s(%s), sort %s(%s)' % (a[1], a[2], b[1], b[2])
    wide = [g for g in fb.fns(a[1]) if len(g.params) == len(sa) and g.has_cfg]
    narrow = [g for g in fb.fns(a[1]) if len(g.params) == len(sb) and g.has_cfg]
    if not wide or not narrow:
        return 'overloads of %s not found' % a[1]
    g = wide[0]
    rets = [n for n in g.all_nodes() if n.get('k') == 'return' and 'sub' in n]
    if not rets:
        return 'no return in %s' % g.q
    sentinel = None
    seen_default = seen_delegate = False

    def sentinel_tests(cond, sense, out):
        cn = g.sn(cond)
        if cn is not None and cn.get('k') == 'binop' and cn['op'] in ('==', '!='):
            for (x, y) in ((cn['lhs'], cn['rhs']), (cn['rhs'], cn['lhs'])):
                if g.is_this_member(x) and g.const_value(y) is not None:
                    out.append((g.sn(x)['q'], g.const_value(y), bool(sense) == (cn['op'] == '==')))

    # every returned value with the sentinel tests it is subject to (a ?: in the return is split)
    values = []
    for r in rets:
        tests = []
        for (c, sense, _b) in guards_of(g, r['id']):
            sentinel_tests(c, sense, tests)
        work = [(r['sub'], tests)]
        while work:
            v_id, ts = work.pop()
            v = g.sn(v_id)
            hops = 0
            while v is not None and v.get('k') == 'construct' and (v.get('copymove') or v.get('elidable')) and v.get('args') and hops < 3:
                v = g.sn(v['args'][0])
                hops += 1
            if v is not None and v.get('k') == 'condop':
                t1, t2 = list(ts), list(ts)
                sentinel_tests(v['cond'], True, t1)
                sentinel_tests(v['cond'], False, t2)
                work.append((v['then'], t1))
                work.append((v['else'], t2))
            else:
                values.append((v, ts, v_id))
    for (v, tests, v_id) in values:
        if v is not None and v.get('k') == 'var' and v.get('d') == g.params[-1]['d']:
            if len(tests) != 1 or not tests[0][2]:
                return '%s returns its default argument without testing the sentinel' % g.q
            sentinel = tests[0][:2]
            seen_default = True
        elif v is not None and v.get('k') == 'call' and v.get('u') == narrow[0].usr and (g.sn(v.get('recv')) or {}).get('k') == 'this':
            args = [x for x in v.get('args', []) if x is not None]
            if [g.root_var(x) for x in args] != [('var', p['d'], p['name']) for p in g.params[:-1]]:
                return '%s delegates with other arguments' % g.q
            if len(tests) != 1 or tests[0][2]:
                return '%s delegates to the sort accessor under another condition than "not the sentinel"' % g.q
            if sentinel is not None and tests[0][:2] != sentinel:
                return '%s tests two different sentinels' % g.q
            sentinel = tests[0][:2]
            seen_delegate = True
        else:
            return '%s returns %s, neither the default argument nor the sort accessor' % (g.q, g.expr(v_id)[:50])
    if not (seen_default and seen_delegate):
        return '%s does not have both the sentinel and the delegating return' % g.q
    return ('sentinel', sentinel)


def _search_value_is_sentinel(fb, site, sentinel):
    """The third argument of the search is a default-constructed element whose sentinel field is the sentinel value."""
    fn = site.fn
    args = [a for a in site.node.get('args', []) if a is not None]
    if len(args) < 3:
        return 'no search value'
    cons = [fn.nodes[x] for x in fn.subtree(args[2]) if fn.nodes[x].get('k') == 'construct' and not fn.nodes[x].get('copymove')
            and not fn.nodes[x].get('elidable')]
    if len(cons) != 1:
        return 'search value is not one freshly constructed element'
    c = cons[0]
    if [a for a in c.get('args', []) if a is not None and fn.nodes[a].get('cls') != 'CXXDefaultArgExpr']:
        return 'search value is constructed with arguments (%s), not as the sentinel' % fn.expr(c['id'])[:50]
    ctors = callee_bodies(fb, c)
    if not ctors:
        return 'constructor of the search value not in the fact base'
    src = S.ctor_field_sources(fb, ctors[0])
    got = src.get(sentinel[0])
    if got != ('const', sentinel[1]):
        return 'the default-constructed search value initialises %s with %s, the accessor expects %s' % (sentinel[0], got, sentinel[1])
    return None


def locations_rules(M, R):
    fb = M.fb
    proto = M.loc_proto
    cq = '%s::%s' % (BA, M.loc_field)
    whole = [s for s in proto.sorts if not s.partial]
    sort_keys = []
    for so in whole:
        try:
            sort_keys.append((so, S.site_key(fb, so)))
        except S.UnknownShape as e:
            R.broken('sort key of %s at %s: %s' % (cq, so.loc, e))
            return
    for se in proto.searches:
        key = '%s#%s-uses-the-sort-key' % (se.fn.q, se.label())
        try:
            sk = S.site_key(fb, se)
        except S.UnknownShape as e:
            R.broken('search key of %s at %s: %s' % (cq, se.loc, e))
            continue
        if not sort_keys:
            R.bad('S1-search-key-agrees-with-sort-key', key, se.loc, '%s is binary-searched but never sorted' % cq)
            continue
        for so, k in sort_keys:
            why = S.is_prefix(sk, k)
            if why is not None and len(sk.comps) == 1 and len(k.comps) >= 1 and sk.comps[0].desc == k.comps[0].desc and sk.comps[0].cmp == k.comps[0].cmp:
                br = _accessor_bridge(fb, sk.comps[0], k.comps[0])
                if isinstance(br, tuple):
                    why = _search_value_is_sentinel(fb, se, br[1])
                else:
                    why = '%s (%s)' % (why, br)
            R.check(why is None, 'S1-search-key-agrees-with-sort-key', key, se.loc, '%s in %s: %s' % (se.label(), se.fn.q, why),
                    'search key %s, sort key %s' % (sk.text(), k.text()))
    # ---- order: insertions only before the sort, in the sorting function
    for (f, n, nm) in proto.mutators:
        sorts = [s for s in whole if s.fn is f]
        ok = bool(sorts) and all(path_search(f, n['id'], lambda e: isinstance(e, tuple) and e[0] == 'exit', lambda e, s=s: e == s.node['id']) is None
                                 for s in sorts) and all(path_search(f, s.node['id'], lambda e: e == n['id'], lambda e: False) is None for s in sorts)
        R.check(ok, 'S2-searched-after-sort', '%s#%s-into-%s-is-followed-by-the-sort' % (f.q, nm, M.loc_field), f.loc(n['id']),
                '%s inserts into %s and does not sort it afterwards on every path (or inserts after the sort)' % (f.q, M.loc_field))
    # ---- order: in create_rings the sorting stage dominates everything that reaches a search
    for fn in M.create_rings:
        occ = occurrences(M, fn)
        sorts = occ.get('loc-sort', [])
        for se_id in sorted(set(occ.get('loc-search', []))):
            n = fn.nodes[se_id]
            what = n.get('q', '?').rsplit('::', 1)[-1]
            R.check(any(a != se_id and fn.elem_dominates(a, se_id) for a in sorts), 'S2-searched-after-sort',
                    '%s#%s-runs-after-the-location-list-is-sorted' % (fn.q, what), fn.loc(se_id),
                    '%s (which binary-searches %s) is not dominated by the step that sorts it' % (fn.expr(se_id)[:50], M.loc_field))
    # ---- searching helpers are internal and only entered through the pipeline
    reach = proto.reaching('search')
    inside = {g.usr for q, fs in reach.items() for g in fs}
    for q, fs in sorted(reach.items()):
        if not q.startswith(BA + '::') or q == BA + '::create_rings':
            continue
        f = fs[0]
        outside = [c for (c, _n) in M.idx.callers(f) if c.usr not in inside and not c.is_lambda]
        R.check(f.access != 'public' and not outside, 'S2-searched-after-sort', '%s#only-entered-through-create_rings' % q, f.site,
                '%s reaches a binary search of %s but is %s%s: it can run before the list is sorted' % (
                    q, M.loc_field, f.access, (' and called from ' + outside[0].q) if outside else ''))


def _var_mutators(fn, root):
    out = []
    for n in fn.all_nodes():
        if n.get('k') == 'call' and n.get('recv') is not None and 'q' in n and n['q'].rsplit('::', 1)[-1] in S.ORDER_BREAKING:
            if fn.root_var(n['recv']) == root and (fn.sn(n['recv']) or {}).get('k') == 'var':
                out.append(n)
    return out


def _sorted_producer(M, g):
    """g returns a local container whose last order-relevant operation is a whole-range sort: (Site, None) or (None, why)."""
    rets = [n for n in g.all_nodes() if n.get('k') == 'return' and 'sub' in n]
    roots = {g.root_var(r['sub']) for r in rets}
    if len(roots) != 1 or None in roots:
        return None, '%s does not return one local container' % g.q
    root = list(roots)[0]
    sorts = [s for s in M.sites if s.fn is g and s.kind == 'sort' and not s.partial and s.container == root]
    if not sorts:
        return None, '%s returns %s without sorting it' % (g.q, root[2])
    so = sorts[0]
    muts = _var_mutators(g, root)
    for r in rets:
        why = S.order_in_function(g, so.node, r, muts)
        if why is not None:
            return None, '%s: %s' % (g.q, why)
    return so, None


def _sorted_at(M, fn, root, at_node, depth=0):
    """The container variable `root` of fn is sorted when at_node executes: (sort Site, None) / (None, why)."""
    muts = _var_mutators(fn, root)
    sorts = [s for s in M.sites if s.fn is fn and s.kind == 'sort' and not s.partial and s.container == root]
    for so in sorts:
        if S.order_in_function(fn, so.node, at_node, muts) is None:
            return so, None
    pidx = [i for i, p in enumerate(fn.params) if p['d'] == root[1]]
    if pidx:
        if depth > 3:
            return None, 'call chain too deep'
        found = None
        callers = [(f, c) for (f, c) in M.idx.callers(fn) if live(f, c['id'])]
        if not callers:
            return None, '%s has no caller in the fact base' % fn.q
        if muts:
            return None, '%s modifies its parameter %s' % (fn.q, root[2])
        for (f, c) in callers:
            a = c.get('args', [])[pidx[0]] if pidx[0] < len(c.get('args', [])) else None
            r = f.root_var(a) if a is not None else None
            if r is None or r[0] != 'var':
                return None, '%s passes %s' % (f.q, f.expr(a)[:40] if a is not None else '?')
            if f.usr == fn.usr and r[1] == root[1]:
                continue        # recursion passing the parameter on
            so, why = _sorted_at(M, f, r, c, depth + 1)
            if so is None:
                return None, why
            found = found or so
        if found is None:
            return None, '%s: parameter %s only comes from recursion' % (fn.q, root[2])
        return found, None
    ent = local_decl(fn, root[1])
    if ent is not None and isinstance(ent[1].get('init'), int):
        prods = [x for x in fn.subtree(ent[1]['init']) if fn.nodes[x].get('k') == 'call' and callee_bodies(M.fb, fn.nodes[x])
                 and not fn.nodes[x].get('q', '').startswith('std::')]
        for x in prods:
            g = callee_bodies(M.fb, fn.nodes[x])[0]
            so, why = _sorted_producer(M, g)
            if so is None:
                return None, why
            for m in muts:
                if path_search(fn, ent[0]['id'], lambda e, m=m: e == m['id'], lambda e: False) is not None and \
                        path_search(fn, m['id'], lambda e: e == at_node['id'] or (not isinstance(e, tuple) and at_node['id'] in fn.subtree(e)), lambda e: False) is not None:
                    return None, '%s is modified at %s after it was returned sorted' % (root[2], fn.loc(m['id']))
            return so, None
    return None, '%s::%s is not sorted before %s' % (fn.q, root[2], fn.loc(at_node['id']))


def local_container_rules(M, R):
    fb = M.fb
    for s in M.sites:
        if s.kind not in ('search', 'adjacent') or not s.fn.q.startswith(BA + '::') or s.container is None or s.container[0] != 'var':
            continue
        fn = s.fn
        cname = '%s::%s' % (fn.q, s.container[2])
        so, why = _sorted_at(M, fn, s.container, s.node)
        R.check(so is not None, 'S2-searched-after-sort', '%s#%s-on-a-sorted-container' % (fn.q, s.label()), s.loc,
                '%s at %s: %s' % (s.label(), cname, why))
        if so is None:
            continue
        key = '%s#%s-uses-the-sort-key' % (fn.q, s.label())
        try:
            k = S.site_key(fb, so)
            if s.kind == 'search':
                why = S.is_prefix(S.site_key(fb, s), k)
            else:
                et = S.plain_name(s.elem_type or '')
                if et in ADJACENCY_NOT_BY_KEY:
                    R.note('S1: adjacency scan over %s not compared with the sort key: %s' % (et, ADJACENCY_NOT_BY_KEY[et]))
                    continue
                extra = S.fields_subset_of_key(S.site_equality_fields(fb, s), k)
                why = None if not extra else 'equality compares %s, which the sort %s does not order by' % (extra, k.text())
        except S.UnknownShape as e:
            R.broken('%s: %s' % (key, e))
            continue
        R.check(why is None, 'S1-search-key-agrees-with-sort-key', key, s.loc, '%s in %s: %s' % (s.label(), fn.q, why))


def nearest_ring_rule(M, R):
    """S4: the function that sorts a local stack of (y, ring) and returns one element's ring must return the max-y one."""
    for s in M.sites:
        if s.kind != 'sort' or not s.fn.q.startswith(BA + '::') or s.container is None or s.container[0] != 'var':
            continue
        if S.plain_name(s.elem_type or '') not in ADJACENCY_NOT_BY_KEY:
            continue
        fn = s.fn
        key = '%s#returns-the-greatest-y-of-the-sorted-stack' % fn.q
        try:
            k = S.site_key(M.fb, s)
        except S.UnknownShape as e:
            R.broken('%s: %s' % (key, e))
            continue
        picks = []
        for r in fn.all_nodes():
            if r.get('k') != 'return' or 'sub' not in r or not fn.elem_dominates(s.node['id'], r['id']):
                continue
            for x in fn.subtree(r['sub']):
                c = fn.nodes[x]
                if c.get('k') == 'call' and c.get('recv') is not None and fn.root_var(c['recv']) == s.container and \
                        c.get('q', '').rsplit('::', 1)[-1] in ('front', 'back'):
                    picks.append((r, c['q'].rsplit('::', 1)[-1]))
        if not picks or len(k.comps) != 1:
            R.broken('%s: cannot see which element of the sorted stack is returned' % key)
            continue
        want = 'front' if k.comps[0].desc else 'back'
        bad = [p for p in picks if p[1] != want]
        R.check(not bad, 'S4-nearest-ring-chosen', key, s.loc,
                'the stack is sorted %s by %s but %s() is returned: that is the ring farthest below the location, not the enclosing one'
                % ('descending' if k.comps[0].desc else 'ascending', k.comps[0].text(), bad[0][1] if bad else ''))


def segment_storage_rules(M, R):
    fb = M.fb
    proto = M.seg_proto
    mut_fns = {m[0].q for m in proto.mutators}
    for fn in M.create_rings:
        clo = fb.callees_closure(fn, depth=8)
        hit = sorted(mut_fns & clo)
        R.check(not hit, 'S3-sorted-storage-stays-sorted', '%s#no-segment-insertion-after-the-sort' % fn.q, fn.site,
                'create_rings reaches %s, which inserts into %s::%s after it was sorted' % (', '.join(hit), SL, M.seg_field))
    rec = fb.record(NRS)
    ends = [f for f in (rec.fields if rec else []) if S.plain_name(f['tC']) == 'osmium::NodeRef']
    if len(ends) != 2:
        R.broken('%s: expected two NodeRef members' % NRS)
        return
    fields = ['%s::%s' % (NRS, f['name']) for f in ends]
    writes = S.key_field_writes(fb, fields)
    for fq in fields:
        w = [(f, n) for (f, n) in writes if (f.sn(n.get('lhs', n.get('sub', n.get('recv')))) or {}).get('q') == fq]
        R.check(not w, 'S3-sorted-storage-stays-sorted', fq + '#written-by-constructors-only', w[0][0].loc(w[0][1]['id']) if w else '%s:%d' % (rec.file, rec.line),
                '%s is written in %s: the sorted segment vector and the location list are keyed by it' % (fq, w[0][0].q if w else ''))


# ====================================================================================================== geometry (SymExec)

class Geo(object):
    """Symbolic segments and the coordinate symbols behind the public accessors."""

    def __init__(self, fb):
        self.fb = fb
        w0 = next(iter(worlds({}, ())))
        self.se0 = SymExec(fb, w0)
        self.f_first = self._one(NRS + '::first')
        self.f_second = self._one(NRS + '::second')
        self.f_loc = self._one('osmium::NodeRef::location', const=True)
        self.f_x = self._one('osmium::Location::x')
        self.f_y = self._one('osmium::Location::y')

    def _one(self, q, const=None):
        c = [g for g in self.fb.fns(q) if g.has_cfg and not g.params and (const is None or g.const == const)]
        if not c:
            raise Unsupported('accessor %s not found' % q)
        return c[0]

    def segment(self, prefix):
        return symbolic(self.fb, NRS, prefix)

    def noderef(self, prefix):
        return symbolic(self.fb, 'osmium::NodeRef', prefix)

    def coords_of_noderef(self, se, nr):
        loc = se.call(self.f_loc, nr, [])
        return se.call(self.f_x, loc, []), se.call(self.f_y, loc, [])

    def noderef_syms(self, se, nr):
        x, y = self.coords_of_noderef(se, nr)
        if not isinstance(x, Poly) or not isinstance(y, Poly) or x.symbol() is None or y.symbol() is None:
            raise Unsupported('NodeRef::location()/x()/y() do not yield a stored coordinate')
        return x.symbol(), y.symbol()

    def coords(self, se, seg, which):
        nr = se.call(self.f_first if which == 'first' else self.f_second, seg, [])
        return self.coords_of_noderef(se, nr)

    def syms(self, seg):
        """{('first'|'second', 'x'|'y'): symbol name}"""
        out = {}
        for wh in ('first', 'second'):
            x, y = self.coords(self.se0, seg, wh)
            if not isinstance(x, Poly) or not isinstance(y, Poly) or x.symbol() is None or y.symbol() is None:
                raise Unsupported('%s()/location()/x()/y() do not read plain members' % wh)
            out[(wh, 'x')], out[(wh, 'y')] = x.symbol(), y.symbol()
        return out


def lex_cmp(w, ax, ay, bx, by):
    """-1/0/1: (ax, ay) vs (bx, by) lexicographically in world w."""
    s = w._sign(ax, bx)
    return s if s != 0 else w._sign(ay, by)


def normal_form_rule(M, R, G):
    fb = M.fb
    ctors = [c for c in fb.fns(NRS + '::(ctor)') if c.has_cfg and len([p for p in c.params if S.plain_name(p['tC']) == 'osmium::NodeRef']) == 2]
    if not ctors:
        R.broken('%s: constructor from two NodeRefs not found' % NRS)
        return
    c = ctors[0]
    key = '%s#smaller-end-point-first' % NRS
    n1, n2 = G.noderef('n1'), G.noderef('n2')
    x1, y1 = G.noderef_syms(G.se0, n1)
    x2, y2 = G.noderef_syms(G.se0, n2)
    bad = None
    for w in product_worlds([[x1, x2], [y1, y2]], INT32):
        se = SymExec(fb, w)
        args, pool = [], [n1, n2]
        for p in c.params:
            args.append(pool.pop(0) if S.plain_name(p['tC']) == 'osmium::NodeRef' and pool else UNK)
        seg = Obj(NRS)
        se.call(c, seg, args)
        try:
            fx, fy = G.noderef_syms(se, se.call(G.f_first, seg, []))
            sx, sy = G.noderef_syms(se, se.call(G.f_second, seg, []))
        except Unsupported:
            R.broken('%s: constructed segment has no decided end points in order type [%s]' % (key, w.describe()))
            return
        if lex_cmp(w, fx, fy, sx, sy) > 0:
            bad = 'first() > second() for order type [%s], e.g. %s' % (pretty(w.describe()), pretty(w.witness()))
        elif {(fx, fy), (sx, sy)} != {(x1, y1), (x2, y2)}:
            bad = 'an end point is lost (first=%s second=%s) for order type [%s]' % (fx, sx, w.describe())
        if bad:
            break
    R.check(bad is None, 'G1-segment-normal-form', key, c.site,
            'NodeRefSegment(nr1, nr2) must store the lexicographically smaller location as first(): %s' % bad)


def _sweep_shape(M, fn):
    """Sweep function fn: (calculate_intersection call, {iterator decl id: 'earlier'|'later'}, {role: increment node id},
    [(cond id, required sense, block id, label, is_break)] guards of the call inside the inner loop) or (None,)*3 + why."""
    tests = calls_of(fn, NS + 'calculate_intersection')
    if not tests:
        return None, None, None, 'no calculate_intersection call'
    T = tests[0]
    its = {}
    for n in fn.all_nodes():
        if n.get('k') == 'decl':
            for v in n['vars']:
                if '__normal_iterator' in v['tC'] and isinstance(v.get('init'), int):
                    its[v['d']] = (n, v)
    order = {}
    for d, (n, v) in its.items():
        others = {fn.nodes[x]['d'] for x in fn.subtree(v['init']) if fn.nodes[x].get('k') == 'var' and fn.nodes[x].get('d') in its and fn.nodes[x]['d'] != d}
        if others:
            order[d] = 'later'
            for o in others:
                order.setdefault(o, 'earlier')
    if sorted(order.values()) != ['earlier', 'later']:
        return None, None, None, 'cannot identify the outer (earlier) and inner (later) iterator of the sweep'
    incs = {}
    for n in fn.all_nodes():
        if n.get('k') == 'call' and n.get('op') == '++' and n.get('recv') is not None:
            r = fn.sn(n['recv'])
            if r is not None and r.get('k') == 'var' and r.get('d') in order:
                incs[order[r['d']]] = n['id']
    if set(incs) != {'earlier', 'later'}:
        return None, None, None, 'cannot find the increments of the two sweep iterators'
    inner = [l for l in fn.loops if fn.in_range(T['id'], l['b'], l['e']) and fn.in_range(incs['later'], l['b'], l['e'])]
    if not inner:
        return None, None, None, 'calculate_intersection is not called inside the inner loop'
    inner = min(inner, key=lambda l: l['e'] - l['b'])
    guards, names = [], {}
    for (c, sense, b) in guards_of(fn, T['id']):
        cn = fn.sn(c)
        if cn is None or not fn.in_range(c, inner['b'], inner['e']):
            continue
        if (cn.get('k') == 'binop' and cn['op'] in ('&&', '||')) or (cn.get('k') == 'unop' and cn['op'] == '!'):
            continue
        label = cn['q'].rsplit('::', 1)[-1] if cn.get('k') == 'call' and 'q' in cn and 'op' not in cn else 'inline-test'
        names[label] = names.get(label, 0) + 1
        if names[label] > 1:
            label = '%s-%d' % (label, names[label])
        blk = fn.blocks[b]
        succ = blk['succs'][1 if sense else 0]
        if succ is None or path_search(fn, succ, lambda e: e in (incs['later'], incs['earlier']) or (isinstance(e, tuple) and e[0] == 'exit'),
                                       lambda e: is_noreturn(fn, e), from_block_start=True) is None:
            continue            # the other edge does not return (assert): not a filter
        is_break = succ is not None and path_search(fn, succ, lambda e: e == incs['later'], lambda e: e == incs['earlier'], from_block_start=True) is None
        guards.append((c, sense, b, label, is_break))
    return T, order, guards, None


def two_segment_rules(M, R, G):
    """G2 (order / equality of NodeRefSegment) and G3 (sweep prefilters) share one enumeration of two-segment worlds."""
    fb = M.fb
    lts = [f for f in fb.fns(NS + 'operator<') if f.has_cfg and len(f.params) == 2 and all(S.plain_name(p['tC']) == NRS for p in f.params)]
    eqs = [f for f in fb.fns(NS + 'operator==') if f.has_cfg and len(f.params) == 2 and all(S.plain_name(p['tC']) == NRS for p in f.params)]
    if not lts or not eqs:
        R.broken('operator< / operator== of %s not found' % NRS)
        return
    lt, eq = lts[0], eqs[0]
    sweeps = [f for f in M.fns if f.q.startswith(SL + '::') and 'seg-sweep' in M.marks.get(id(f), {})]
    sweep = sweeps[0] if sweeps else None
    T, order, guards, why = (None, None, None, 'no method of %s calls calculate_intersection' % SL)
    if sweep is not None:
        T, order, guards, why = _sweep_shape(M, sweep)
    if guards is None:
        R.broken('G3: %s' % why)
        guards = []
    s1, s2 = G.segment('earlier'), G.segment('later')           # s1 precedes s2 in the sort order
    a, b = G.syms(s1), G.syms(s2)
    xs = [a[('first', 'x')], a[('second', 'x')], b[('first', 'x')], b[('second', 'x')]]
    ys = [a[('first', 'y')], a[('second', 'y')], b[('first', 'y')], b[('second', 'y')]]
    res = {'k1': None, 'k2': None, 'eq': None}
    pre_bad = {}
    decided = {g[0]: [0, 0] for g in guards}        # cond -> [worlds decided, worlds undecided]

    def prune(gi, w):
        return gi != 0 or (w.le(xs[0], xs[1]) and w.le(xs[2], xs[3]))
    for w in product_worlds([xs, ys], INT32, prune):
        if lex_cmp(w, xs[0], ys[0], xs[1], ys[1]) >= 0 or lex_cmp(w, xs[2], ys[2], xs[3], ys[3]) >= 0:
            continue        # not in normal form (G1; segments between equal locations are never created)
        se = SymExec(fb, w)
        cf = lex_cmp(w, xs[0], ys[0], xs[2], ys[2])          # first(s1) vs first(s2)
        cs = lex_cmp(w, xs[1], ys[1], xs[3], ys[3])
        try:
            v_lt, v_gt, v_eq = se.call(lt, None, [s1, s2]), se.call(lt, None, [s2, s1]), se.call(eq, None, [s1, s2])
        except Unsupported as e:
            R.broken('G2: %s' % e)
            return
        if cf != 0:
            for (v, want, txt) in ((v_lt, cf < 0, 'a < b'), (v_gt, cf > 0, 'b < a')):
                if v is not want and res['k1'] is None:
                    res['k1'] = '%s is %s but first(a) %s first(b) in order type [%s], e.g. %s' % (
                        txt, 'undecided' if v not in (True, False) else str(v).lower(), '<' if cf < 0 else '>', pretty(w.describe()), pretty(w.witness()))
        if cf == 0 and cs == 0:
            if (v_lt is not False or v_gt is not False) and res['k2'] is None:
                res['k2'] = 'equal segments are ordered (a < b: %s, b < a: %s) in order type [%s]' % (v_lt, v_gt, pretty(w.describe()))
        if v_eq is not (cf == 0 and cs == 0) and res['eq'] is None:
            res['eq'] = 'operator== is %s but the end points are %s in order type [%s], e.g. %s' % (
                v_eq, 'equal' if (cf == 0 and cs == 0) else 'different', pretty(w.describe()), pretty(w.witness()))
        # ---- G3: s1 earlier than s2 in the sort order (by G2: first(s1) <= first(s2)); equal segments were removed
        if cf > 0 or (cf == 0 and cs == 0) or not guards:
            continue
        x_disj = w.lt(xs[1], xs[2]) or w.lt(xs[3], xs[0])
        ylo1, yhi1 = (ys[0], ys[1]) if w.le(ys[0], ys[1]) else (ys[1], ys[0])
        ylo2, yhi2 = (ys[2], ys[3]) if w.le(ys[2], ys[3]) else (ys[3], ys[2])
        y_disj = w.lt(yhi1, ylo2) or w.lt(yhi2, ylo1)
        env = lazy_env(se, sweep, dict([('this', UNK)] + [(d, s1 if r == 'earlier' else s2) for d, r in order.items()]))
        for (c, sense, _b, label, is_break) in guards:
            try:
                v = se.ev(sweep, c, env)
            except Unsupported:
                v = None
            if isinstance(v, Poly):
                sg = se.sign(v)
                v = None if sg is None else (sg != 0)
            if v not in (True, False):
                decided[c][1] += 1
                continue
            decided[c][0] += 1
            if v == sense or c in pre_bad:
                continue
            txt = sweep.expr(c)[:70]
            if is_break and not w.gt(xs[2], xs[1]):
                pre_bad[c] = ('`%s` == %s ends the inner loop of the sweep although first(later).x <= second(earlier).x: later segments '
                              'starting at that x (e.g. a vertical one touched by the earlier segment\'s end point) are never tested; '
                              'order type [%s], e.g. %s' % (txt, str(v).lower(), pretty(w.describe()), pretty(w.witness())))
            elif not (x_disj or y_disj):
                pre_bad[c] = ('`%s` == %s skips calculate_intersection although the closed x- and y-ranges of the two segments overlap; '
                              'order type [%s], e.g. %s' % (txt, str(v).lower(), pretty(w.describe()), pretty(w.witness())))
    R.check(res['k1'] is None, 'G2-segment-order-primary-key', '%s#decided-by-first-location-when-it-differs' % lt.q + '(NodeRefSegment)', lt.site,
            'operator<(NodeRefSegment): %s -- the duplicate scan, the x-sweep and find_enclosing_ring rely on the vector being ordered by '
            'first().location()' % res['k1'])
    R.check(res['k2'] is None, 'G2-segment-order-primary-key', '%s#equal-segments-are-not-ordered' % lt.q + '(NodeRefSegment)', lt.site,
            'operator<(NodeRefSegment): %s -- adjacent_find would not see duplicates next to each other' % res['k2'])
    R.check(res['eq'] is None, 'G2-segment-order-primary-key', '%s#equality-of-both-end-points' % eq.q + '(NodeRefSegment)', eq.site,
            'operator==(NodeRefSegment): %s' % res['eq'])
    n_break = 0
    for (c, sense, _b, label, is_break) in guards:
        dec, und = decided[c]
        if dec == 0:
            continue            # not a statement about the coordinates (e.g. the result of the intersection test itself)
        if und:
            R.broken('G3: `%s` is decided by the order type of the coordinates in %d worlds but not in %d' % (sweep.expr(c)[:60], dec, und))
            continue
        n_break += 1 if is_break else 0
        R.check(c not in pre_bad, 'G3-sweep-prefilter-sound', '%s#%s-%s' % (sweep.q, label, 'ends-the-scan-only-past-the-x-range' if is_break else 'skips-only-disjoint-ranges'),
                sweep.loc(c), pre_bad.get(c, ''))
    if sweep is not None and guards and not n_break:
        R.note('G3: the sweep has no early exit (quadratic, but sound)')


def ray_rule(M, R, G):
    fb = M.fb
    fns = [f for f in fb.fns(BA + '::find_enclosing_ring') if f.has_cfg]
    if not fns:
        R.broken('%s::find_enclosing_ring not found' % BA)
        return
    fn = fns[0]
    key0 = fn.q
    pp = [p for p in fn.params if base_type(p['tC']) == NRS and p['tC'].rstrip().endswith('*')]
    if len(pp) != 1:
        R.broken('%s: expected one NodeRefSegment* parameter' % key0)
        return
    P = pp[0]['d']
    # loops that move the pointer
    moves = [n for n in fn.all_nodes() if n.get('k') == 'unop' and n.get('op') in ('++', '--') and (fn.sn(n['sub']) or {}).get('d') == P]
    scan_loops = [l for l in fn.loops if any(fn.in_range(m['id'], l['b'], l['e']) for m in moves)]

    def in_scan(nid):
        return any(fn.in_range(nid, l['b'], l['e']) for l in scan_loops)
    updates = []
    for n in fn.all_nodes():
        tgt = None
        if n.get('k') == 'assign' and n.get('op') in ('+=', '-='):
            tgt = n['lhs']
        elif n.get('k') == 'assign' and n.get('op') == '=' and (fn.sn(n['lhs']) or {}).get('k') == 'var' and \
                any(fn.nodes[x].get('k') == 'var' and fn.nodes[x].get('d') == fn.sn(n['lhs'])['d'] for x in fn.subtree(n['rhs'])):
            tgt = n['lhs']          # n = n + 1
        elif n.get('k') == 'unop' and n.get('op') in ('++', '--'):
            tgt = n['sub']
        if tgt is None or not in_scan(n['id']):
            continue
        t = fn.sn(tgt)
        if t is not None and t.get('k') == 'var' and t.get('vk') == 'local' and S.is_scalar(t.get('t', '')) and '*' not in t.get('t', ''):
            updates.append(n)
    if not updates:
        R.broken('%s: no counter update inside the scan loop' % key0)
        return
    st, cu = G.segment('start'), G.segment('cur')
    a, s = G.syms(cu), G.syms(st)
    ax, ay, bx, by = a[('first', 'x')], a[('first', 'y')], a[('second', 'x')], a[('second', 'y')]
    lx, ly = s[('first', 'x')], s[('first', 'y')]

    def guards(u):
        out = []
        for (c, sense, _b) in guards_of(fn, u['id']):
            if in_scan(c):
                cn = fn.sn(c)
                if cn is not None and ((cn.get('k') == 'binop' and cn['op'] in ('&&', '||')) or (cn.get('k') == 'unop' and cn['op'] == '!')):
                    continue
                out.append((c, sense))
        return out

    def make_env(se):
        memo = {}

        def lazy(d):
            if d in memo:
                return memo[d]
            ent = local_decl(fn, d)
            if ent is None or not isinstance(ent[1].get('init'), int):
                return UNK
            memo[d] = UNK
            env = {'this': UNK, P: cu if in_scan(ent[0]['id']) else st, '__lazy__': lazy}
            try:
                memo[d] = se.ev(fn, ent[1]['init'], env)
            except Unsupported:
                memo[d] = UNK
            return memo[d]
        return {'this': UNK, P: cu, '__lazy__': lazy}

    def atoms(se, u):
        env = make_env(se)
        out = []
        for (c, sense) in guards(u):
            try:
                v = se.ev(fn, c, env)
            except Unsupported:
                v = None
            if isinstance(v, Poly):
                sg = se.sign(v)
                v = None if sg is None else (sg != 0)
            out.append((c, sense, v if v in (True, False) else None))
        return out

    ws = [w for w in product_worlds([[ax, bx, lx], [ay, by, ly]], INT32) if lex_cmp(w, ax, ay, bx, by) < 0]
    table = {}
    for u in updates:
        for w in ws:
            table[(u['id'], id(w))] = atoms(SymExec(fb, w), u)

    def counted(u, w):          # False = definitely not counted
        return all(v is None or v == sense for (_c, sense, v) in table[(u['id'], id(w))])

    def at_loc(w):
        return w.eq(ax, lx) and w.eq(ay, ly)
    ray = [u for u in updates if not any(counted(u, w) for w in ws if at_loc(w)) and any(counted(u, w) for w in ws if not at_loc(w))]
    def target_var(x):
        t = fn.sn(x.get('lhs', x.get('sub')))
        return t.get('d') if t is not None else None
    if not ray or len({target_var(x) for x in ray}) != 1:
        R.broken('%s: expected the counter updates for segments not starting at the location to update one counter, found %d update(s)' % (key0, len(ray)))
        return
    # several updates of the same counter (`if (reverse) --n; else ++n;`) are alternatives of one step: each is checked
    for u in ray:
        decided = None
        for w in ws:
            cs = {c for (c, _s, v) in table[(u['id'], id(w))] if v is not None}
            decided = cs if decided is None else (decided & cs)

        def interval(w):            # the always-decided part of the guard
            return all(v == sense for (c, sense, v) in table[(u['id'], id(w))] if c in decided)
        site = fn.loc(u['id'])
        # C1
        bad = next((w for w in ws if w.eq(bx, lx) and w.eq(by, ly) and counted(u, w)), None)
        R.check(bad is None, 'G4-ray-crossing-interval', key0 + '#segment-ending-at-the-location-is-not-counted', site,
                'a segment whose second() end point IS the location (its cross product with the location is identically 0) is counted as lying '
                'below it: the x interval must be open at second() when collinear points count%s' % (
                    '; order type [%s], e.g. %s' % (pretty(bad.describe()), pretty(bad.witness())) if bad else ''))
        # C2
        bad = next((w for w in ws if w.lt(ax, lx) and w.lt(lx, bx) and not interval(w)), None)
        R.check(bad is None, 'G4-ray-crossing-interval', key0 + '#segments-spanning-the-ray-are-considered', site,
                'a segment with first().x < location.x < second().x is not considered%s' % ('; order type [%s]' % pretty(bad.describe()) if bad else ''))
        bad = next((w for w in ws if (w.lt(lx, ax) or w.lt(bx, lx) or (w.eq(ax, bx))) and not at_loc(w) and interval(w)), None)
        R.check(bad is None, 'G4-ray-crossing-interval', key0 + '#segments-beside-the-ray-and-vertical-ones-are-not-considered', site,
                'a segment entirely left/right of the vertical ray, or a vertical one, is considered%s' % (
                    '; order type [%s], e.g. %s' % (pretty(bad.describe()), pretty(bad.witness())) if bad else ''))
        # C3
        v1 = {interval(w) for w in ws if w.lt(ax, lx) and w.eq(bx, lx) and not (w.eq(by, ly))}
        v2 = {interval(w) for w in ws if w.eq(ax, lx) and w.lt(lx, bx) and not at_loc(w)}
        ok = len(v1) == 1 and len(v2) == 1 and v1 != v2
        R.check(ok, 'G4-ray-crossing-interval', key0 + '#vertex-under-the-location-is-counted-once', site,
                'of the two segments meeting in a vertex with x == location.x (one ending there, one starting there) exactly one must be '
                'considered; ending: %s, starting: %s' % (sorted(v1), sorted(v2)))


    u = ray[0]
    # ---- G6: the backward scan starts behind EVERY segment that starts at the location
    scan = [l for l in scan_loops if fn.in_range(u['id'], l['b'], l['e'])]
    if not scan:
        R.broken('%s: the counter update is not inside a loop that moves the segment pointer' % key0)
        return
    scan = min(scan, key=lambda l: l['e'] - l['b'])
    in_back = lambda nid: fn.in_range(nid, scan['b'], scan['e'])

    def eff_cond(blk):
        c = blk['cond']
        if blk.get('termcls') == 'BinaryOperator':
            return c
        n = fn.sn(c)
        hops = 0
        while n is not None and n.get('k') == 'binop' and n['op'] in ('&&', '||') and hops < 6:
            c = n['rhs']
            n = fn.sn(c)
            hops += 1
        return c
    prune = {}          # block id -> successor index that may not be taken
    for bid, blk in fn.blocks.items():
        if 'cond' not in blk or len(blk['succs']) != 2 or in_back(blk['cond']):
            continue
        c = eff_cond(blk)
        cn = fn.sn(c)
        # end-of-list test: the pointer compared with the address of the last / one-past-last segment
        if cn is not None and cn.get('k') == 'binop' and cn['op'] in ('==', '!='):
            sides = [fn.sn(cn['lhs']), fn.sn(cn['rhs'])]
            ptr = [x for x in sides if x is not None and x.get('k') == 'var' and x.get('d') == P]
            other = [y for y in (cn['lhs'], cn['rhs']) if (fn.sn(y) or {}).get('d') != P]
            if ptr and other and any(fn.nodes[x].get('k') == 'call' and fn.nodes[x].get('q', '').rsplit('::', 1)[-1] in ('back', 'end', 'cend') for x in fn.subtree(other[0])):
                prune[bid] = 0 if cn['op'] == '==' else 1
                continue
        vals = set()
        for w in ws:
            se = SymExec(fb, w)
            env = make_env(se)
            env[P] = cu if in_scan(c) else st
            try:
                v = se.ev(fn, c, env)
            except Unsupported:
                v = None
            if isinstance(v, Poly):
                sg = se.sign(v)
                v = None if sg is None else (sg != 0)
            vals.add((v if v in (True, False) else None) == at_loc(w) if v in (True, False) else None)
            if None in vals or len(vals) > 1:
                break
        if vals == {True}:
            prune[bid] = 1          # `starts at the location` is false: the group was left
        elif vals == {False}:
            prune[bid] = 0
    inside = {e for b in fn.blocks.values() for e in b['elems'] if in_back(e)}
    wit = path_search(fn, fn.entry, lambda e: e in inside, lambda e: is_noreturn(fn, e),
                      lambda b, idx, s_: prune.get(b) != idx, from_block_start=True)
    R.check(wit is None, 'G6-scan-covers-location-group', key0 + '#scan-starts-behind-every-segment-starting-at-the-location', fn.site,
            'the backward scan can start although the segment under the pointer may still start at the query location (no test '
            '`first().location() == location` failed and the end of the list was not reached): segments of the same start location that '
            'follow in the sort order are never examined; path %s' % describe_path(fn, wit))


# ====================================================================================================== [3] output

def output_rules(M, R):
    fb = M.fb
    cr_q = BA + '::create_rings'
    add_q = BA + '::add_rings_to_area'
    users = [f for f in M.fns if not f.q.startswith(BA + '::') and [c for c in calls_of(f, cr_q) if live(f, c['id'])]]
    if not users:
        R.broken('no caller of %s in the fact base' % cr_q)
        return
    area_makers = {}
    for f in users:
        k = fkey(f)
        crs = [c for c in calls_of(f, cr_q) if live(f, c['id'])]
        adds = [c for c in calls_of(f, add_q) if live(f, c['id'])]
        for a in adds:
            ok = any(f.elem_dominates(c['id'], a['id']) for c in crs)
            w = None
            for c in crs:
                w, _facts = reach_under(f, c['id'], False, lambda e, fa, a=a: e == a['id'])
                if w is not None:
                    break
            R.check(ok and w is None, 'R1-rings-added-only-after-success', k + '#add_rings_to_area-requires-create_rings-true', f.loc(a['id']),
                    'add_rings_to_area can run although create_rings() %s: %s' % ('returned false' if ok else 'has not run', describe_path(f, w)))
        if S.strip_cvref(f.retC) == 'bool':
            for c in crs:
                w, _facts = _reach_with_fields(f, c['id'], False, lambda e, fa: return_may_be_true(f, e, fa), {CONFIG + '::create_empty_areas': False})
                R.check(w is None, 'R2-create-area-result', k + '#false-create_rings-gives-false-unless-empty-areas-are-configured', f.loc(c['id']),
                        'after create_rings() returned false %s can return true although create_empty_areas is off: %s' % (f.q, describe_path(f, w)))
        area_makers[f.usr] = f
    # commit / rollback: in the makers themselves and in their direct callers
    sites = []
    for f in users:
        for c in calls_of(f, cr_q):
            if live(f, c['id']):
                sites.append((f, c))
        for (h, c) in M.idx.callers(f):
            if live(h, c['id']) and h.q.startswith('osmium::area::'):
                sites.append((h, c))
    seen = set()
    for (h, c) in sites:
        commits = [x for x in calls_of(h, BUFFER + '::commit') if live(h, x['id'])]
        if not commits:
            continue
        k = fkey(h)
        if (k, c.get('q')) in seen:
            continue
        seen.add((k, c.get('q')))
        ids = {x['id'] for x in commits}
        w, _facts = reach_under(h, c['id'], False, lambda e, fa: e in ids)
        R.check(w is None, 'R3-commit-only-on-success', k + '#no-commit-after-a-false-%s' % c['q'].rsplit('::', 1)[-1], h.loc(c['id']),
                'Buffer::commit is reachable after %s returned false (a rejected area is delivered): %s' % (c['q'], describe_path(h, w)))
        writes = any(q.startswith('osmium::builder::') and q.endswith('::(ctor)') for g in callee_bodies(fb, c) for q in fb.callees_closure(g, depth=1))
        if writes:
            rbs = {x['id'] for x in calls_of(h, BUFFER + '::rollback')}
            facts, _sink, barrier = facts_for_result(h, c['id'], False)
            w = path_search(h, c['id'], lambda e: isinstance(e, tuple) and e[0] == 'exit', lambda e: e in rbs or barrier(e) or is_noreturn(h, e), edge_filter(h, facts))
            R.check(bool(rbs) and w is None, 'R3-commit-only-on-success', k + '#rollback-after-a-false-%s' % c['q'].rsplit('::', 1)[-1], h.loc(c['id']),
                    '%s writes into the output buffer; when it returns false %s can reach its exit without Buffer::rollback: %s'
                    % (c['q'], h.q, describe_path(h, w)))


def _origin(fn, nid):
    """Follow local variables (to their initialiser), dereferences and begin() down to where a value comes from:
    ('field', qualified name, node) | ('call', callee, node) | ('param', decl id, node) | None."""
    hops = 0
    while nid is not None and nid in fn.nodes and hops < 40:
        hops += 1
        n = fn.sn(nid)
        if n is None:
            return None
        k = n.get('k')
        if k == 'var' and n.get('vk') == 'local':
            ent = local_decl(fn, n['d'])
            if ent is None or not isinstance(ent[1].get('init'), int):
                return None
            nid = ent[1]['init']
        elif k == 'var' and n.get('vk') == 'param':
            return ('param', n['d'], n)
        elif k == 'unop' and n.get('op') in ('*', '&'):
            nid = n['sub']
        elif k == 'cast':
            nid = n.get('sub')
        elif k == 'construct' and len(n.get('args', [])) == 1:
            nid = n['args'][0]
        elif k == 'call' and n.get('recv') is not None and (n.get('op') in ('*', '->') or n.get('q', '').rsplit('::', 1)[-1] in ('begin', 'cbegin')):
            nid = n['recv']
        elif k == 'member' and n.get('field'):
            return ('field', n.get('q'), n)
        elif k == 'call':
            return ('call', n.get('q'), n)
        else:
            return None
    return None


RING_BUILDER = 'osmium::builder::NodeRefListBuilder<'


def duplicate_pair_rule(M, R):
    """D1: equal neighbours found by adjacent_find cancel in PAIRS (even-odd rule): the erase that follows removes exactly
    [it, it + 2)."""
    for s_ in M.sites:
        fn = s_.fn
        if s_.kind != 'adjacent' or s_.partial or s_.container is None or not fn.q.startswith((BA + '::', SL + '::')):
            continue
        pm = fn.parent_map()
        x, it_d = s_.node['id'], None
        hops = 0
        while x in pm and hops < 8:
            x = pm[x]
            hops += 1
            if fn.nodes[x].get('k') == 'decl':
                it_d = [v['d'] for v in fn.nodes[x]['vars'] if isinstance(v.get('init'), int) and s_.node['id'] in fn.subtree(v['init'])]
                break
        if not it_d:
            for n in fn.all_nodes():        # `it = std::adjacent_find(...)`
                if n.get('k') == 'call' and n.get('op') == '=' and n.get('recv') is not None and s_.node['id'] in [y for a in n.get('args', []) if a is not None for y in fn.subtree(a)]:
                    r = fn.sn(n['recv'])
                    if r is not None and r.get('k') == 'var':
                        it_d = [r['d']]
        erases = [n for n in fn.all_nodes() if n.get('k') == 'call' and n.get('recv') is not None and n.get('q', '').endswith('::erase')
                  and fn.root_var(n['recv']) == s_.container and live(fn, n['id'])]
        if not erases:
            continue
        key = '%s#%s-removes-exactly-the-two-equal-neighbours' % (fn.q, s_.label())
        ok, msg = bool(it_d), 'cannot see which iterator holds the result of adjacent_find'
        if s_.algo == 'std::unique':
            ok, msg = False, 'std::unique + erase keeps one element of every run of equal neighbours: duplicates must cancel in pairs (even-odd rule)'
        for e in (erases if (it_d and ok) else []):
            args = [a for a in e.get('args', []) if a is not None]
            good = False
            if len(args) == 2:
                def offset(nid, depth=0):
                    """Distance of an iterator expression from the adjacent_find result (named single-definition locals,
                    + / - constants, std::next / std::prev are followed); None when it is something else."""
                    if depth > 8:
                        return None
                    nid = _resolve_local(fn, nid, set(it_d))
                    x, h = fn.sn(nid), 0
                    while x is not None and x.get('k') == 'construct' and len(x.get('args', [])) == 1 and h < 4:
                        nid = _resolve_local(fn, x['args'][0], set(it_d))
                        x = fn.sn(nid)
                        h += 1
                    if x is None:
                        return None
                    if x.get('k') == 'var':
                        return 0 if x.get('d') in it_d else None
                    if x.get('k') == 'call':
                        cargs = [c for c in x.get('args', []) if c is not None]
                        if x.get('op') in ('+', '-') and x.get('recv') is not None and len(cargs) == 1:
                            base, k = offset(x['recv'], depth + 1), fn.const_value(cargs[0])
                            return None if base is None or k is None else (base + k if x['op'] == '+' else base - k)
                        if x.get('q') in ('std::next', 'std::prev') and cargs:
                            base = offset(cargs[0], depth + 1)
                            k = 1 if len(cargs) == 1 or fn.nodes[cargs[1]].get('cls') == 'CXXDefaultArgExpr' else fn.const_value(cargs[1])
                            return None if base is None or k is None else (base + k if x['q'] == 'std::next' else base - k)
                    return None
                first_ok = offset(args[0]) == 0
                step = offset(args[1])
                good = first_ok and step == 2
                if not good:
                    msg = 'erase(%s) after adjacent_find does not remove exactly [it, it + 2): duplicates must cancel in pairs (even-odd rule)' % (
                        ', '.join(fn.expr(a)[:30] for a in args))
            else:
                msg = 'erase with %d argument(s) after adjacent_find removes one element of the equal pair only' % len(args)
            ok = ok and good
        R.check(ok, 'D1-duplicates-cancel-in-pairs', key, fn.loc(erases[0]['id']), msg)


def ring_role_rules(M, R):
    """R4: in add_rings_to_area a ring of the ring list is written with the OuterRing builder under is_outer(), and the
    elements of its inner_rings() with the InnerRing builder, after it."""
    fb = M.fb
    for fn in fb.fns(BA + '::add_rings_to_area'):
        if not fn.has_cfg:
            continue
        emissions = []          # (node in fn, kind, ring argument id)
        for n in fn.all_nodes():
            if n.get('k') == 'construct' and n.get('rclsT', '').startswith(RING_BUILDER):
                R.broken('%s constructs a ring builder inline (unknown shape: which ring it writes)' % fn.q)
            if n.get('k') != 'call' or not live(fn, n['id']):
                continue
            kinds = set()
            for g in callee_bodies(fb, n):
                for x in g.all_nodes():
                    if x.get('k') == 'construct' and x.get('rclsT', '').startswith(RING_BUILDER):
                        kinds.add(x['rclsT'][len(RING_BUILDER):].rstrip('>').strip().rsplit('::', 1)[-1])
            rings = [a for a in n.get('args', []) if a is not None and base_type(fn.nodes[a].get('t', '')) == NS + 'ProtoRing']
            if len(kinds) == 1 and len(rings) == 1:
                emissions.append((n, list(kinds)[0], rings[0]))
            elif kinds:
                R.broken('%s: call %s writes rings in a shape not understood' % (fn.q, fn.expr(n['id'])[:50]))
        own, inner = [], []
        for (n, kind, a) in emissions:
            o = _origin(fn, a)
            if o is not None and o[0] == 'field' and o[1] == BA + '::' + M.ring_field:
                own.append((n, kind, a))
            elif o is not None and o[0] == 'call' and (o[1] or '').endswith('::inner_rings'):
                inner.append((n, kind, a, o[2]))
            else:
                R.broken('%s: cannot tell which ring %s writes' % (fn.q, fn.expr(n['id'])[:50]))

        def outer_guarded(nid, ring_root):
            for (c, sense, _b) in guards_of(fn, nid):
                cn = fn.sn(c)
                if sense and cn is not None and cn.get('k') == 'call' and cn.get('q', '').endswith('::is_outer') and fn.root_var(cn.get('recv')) == ring_root:
                    return True
            return False
        key = fn.q + '#rings-of-the-ring-list-are-written-as-outer-rings-only-if-is_outer'
        ok, msg = bool(own), 'no ring of %s is written' % M.ring_field
        for (n, kind, a) in own:
            if kind != 'OuterRing':
                ok, msg = False, 'a ring taken from %s is written with the %s builder' % (M.ring_field, kind)
            elif not outer_guarded(n['id'], fn.root_var(a)):
                ok, msg = False, 'a ring taken from %s is written as an outer ring without testing is_outer() on it' % M.ring_field
        R.check(ok, 'R4-ring-roles-in-output', key, (fn.loc(own[0][0]['id']) if own else fn.site), msg)
        key = fn.q + '#inner-rings-are-written-as-inner-rings-after-their-outer-ring'
        ok, msg = bool(inner), 'the inner rings of an outer ring are not written'
        for (n, kind, a, src) in inner:
            owner = fn.root_var(src.get('recv')) if src.get('recv') is not None else None
            firsts = [o for o in own if fn.root_var(o[2]) == owner and fn.elem_dominates(o[0]['id'], n['id'])]
            if kind != 'InnerRing':
                ok, msg = False, 'an element of inner_rings() is written with the %s builder' % kind
            elif not firsts:
                ok, msg = False, 'an inner ring is written before / without the outer ring it belongs to (an Area lists each outer ring followed by its inner rings)'
            elif not outer_guarded(n['id'], owner):
                ok, msg = False, 'inner rings are written for a ring that was not tested with is_outer()'
        R.check(ok, 'R4-ring-roles-in-output', key, (fn.loc(inner[0][0]['id']) if inner else fn.site), msg)


def _reach_with_fields(fn, call_id, truth, is_target, fields):
    """reach_under with additional assumptions on configuration fields (member q -> value)."""
    extra = {}
    for n in fn.all_nodes():
        if n.get('k') == 'member' and n.get('field') and n.get('q') in fields:
            extra[fn.expr(n['id'])] = fields[n['q']]
    return reach_under(fn, call_id, truth, is_target, extra)


# ====================================================================================================== limits, ring sum, end points

#: the property's quantifier domain: "up to 100 touching points" (properties.jsonl, C10) -- NOT read from the source
PROPERTY_MAX_TOUCHING_POINTS = 100


def limit_rule(M, R):
    """P4: with no problem detected (no intersection, every rejecting step succeeded, segments left) and at most
    PROPERTY_MAX_TOUCHING_POINTS split locations, create_rings cannot reach `return false`.  Comparisons of the number
    of split locations with constants are decided over all order types of {n, constants}."""
    from ..ordertype import UINT64
    split_q = BA + '::' + M.split_field
    for fn in M.create_rings:
        key = '%s#valid-input-with-up-to-%d-touching-points-is-not-rejected' % (fn.q, PROPERTY_MAX_TOUCHING_POINTS)
        facts = Facts()
        rej_usrs = set(getattr(M, 'rej', {}))
        sweep_usrs = {g.usr for g in getattr(M, 'sweep_fns', [])}
        for c in calls_of(fn):
            if not live(fn, c['id']):
                continue
            if c.get('u') in rej_usrs:
                facts.merge(facts_for_result(fn, c['id'], True)[0])
            elif c.get('u') in sweep_usrs:
                facts.merge(facts_for_result(fn, c['id'], False)[0])
            elif c.get('q', '').rsplit('::', 1)[-1] == 'empty' and c.get('recv') is not None and base_type(fn.nodes[fn.strip(c['recv'])].get('t', '')) == SL:
                facts.nodes[c['id']] = False

        def term(nid):
            n = fn.sn(nid)
            hops = 0
            while n is not None and n.get('k') == 'cast' and hops < 3:
                n = fn.sn(n.get('sub'))
                hops += 1
            if n is None:
                return None
            if n.get('k') == 'call' and n.get('q', '').rsplit('::', 1)[-1] == 'size' and n.get('recv') is not None and \
                    (fn.sn(n['recv']) or {}).get('q') == split_q and fn.is_this_member(n['recv']):
                return 'n'
            v = fn.const_value(nid)
            return v
        consts = {0, PROPERTY_MAX_TOUCHING_POINTS}
        for n in fn.all_nodes():
            if n.get('k') == 'binop' and n.get('op') in ('<', '<=', '>', '>=', '==', '!='):
                a, b = term(n['lhs']), term(n['rhs'])
                if 'n' in (a, b):
                    other = b if a == 'n' else a
                    if isinstance(other, int):
                        consts.add(other)
        bad = None
        for w in worlds({'n': UINT64}, consts):
            if not w.le('n', PROPERTY_MAX_TOUCHING_POINTS):
                continue

            def hook(f, nid, w=w):
                n = f.sn(nid)
                if n is None:
                    return None
                if n.get('k') == 'binop' and n.get('op') in ('<', '<=', '>', '>=', '==', '!='):
                    a, b = term(n['lhs']), term(n['rhs'])
                    if a is not None and b is not None and 'n' in (a, b):
                        try:
                            return w.cmp(n['op'], a, b)
                        except Inexact:
                            return None
                if n.get('k') == 'call' and n.get('q', '').rsplit('::', 1)[-1] == 'empty' and n.get('recv') is not None and \
                        (f.sn(n['recv']) or {}).get('q') == split_q and f.is_this_member(n['recv']):
                    return w.eq('n', 0)
                return None
            fw = facts.copy()
            fw.hook = hook

            def is_false_return(e):
                if isinstance(e, tuple):
                    return False
                n = fn.nodes.get(e)
                return n is not None and n.get('k') == 'return' and 'sub' in n and tv(fn, n['sub'], fw) is False
            path = path_search(fn, fn.entry, is_false_return, lambda e: is_noreturn(fn, e), edge_filter(fn, fw), from_block_start=True)
            if path is not None:
                bad = (w, path)
                break
        R.check(bad is None, 'P4-valid-input-within-limits-is-assembled', key, fn.site,
                'create_rings returns false although no problem was detected (no intersection, no open ring, ring building succeeded) '
                'and the number of split locations is within the property\'s domain: %s; path %s' % (
                    ('n = %s' % bad[0].values.get('n')) if bad else '', describe_path(fn, bad[1]) if bad else ''))


PR = NS + 'ProtoRing'


def _sum_accumulators(M):
    """({usr: (Fn, parameter index)} functions that add det() of their segment parameter to the ring sum, name of the sum field)."""
    fb = M.fb
    acc, sum_fields = {}, set()
    for f in M.fns:
        if f.cls != PR:
            continue
        for n in f.all_nodes():
            if n.get('k') == 'assign' and n.get('op') == '+=' and f.is_this_member(n['lhs']):
                dets = [f.nodes[x] for x in f.subtree(n['rhs']) if f.nodes[x].get('k') == 'call' and f.nodes[x].get('q') == NRS + '::det']
                for d in dets:
                    r = f.root_var(d.get('recv'))
                    pi = [i for i, p in enumerate(f.params) if r is not None and r[0] == 'var' and p['d'] == r[1]]
                    if pi:
                        acc[f.usr] = (f, pi[0])
                        sum_fields.add(f.sn(n['lhs'])['q'])
    changed = True
    while changed:
        changed = False
        for f in M.fns:
            if f.usr in acc or f.cls != PR:
                continue
            for c in calls_of(f):
                if c.get('u') in acc and c.get('recv') is not None and (f.sn(c['recv']) or {}).get('k') == 'this':
                    a = c.get('args', [])[acc[c['u']][1]]
                    r = f.root_var(a) if a is not None else None
                    pi = [i for i, p in enumerate(f.params) if r is not None and r[0] == 'var' and p['d'] == r[1]]
                    if pi and (f.sn(a) or {}).get('k') == 'var':
                        acc[f.usr] = (f, pi[0])
                        changed = True
    return acc, sum_fields


def _reverses_own_segments(M, f):
    """ProtoRing method f (or a lambda it hands to an algorithm over this->segments) calls NodeRefSegment::reverse on the
    ring's own segments."""
    fb = M.fb
    for g in [f] + fb.lambdas_in(f):
        for r in calls_of(g, NRS + '::reverse'):
            if g is f:
                o = _origin(f, r['recv'])
                if o is not None and o[0] == 'field' and f.is_this_member(o[2]['id']):
                    return True
            elif _lambda_over_own_field(M, f, g):
                return True
    return False


def _lambda_over_own_field(M, f, g):
    """Lambda g is passed by f to a std algorithm whose range starts at a member container of *this."""
    fb = M.fb
    for c in calls_of(f):
        if c.get('q', '').startswith('std::') and any(fb.lambda_fn(f, f.nodes[x]) is g for a in c.get('args', []) if a is not None
                                                      for x in f.subtree(a) if f.nodes[x].get('k') == 'lambda'):
            a0 = c.get('args', [None])[0]
            n0 = f.sn(a0) if a0 is not None else None
            if n0 is not None and n0.get('recv') is not None and f.is_this_member(n0['recv']):
                return c
    return None


def ring_sum_rules(M, R):
    """A1: ProtoRing's sum is the sum of det() of its segments IN THEIR CURRENT DIRECTION: a segment is not reversed after
    its det() was added, and a method that reverses the ring's own segments negates the sum."""
    fb = M.fb
    acc, sum_fields = _sum_accumulators(M)
    if not acc or len(sum_fields) != 1:
        R.broken('A1: cannot identify the method of %s that accumulates det() of a segment (found %d, sum fields %s)' % (PR, len(acc), sorted(sum_fields)))
        return
    sum_q = list(sum_fields)[0]
    from ..c10_util import outer_fn
    for f in M.fns:
        # a lambda handed to an algorithm is the loop body of the function it is written in: same instance key
        host = f
        hops = 0
        while host is not None and host.is_lambda and hops < 4:
            host = outer_fn(fb, host)
            hops += 1
        if host is None:
            continue
        adds = []
        for c in list(calls_of(f)) + [n for n in f.all_nodes() if n.get('k') == 'construct' and 'q' in n]:
            if c.get('u') in acc and live(f, c['id']):
                args = c.get('args', [])
                i = acc[c['u']][1]
                if i < len(args) and args[i] is not None:
                    adds.append((c, args[i]))
        # constructing a ring in place (emplace_back on a container of rings) runs the accumulating constructor
        ctor_acc = [(u, i) for u, (g, i) in acc.items() if g.kind == 'ctor']
        for c in calls_of(f):
            if ctor_acc and c.get('q', '').rsplit('::', 1)[-1] in ('emplace_back', 'emplace_front', 'emplace') and c.get('recv') is not None and \
                    base_type(S.element_type(S.strip_cvref(f.nodes[f.strip(c['recv'])].get('t', ''))) or '') == PR and live(f, c['id']):
                args = [a for a in c.get('args', []) if a is not None]
                i = ctor_acc[0][1]
                if i < len(args):
                    adds.append((c, args[i]))
        revs = [n for n in calls_of(f, NRS + '::reverse') if n.get('recv') is not None and live(f, n['id'])]
        if adds:
            key = '%s#segment-not-reversed-after-its-det-was-added' % (fkey(host) if host.cls != PR else host.q)
            why, site = None, f.site
            for (c, a) in adds:
                ta, root = f.expr(f.strip(a)), f.root_var(a)
                for r in revs:
                    if f.expr(f.strip(r['recv'])) != ta:
                        continue

                    def rebinds(e, root=root):
                        if isinstance(e, tuple) or root is None:
                            return False
                        n = f.nodes.get(e, {})
                        if n.get('k') == 'decl':
                            return any(v['d'] == root[1] for v in n['vars'])
                        if n.get('k') == 'assign' or (n.get('k') == 'call' and n.get('op') in ('=', '++', '--')) or (n.get('k') == 'unop' and n.get('op') in ('++', '--')):
                            t = n.get('lhs', n.get('recv', n.get('sub')))
                            return t is not None and f.root_var(t) == root and (f.sn(t) or {}).get('k') == 'var'
                        return False
                    w = path_search(f, c['id'], lambda e, r=r: e == r['id'], rebinds)
                    if w is not None and why is None:
                        why, site = ('`%s` is reversed at %s after its det() was added to the ring sum by `%s`: the sum (orientation, '
                                     'candidate areas) gets the contribution with the wrong sign' % (ta, f.loc(r['id']), f.expr(c['id'])[:50])), f.loc(c['id'])
            R.check(why is None, 'A1-ring-sum-matches-segment-directions', key, site, why or '')
    # methods of the ring that reverse its OWN segments
    for f in M.fns:
        if f.cls != PR or f.is_lambda:
            continue
        own_rev = _reverses_own_segments(M, f)
        if not own_rev:
            continue
        negs = [n['id'] for n in f.all_nodes() if n.get('k') == 'assign' and n.get('op') == '=' and (f.sn(n['lhs']) or {}).get('q') == sum_q and f.is_this_member(n['lhs'])
                and (f.sn(n['rhs']) or {}).get('k') == 'unop' and f.sn(n['rhs'])['op'] == '-' and (f.sn(f.sn(n['rhs'])['sub']) or {}).get('q') == sum_q]
        w = path_search(f, f.entry, lambda e: isinstance(e, tuple) and e[0] == 'exit', lambda e: e in negs or is_noreturn(f, e), from_block_start=True) if negs else ['-']
        R.check(w is None, 'A1-ring-sum-matches-segment-directions', '%s#reversing-the-own-segments-negates-the-sum' % f.q, f.site,
                '%s reverses the segments of the ring but does not negate %s on every path' % (f.q, sum_q.rsplit('::', 1)[-1]))


MUTATING = tuple(S.ORDER_BREAKING) + ('erase', 'clear', 'pop_back', 'pop_front')


def _field_writes(M, m):
    """{field qualified name: node} data members written by ProtoRing method m: assignments / mutating calls on members of
    *this, and members of the ring's segments written through a NodeRefSegment method applied to the own segments."""
    fb = M.fb
    out = {}
    for n in m.all_nodes():
        if n.get('k') == 'assign' and m.is_this_member(n['lhs']):
            out[m.sn(n['lhs'])['q']] = n
        if n.get('k') == 'call' and n.get('recv') is not None and m.is_this_member(n['recv']) and 'q' in n and \
                (n['q'].rsplit('::', 1)[-1] in MUTATING or n.get('op') == '='):
            out[m.sn(n['recv'])['q']] = n
    for g in [m] + fb.lambdas_in(m):
        if g is not m and not _lambda_over_own_field(M, m, g):
            continue
        for c in calls_of(g):
            if c.get('rcls') != NRS or c.get('recv') is None:
                continue
            if g is m:
                o = _origin(m, c['recv'])
                if not (o is not None and o[0] == 'field' and m.is_this_member(o[2]['id'])):
                    continue
            for h in callee_bodies(fb, c):
                for x in h.all_nodes():
                    if x.get('k') == 'assign' and h.is_this_member(x['lhs']):
                        out[h.sn(x['lhs'])['q']] = (c if g is m else _lambda_over_own_field(M, m, g))
    return out


def reset_rules(M, R):
    """A2: ProtoRing::reset() re-initialises every member that the calls preceding it (the tentative classification) write
    through ProtoRing methods -- orientation (reverse) excepted, which A1 keeps consistent."""
    fb = M.fb
    resets = [f for f in fb.fns(PR + '::reset') if f.has_cfg]
    if not resets:
        R.broken('%s::reset not found' % PR)
        return
    rs = resets[0]
    users = [(f, c) for (f, c) in M.idx.callers(rs) if f.q.startswith('osmium::area::') and live(f, c['id'])]
    if not users:
        R.broken('%s::reset has no caller in the fact base' % PR)
        return
    written = {}            # field -> (writer method, via function)
    for (f, rc) in users:
        seen = set()
        work = [(f, c, 0) for c in calls_of(f) if c.get('u') and c['id'] != rc['id'] and live(f, c['id'])
                and path_search(f, c['id'], lambda e, rc=rc: e == rc['id'], lambda e: False) is not None]
        while work:
            (h, c, d) = work.pop()
            for g in callee_bodies(fb, c):
                if id(g) in seen or not g.q.startswith('osmium::area::') or g.usr == rs.usr:
                    continue
                seen.add(id(g))
                if g.cls == PR:
                    if g.kind in ('ctor', 'dtor') or _reverses_own_segments(M, g):
                        continue
                    for fq in _field_writes(M, g):
                        written.setdefault(fq, (g, f))
                if d < 5:
                    for gl in [g] + fb.lambdas_in(g):
                        work.extend((gl, x, d + 1) for x in calls_of(gl) if x.get('u'))
    if not written:
        R.broken('A2: the calls preceding %s::reset write no member of the ring (unknown shape of the tentative classification)' % PR)
        return
    own = _field_writes(M, rs)

    def value_of(host, n):
        """What a write node establishes: ('const', v) | ('null',) | ('cleared',) | ('other', text)."""
        if n.get('k') == 'assign':
            if (host.sn(n['rhs']) or {}).get('null') or any(host.nodes[x].get('null') for x in host.subtree(n['rhs'])):
                return ('null',)
            v = host.const_value(n['rhs'])
            return ('const', v) if v is not None else ('other', host.expr(n['rhs'])[:40])
        if n.get('k') == 'call' and n.get('q', '').rsplit('::', 1)[-1] == 'clear':
            return ('cleared',)
        return ('other', host.expr(n['id'])[:40])

    def default_of(fq):
        cls = fq.rsplit('::', 1)[0]
        for c in fb.fns(cls + '::(ctor)'):
            for n in c.all_nodes():
                if n.get('k') == 'init' and n.get('q') == fq and n.get('init') is not None:
                    if any(c.nodes[x].get('null') for x in c.subtree(n['init'])):
                        return ('null',)
                    v = c.const_value(n['init'])
                    if v is not None:
                        return ('const', v)
        return None

    def established(fq):
        """Value reset() gives the member (for members of the segments: by the NodeRefSegment method it applies)."""
        for n in rs.all_nodes():
            if n.get('k') == 'assign' and rs.is_this_member(n['lhs']) and rs.sn(n['lhs'])['q'] == fq:
                return value_of(rs, n)
            if n.get('k') == 'call' and n.get('recv') is not None and rs.is_this_member(n['recv']) and rs.sn(n['recv'])['q'] == fq and 'q' in n \
                    and (n['q'].rsplit('::', 1)[-1] in MUTATING or n.get('op') == '='):
                return value_of(rs, n)
        for g in [rs] + fb.lambdas_in(rs):
            for c in calls_of(g):
                if c.get('rcls') == NRS:
                    for h in callee_bodies(fb, c):
                        for x in h.all_nodes():
                            if x.get('k') == 'assign' and h.is_this_member(x['lhs']) and h.sn(x['lhs'])['q'] == fq:
                                return value_of(h, x)
        return None
    for fq, (g, via) in sorted(written.items()):
        key = '%s#re-initialises-%s' % (rs.q, fq)
        n = own.get(fq)
        ok, msg = n is not None, '%s is written by %s during the tentative classification in %s but %s() does not re-initialise it: the second ' \
                                 'classification starts from stale links (e.g. the same inner ring attached twice)' % (fq, g.q, via.q, rs.q)
        if ok:
            nid = n['id']
            loops = [l for l in rs.loops if rs.in_range(nid, l['b'], l['e'])]
            hit = {nid}
            if loops:           # a per-segment write inside a loop over the segments: reaching the loop is what counts
                lo = max(loops, key=lambda l: l['e'] - l['b'])
                hit = {e for b in rs.blocks.values() for e in b['elems'] if rs.in_range(e, lo['b'], lo['e'])}
            w = path_search(rs, rs.entry, lambda e: isinstance(e, tuple) and e[0] == 'exit', lambda e: e in hit or is_noreturn(rs, e), from_block_start=True)
            if w is not None:
                ok, msg = False, '%s() re-initialises %s only on some paths: %s' % (rs.q, fq, describe_path(rs, w))
            else:
                got, want = established(fq), default_of(fq)
                if got is None or got[0] == 'other' or (want is not None and got != want) or (want is None and got != ('cleared',)):
                    ok, msg = False, '%s() sets %s to %s, not to its initial state %s' % (rs.q, fq, got, want or ('cleared',))
        R.check(ok, 'A2-reset-undoes-tentative-classification', key, rs.loc(n['id']) if n is not None else rs.site, msg)


def _reassigned(fn, d):
    """Local variable d is written after its declaration (assignment, compound assignment, ++/--)."""
    cache = getattr(fn, '_c10_reassigned', None)
    if cache is None:
        cache = set()
        for n in fn.all_nodes():
            t = None
            if n.get('k') == 'assign':
                t = n['lhs']
            elif n.get('k') == 'unop' and n.get('op') in ('++', '--'):
                t = n['sub']
            elif n.get('k') == 'call' and n.get('op') in ('=', '+=', '-=', '++', '--') and n.get('recv') is not None:
                t = n['recv']
            x = fn.sn(t) if t is not None else None
            if x is not None and x.get('k') == 'var':
                cache.add(x['d'])
        fn._c10_reassigned = cache
    return d in cache


def _resolve_local(fn, nid, keep):
    """Follow named locals with a single definition to their initialiser (not the variables in `keep`)."""
    hops = 0
    while hops < 10:
        n = fn.sn(nid)
        x, h2 = n, 0
        while x is not None and x.get('k') == 'construct' and (x.get('copymove') or x.get('elidable') or '_iterator' in x.get('rclsT', '')) \
                and len(x.get('args', [])) == 1 and h2 < 3:
            x = fn.sn(x['args'][0])
            h2 += 1
        if x is None or x.get('k') != 'var' or x.get('vk') != 'local' or x.get('d') in keep or _reassigned(fn, x['d']):
            return nid
        ent = local_decl(fn, x['d'])
        if ent is None or not isinstance(ent[1].get('init'), int):
            return nid
        nid = ent[1]['init']
        hops += 1
    return nid


def extremum_rules(M, R):
    """A3: a guarded replacement `V.front() = c` / `V.back() = c` compares c's key with the key of the element it replaces,
    with the same key function, and the two slots use opposite directions (insertion at begin() agreeing with front())."""
    fb = M.fb
    n_inst = 0
    for fn in M.fns:
        if not fn.q.startswith(BA + '::') or fn.is_lambda:
            continue
        repl = []
        for n in fn.all_nodes():
            if n.get('k') == 'call' and n.get('op') == '=' and n.get('recv') is not None and live(fn, n['id']):
                r = fn.sn(n['recv'])
                a = fn.sn((n.get('args') or [None])[0]) if n.get('args') else None
                if r is not None and r.get('k') == 'call' and r.get('q', '').rsplit('::', 1)[-1] in ('front', 'back') and r.get('recv') is not None \
                        and a is not None and a.get('k') == 'var' and fn.root_var(r['recv']) is not None and fn.root_var(r['recv'])[0] == 'var':
                    repl.append((n, r['q'].rsplit('::', 1)[-1], fn.root_var(r['recv']), a['d']))
        if not repl:
            continue
        slots = {}

        def elem_accessor(nid, V):
            """'front' / 'back' / 'other' if the expression reads an element of container V, else None."""
            for x in fn.subtree(nid):
                c = fn.nodes[x]
                if c.get('k') == 'call' and c.get('recv') is not None and fn.root_var(c['recv']) == V and (fn.sn(c['recv']) or {}).get('k') == 'var':
                    nm = c.get('q', '').rsplit('::', 1)[-1]
                    if nm in ('front', 'back'):
                        return nm, x
                    if nm in ('operator[]', 'at', 'begin', 'end', 'rbegin', 'cbegin'):
                        return 'other', x
            return None

        def same_key(x, y, cd, ex, ey):
            """Structural equality of two key expressions where `var c` on one side stands for the element on the other."""
            x, y = _resolve_local(fn, x, {cd}), _resolve_local(fn, y, {cd})
            a, b = fn.sn(x), fn.sn(y)
            if a is None or b is None:
                return False
            if (a.get('k') == 'var' and a.get('d') == cd) or a.get('id') == ex:
                return (b.get('k') == 'var' and b.get('d') == cd) or b.get('id') == ey
            if a.get('k') != b.get('k') or a.get('op') != b.get('op') or a.get('q') != b.get('q') or a.get('name') != b.get('name'):
                return False
            ca, cb = [c for c in fn.children(a['id'])], [c for c in fn.children(b['id'])]
            if a.get('k') == 'call' and 'recv' not in a:
                ca, cb = [c for c in a.get('args', []) if c is not None], [c for c in b.get('args', []) if c is not None]
            return len(ca) == len(cb) and all(same_key(p, q, cd, ex, ey) for p, q in zip(ca, cb))

        def comparisons(node_id, V, cd):
            """[(accessor, direction of `key(c) ? key(element)` that must hold, same key?)] from the guards of node_id."""
            out = []
            for (c, sense, _b) in guards_of(fn, node_id):
                cn = fn.sn(c)
                if cn is None or cn.get('k') != 'binop' or cn['op'] not in ('<', '>', '<=', '>='):
                    continue
                l, r = _resolve_local(fn, cn['lhs'], {cd}), _resolve_local(fn, cn['rhs'], {cd})
                mentions_c = lambda z: any(fn.nodes[x].get('k') == 'var' and fn.nodes[x].get('d') == cd for x in fn.subtree(z))
                el, er = elem_accessor(l, V), elem_accessor(r, V)
                if mentions_c(l) and er is not None and el is None:
                    op, acc, ex = cn['op'], er, (l, r)
                elif mentions_c(r) and el is not None and er is None:
                    op, acc, ex = {'<': '>', '>': '<', '<=': '>=', '>=': '<='}[cn['op']], el, (r, l)
                else:
                    continue
                if not sense:
                    op = {'<': '>=', '>': '<=', '<=': '>', '>=': '<'}[op]
                out.append((acc[0], op, same_key(ex[0], ex[1], cd, None, acc[1]), sense, c))
            return out
        for (n, slot, V, cd) in repl:
            n_inst += 1
            key = '%s#replacement-of-%s()-compares-with-the-replaced-element' % (fn.q, slot)
            cmps = [x for x in comparisons(n['id'], V, cd) if x[3]]          # the tests that must be TRUE for the replacement
            if not cmps:
                R.broken('%s: the replacement `%s` is not guarded by a comparison of its value with an element of the container '
                         '(unknown shape of the extremum tracker)' % (key, fn.expr(n['id'])[:50]))
                continue
            wrong = [x for x in cmps if x[0] != slot]
            nokey = [x for x in cmps if not x[2]]
            strict = [x for x in cmps if x[0] == slot and x[1] in ('<', '>')]
            ok, msg = True, ''
            if wrong:
                ok, msg = False, '`%s` replaces %s() but is decided by a comparison with %s(): `%s`' % (fn.expr(n['id'])[:40], slot, wrong[0][0], fn.expr(wrong[0][4])[:70])
            elif nokey:
                ok, msg = False, 'the two sides of `%s` do not apply the same key to the new value and to the element' % fn.expr(nokey[0][4])[:70]
            elif not strict:
                ok, msg = False, 'the replacement of %s() is not guarded by a strict ordering test' % slot
            R.check(ok, 'A3-extremum-tracker-consistent', key, fn.loc(n['id']), msg)
            if ok:
                slots.setdefault(slot, set()).add(strict[0][1])
        # insertion at the beginning must agree with front()
        for n in fn.all_nodes():
            if n.get('k') == 'call' and n.get('q', '').rsplit('::', 1)[-1] == 'insert' and n.get('recv') is not None and live(fn, n['id']):
                V = fn.root_var(n['recv'])
                args = [a for a in n.get('args', []) if a is not None]
                if len(args) == 2 and any(fn.nodes[x].get('q', '').rsplit('::', 1)[-1] in ('begin', 'cbegin') for x in fn.subtree(args[0])) \
                        and (fn.sn(args[1]) or {}).get('k') == 'var' and any(r[2] == V for r in repl):
                    for x in comparisons(n['id'], V, fn.sn(args[1])['d']):
                        if x[3] and x[1] in ('<', '>'):
                            slots.setdefault('front', set()).add(x[1])
        if 'front' in slots or 'back' in slots:
            key = '%s#smallest-and-largest-slot-use-opposite-directions' % fn.q
            f_, b_ = slots.get('front', set()), slots.get('back', set())
            ok = len(f_) <= 1 and len(b_) <= 1 and (not f_ or not b_ or f_ != b_)
            R.check(ok, 'A3-extremum-tracker-consistent', key, fn.site,
                    'front() is replaced / inserted before when the new key is %s, back() when it is %s: the two extremum slots must use '
                    'opposite directions' % (sorted(f_), sorted(b_)))
    if n_inst == 0:
        R.broken('A3: no guarded replacement of front()/back() found in %s (unknown shape of the candidate tracker)' % BA)


def group_skip_rule(M, R):
    """S5: in a scan `it = adjacent_find(it, end)` over a sorted container, a new pair test is only reached after some test
    showed that the cursor is at the end or at an element whose key differs from the group's (or the cursor was
    re-positioned by an algorithm / helper): a single step leaves the rest of an equal group to be taken for a pair."""
    fb = M.fb
    for s_ in M.sites:
        fn = s_.fn
        if s_.kind != 'adjacent' or not s_.partial or s_.container is None or not fn.q.startswith(BA + '::'):
            continue
        A = s_.node['id']
        if not [l for l in fn.loops if fn.in_range(A, l['b'], l['e'])]:
            continue
        V = s_.container
        key = '%s#next-pair-test-only-after-the-equal-group-was-left' % fn.q

        def is_cursor(nid):
            r = fn.root_var(nid)
            n = fn.sn(nid)
            if r is None or r[0] != 'var':
                return None
            ent = local_decl(fn, r[1])
            return r[1] if ent is not None and '__normal_iterator' in ent[1]['tC'] else None

        def hook(f, nid):
            n = f.sn(nid)
            if n is None or n.get('k') not in ('call', 'binop'):
                return None
            if n.get('k') == 'call':
                if n.get('op') not in ('==', '!=') or n.get('recv') is not None:
                    return None
                args = [a for a in n.get('args', []) if a is not None]
            else:
                if n.get('op') not in ('==', '!='):
                    return None
                args = [n['lhs'], n['rhs']]
            if len(args) != 2:
                return None
            ends = [any(f.nodes[x].get('k') == 'call' and f.nodes[x].get('q', '').rsplit('::', 1)[-1] in ('end', 'cend') and f.root_var(f.nodes[x].get('recv')) == V
                        for x in f.subtree(a)) for a in args]
            curs = [is_cursor(a) for a in args]
            if ends[0] != ends[1] and (curs[1] if ends[0] else curs[0]) is not None:
                return n.get('op') == '!='                 # assume: no cursor is at the end
            if (curs[0] is not None or curs[1] is not None) and curs[0] != curs[1] and not any(ends):
                t0, t1 = f.nodes[f.strip(args[0])].get('t', ''), f.nodes[f.strip(args[1])].get('t', '')
                if '__normal_iterator' not in t0 and '__normal_iterator' not in t1 and S.strip_cvref(t0) == S.strip_cvref(t1) and not S.is_scalar(t0):
                    return n.get('op') == '=='             # assume: the key under a cursor never differs from the key it is compared with
            return None
        facts = Facts()
        facts.hook = hook

        def repositioned(e):
            if isinstance(e, tuple):
                return False
            n = fn.nodes.get(e, {})
            if n.get('k') == 'call' and n.get('op') == '=' and n.get('recv') is not None and is_cursor(n['recv']) is not None and A not in fn.subtree(e):
                for x in [y for a in n.get('args', []) if a is not None for y in fn.subtree(a)]:
                    c = fn.nodes[x]
                    if c.get('k') == 'call' and 'op' not in c and c.get('q') not in ('std::next', 'std::prev', 'std::advance') and \
                            c.get('q', '').rsplit('::', 1)[-1] not in ('begin', 'cbegin', 'end', 'cend'):
                        return True
            return False
        w = path_search(fn, A, lambda e: e == A, lambda e: repositioned(e) or is_noreturn(fn, e), edge_filter(fn, facts))
        R.check(w is None, 'S5-equal-group-skipped-entirely', key, s_.loc,
                'the next adjacent_find can be reached without any test having shown that the cursor left the group of equal keys (or the '
                'end): with more than two equal elements the remaining ones are taken for an unambiguous pair; path %s' % describe_path(fn, w))


def direction_mark_rule(M, R):
    """A4: a function that classifies rings while it builds them (adds segments to a ring AND asks find_enclosing_ring)
    marks every segment it adds direction-done on every path: find_enclosing_ring ignores unmarked segments."""
    fb = M.fb
    acc, _sum = _sum_accumulators(M)
    fer = [f for f in fb.fns(BA + '::find_enclosing_ring') if f.has_cfg]
    if not acc or not fer:
        R.broken('A4: accumulating ring methods / find_enclosing_ring not found')
        return
    # the flag find_enclosing_ring reads through a const accessor of the scanned segment, and the method that sets it
    flags = set()
    for c in calls_of(fer[0]):
        if c.get('rcls') == NRS:
            for g in callee_bodies(fb, c):
                rets = [n for n in g.all_nodes() if n.get('k') == 'return' and 'sub' in n]
                if g.const and len(rets) == 1 and g.is_this_member(rets[0]['sub']) and S.strip_cvref(g.sn(rets[0]['sub']).get('t', '')) == 'bool':
                    flags.add(g.sn(rets[0]['sub'])['q'])
    markers = set()
    for g in fb.functions:
        if g.cls == NRS and g.has_cfg and g.kind == 'method':
            for n in g.all_nodes():
                if n.get('k') == 'assign' and n.get('op') == '=' and g.is_this_member(n['lhs']) and g.sn(n['lhs'])['q'] in flags and g.const_value(n['rhs']) == 1:
                    markers.add(g.usr)
    if not markers:
        R.broken('A4: cannot identify the flag find_enclosing_ring tests on a segment and the method that sets it')
        return
    n_inst = 0
    for f in M.fns:
        if f.is_lambda or not f.q.startswith(BA + '::') or not [c for c in calls_of(f, BA + '::find_enclosing_ring') if live(f, c['id'])]:
            continue
        adds = []
        ctor_acc = [(u, i) for u, (g, i) in acc.items() if g.kind == 'ctor']
        for c in calls_of(f):
            if not live(f, c['id']):
                continue
            args = [a for a in c.get('args', []) if a is not None]
            if c.get('u') in acc and acc[c['u']][1] < len(c.get('args', [])) and c['args'][acc[c['u']][1]] is not None:
                adds.append((c, c['args'][acc[c['u']][1]]))
            elif ctor_acc and c.get('q', '').rsplit('::', 1)[-1] in ('emplace_back', 'emplace_front', 'emplace') and c.get('recv') is not None and \
                    base_type(S.element_type(S.strip_cvref(f.nodes[f.strip(c['recv'])].get('t', ''))) or '') == PR and ctor_acc[0][1] < len(args):
                adds.append((c, args[ctor_acc[0][1]]))
        if not adds:
            continue
        n_inst += 1
        key = '%s#segments-added-while-classifying-are-marked-direction-done' % fkey(f)
        why, site = None, f.site
        for (c, a) in adds:
            ta, root = f.expr(f.strip(a)), f.root_var(a)
            marks = {m['id'] for m in calls_of(f) if m.get('u') in markers and m.get('recv') is not None and f.expr(f.strip(m['recv'])) == ta}
            ent = local_decl(f, root[1]) if root is not None and root[0] == 'var' else None

            def rebinds(e):
                n = f.nodes.get(e, {}) if not isinstance(e, tuple) else {}
                return n.get('k') == 'decl' and root is not None and any(v['d'] == root[1] for v in n['vars'])
            if ent is not None:
                before = path_search(f, ent[0]['id'], lambda e: e == c['id'], lambda e: e in marks)
            else:
                before = path_search(f, f.entry, lambda e: e == c['id'], lambda e: e in marks, from_block_start=True)
            after = path_search(f, c['id'], lambda e: rebinds(e) or (isinstance(e, tuple) and e[0] == 'exit'), lambda e: e in marks or is_noreturn(f, e))
            if before is not None and after is not None and why is None:
                why, site = ('`%s` is added to a ring by `%s` but not marked direction-done on the path %s ... %s: find_enclosing_ring() '
                             'skips segments without the mark, so later rings are classified without it' % (
                                 ta, f.expr(c['id'])[:40], describe_path(f, before)[-80:], describe_path(f, after)[-60:])), f.loc(c['id'])
        R.check(why is None, 'A4-classified-segments-marked-done', key, site, why or '')
    if n_inst == 0:
        R.broken('A4: no function of %s both adds segments to a ring and calls find_enclosing_ring (unknown shape of the simple-case builder)' % BA)


def backtracking_rule(M, R):
    """A5: backtracking state around a recursive self-call: when a function pushes onto a container before it calls itself
    (the push dominates the call) and pops that container after the call on SOME path, it pops it on EVERY normal path
    from the call to the function exit / the next push / the next recursive call."""
    n_inst = 0
    for f in M.fns:
        if f.is_lambda:
            continue
        recs = [c for c in calls_of(f) if c.get('u') == f.usr and live(f, c['id'])]
        if not recs:
            continue
        muts = {}
        for n in f.all_nodes():
            if n.get('k') == 'call' and n.get('recv') is not None and 'q' in n and 'op' not in n and live(f, n['id']):
                nm = n['q'].rsplit('::', 1)[-1]
                kind = 'push' if nm in ('push_back', 'emplace_back', 'push_front', 'emplace_front', 'insert', 'emplace') else \
                    ('pop' if nm in ('pop_back', 'pop_front', 'erase', 'resize', 'clear') else None)
                root = f.root_var(n['recv'])
                if kind and root is not None and (f.sn(n['recv']) or {}).get('k') in ('var', 'member'):
                    muts.setdefault(root, {'push': [], 'pop': []})[kind].append(n)
        for root, m in sorted(muts.items(), key=lambda kv: str(kv[0])):
            for r in recs:
                pushes = [p for p in m['push'] if f.elem_dominates(p['id'], r['id'])]
                pops = {p['id'] for p in m['pop']}
                restoring = [p for p in pops if path_search(f, r['id'], lambda e, p=p: e == p, lambda e: False) is not None]
                if not pushes or not restoring:
                    continue
                n_inst += 1
                push_ids = {p['id'] for p in pushes}
                rec_ids = {c['id'] for c in recs}
                w = path_search(f, r['id'], lambda e: (isinstance(e, tuple) and e[0] == 'exit') or e in push_ids or e in rec_ids,
                                lambda e: e in pops or is_noreturn(f, e))
                R.check(w is None, 'A5-backtracking-state-restored', '%s#%s-pushed-before-the-recursion-is-popped-on-every-path' % (f.q, root[-1]),
                        f.loc(r['id']), '%s pushes onto `%s` before it calls itself and pops it afterwards only on some paths: the entry of this '
                        'level stays on the stack and later branches of the search see it as visited; path without the pop: %s'
                        % (f.q, root[-1], describe_path(f, w)))
    if n_inst == 0:
        R.broken('A5: no recursive function with push-before / pop-after the self-call found (unknown shape of the candidate search)')


def end_points_rule(M, R, G):
    """G5: a segment is stored only under a test that decides that the LOCATIONS of its two end points differ."""
    fb = M.fb
    sites = list(M.seg_proto.mutators)
    if not sites:
        R.broken('G5: no insertion into %s::%s found' % (SL, M.seg_field))
        return
    for (fn, n, nm) in sites:
        key = '%s#segment-stored-only-between-different-locations' % fn.q
        ends = [a for a in n.get('args', []) if a is not None and base_type(fn.nodes[a].get('t', '')) == 'osmium::NodeRef']
        if len(ends) != 2 or any((fn.sn(a) or {}).get('k') != 'var' for a in ends):
            R.broken('%s: cannot see the two NodeRef end points of the stored segment' % key)
            continue
        na, nb = G.noderef('a'), G.noderef('b')
        (ax, ay), (bx, by) = G.noderef_syms(G.se0, na), G.noderef_syms(G.se0, nb)
        refs = [p.symbol() for p in (na.f.get('m_ref'), nb.f.get('m_ref')) if isinstance(p, Poly)] if isinstance(na, Obj) else []
        groups = [[ax, bx], [ay, by]] + ([refs] if len(refs) == 2 else [])
        gs = [(c, sense) for (c, sense, _b) in guards_of(fn, n['id'])
              if not ((fn.sn(c) or {}).get('k') == 'binop' and fn.sn(c)['op'] in ('&&', '||')) and not ((fn.sn(c) or {}).get('k') == 'unop' and fn.sn(c)['op'] == '!')]
        bad = dropped = None
        for w in product_worlds(groups, INT32):
            same = w.eq(ax, bx) and w.eq(ay, by)
            se = SymExec(fb, w)
            env = lazy_env(se, fn, {'this': UNK, fn.sn(ends[0])['d']: na, fn.sn(ends[1])['d']: nb})
            excluded = None
            for (c, sense) in gs:
                try:
                    v = se.ev(fn, c, env)
                except Unsupported:
                    v = None
                if isinstance(v, Poly):
                    sg = se.sign(v)
                    v = None if sg is None else (sg != 0)
                if v in (True, False) and v != sense:
                    excluded = c
                    break
            if same and excluded is None and bad is None:
                bad = w
            if not same and excluded is not None and dropped is None:
                dropped = (w, excluded)
        R.check(bad is None, 'G5-segment-end-points-differ', key, fn.loc(n['id']),
                'a segment can be stored although both end points have the same location (the guards do not decide that the LOCATIONS '
                'differ; comparing NodeRefs compares ids): zero-length segments become bogus 2-point rings%s' % (
                    '; order type [%s], e.g. %s' % (pretty(bad.describe()), pretty(bad.witness())) if bad else ''))
        R.check(dropped is None, 'G5-segment-end-points-differ', '%s#segment-between-different-locations-is-stored' % fn.q, fn.loc(n['id']),
                'a segment between two DIFFERENT locations is not stored because of `%s`: part of a valid ring is dropped%s' % (
                    fn.expr(dropped[1])[:60] if dropped else '',
                    '; order type [%s], e.g. %s' % (pretty(dropped[0].describe()), pretty(dropped[0].witness())) if dropped else ''))


# ====================================================================================================== driver

def all_rules(fb, R):
    M = build_model(fb, R)
    if M is None:
        return
    pipeline_rules(M, R)
    pairing_rules(M, R)
    locations_rules(M, R)
    local_container_rules(M, R)
    nearest_ring_rule(M, R)
    segment_storage_rules(M, R)
    output_rules(M, R)
    ring_role_rules(M, R)
    duplicate_pair_rule(M, R)
    limit_rule(M, R)
    ring_sum_rules(M, R)
    reset_rules(M, R)
    extremum_rules(M, R)
    group_skip_rule(M, R)
    direction_mark_rule(M, R)
    backtracking_rule(M, R)
    try:
        G = Geo(fb)
        normal_form_rule(M, R, G)
        two_segment_rules(M, R, G)
        ray_rule(M, R, G)
        end_points_rule(M, R, G)
    except (Unsupported, Inexact) as e:
        R.broken('geometry rules: %s' % e)


def run(ctx):
    R = ctx.R
    configs = ['ndebug14'] if ctx.tier == 'quick' else ['ndebug14', 'debug14', 'ndebug17', 'debug17']
    for cfg in configs:
        fb = ctx.facts(['relarea'], cfg)
        all_rules(fb, R)
    R.expect('P1-pipeline-order', 5)
    R.expect('P1-accepting-path-runs-stage', 6)
    R.expect('P2-rejection-propagates', 4)
    R.expect('P2-open-ring-returns-false', 2)
    R.expect('P3-problem-counted-and-reported', 27)
    R.expect('S1-search-key-agrees-with-sort-key', 5)
    R.expect('S2-searched-after-sort', 12)
    R.expect('S3-sorted-storage-stays-sorted', 3)
    R.expect('S4-nearest-ring-chosen', 1)
    R.expect('G1-segment-normal-form', 1)
    R.expect('G2-segment-order-primary-key', 3)
    R.expect('G3-sweep-prefilter-sound', 2)
    R.expect('G4-ray-crossing-interval', 4)
    R.expect('R1-rings-added-only-after-success', 6)
    R.expect('R2-create-area-result', 6)
    R.expect('R3-commit-only-on-success', 10)
    R.expect('R4-ring-roles-in-output', 2)
    R.expect('D1-duplicates-cancel-in-pairs', 2)
    R.expect('P4-valid-input-within-limits-is-assembled', 1)
    R.expect('A1-ring-sum-matches-segment-directions', 6)
    R.expect('G5-segment-end-points-differ', 2)
    R.expect('A2-reset-undoes-tentative-classification', 3)
    R.expect('A3-extremum-tracker-consistent', 3)
    R.expect('G6-scan-covers-location-group', 1)
    R.expect('S5-equal-group-skipped-entirely', 1)
    R.expect('A4-classified-segments-marked-done', 1)
    R.expect('A5-backtracking-state-restored', 1)


# ====================================================================================================== positive self-test

_SELFTEST_MEMO = {}


def _selftest_all(fb, R):
    """All rule groups on the miniature assembler of selftest/positive/c10_assembler.cpp (computed once per unit)."""
    key = tuple(fb.units)
    if key not in _SELFTEST_MEMO:
        from ..engine import Reporter
        sub = Reporter(R.prop)
        all_rules(fb, sub)
        _SELFTEST_MEMO[key] = sub
    sub = _SELFTEST_MEMO[key]
    for i in sub.instances.values():
        if i.ok:
            R.ok(i.rule, i.key, i.site)
        else:
            R.bad(i.rule, i.key, i.site, i.msg)
    for m in sub.broken_msgs:
        R.broken(m)


SELFTESTS = [(rule, 'c10_assembler.cpp', _selftest_all) for rule in (
    'P1-pipeline-order', 'P1-accepting-path-runs-stage', 'P2-rejection-propagates', 'P2-open-ring-returns-false',
    'P3-problem-counted-and-reported', 'S1-search-key-agrees-with-sort-key', 'S2-searched-after-sort', 'S3-sorted-storage-stays-sorted',
    'S4-nearest-ring-chosen', 'G1-segment-normal-form', 'G2-segment-order-primary-key', 'G3-sweep-prefilter-sound',
    'G4-ray-crossing-interval', 'R1-rings-added-only-after-success', 'R2-create-area-result', 'R3-commit-only-on-success',
    'R4-ring-roles-in-output', 'D1-duplicates-cancel-in-pairs', 'P4-valid-input-within-limits-is-assembled',
    'A1-ring-sum-matches-segment-directions', 'G5-segment-end-points-differ', 'A2-reset-undoes-tentative-classification',
    'A3-extremum-tracker-consistent', 'G6-scan-covers-location-group', 'S5-equal-group-skipped-entirely',
    'A4-classified-segments-marked-done', 'A5-backtracking-state-restored')]
