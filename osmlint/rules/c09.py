"""C09 -- compressed input is decompressed completely and truncation is detected.

Engines: ERRDISC (osmlint/errdisc.py) for clause 1 and as the path walker ("assume the library call returned status S, which
elements can execute, can the function return?") for clauses 2 and 3; plain must-pass / dominance rules for clause 4.
The convention table of the pull functions (gzread, read, BZ2_bzRead, inflate, BZ2_bzDecompress: which status means
data / end of input / end of ONE stream, where the byte count is, how unconsumed input is exposed, what starts the next
stream) is osmlint/c09_util.py:PULLS.

Decided (DESIGN.md section 5, C09):
 1  E1-read-error-reaches-throw      every call of a function with a failure convention reachable from a Decompressor subclass or the
                                     read thread (gzdopen, gzread, gzclose_r, inflateInit2_, inflate, BZ2_bzReadOpen, BZ2_bzRead,
                                     BZ2_bzReadGetUnused, BZ2_bzReadClose, BZ2_bzDecompressInit, BZ2_bzDecompress, read, fdopen,
                                     fclose, close): assuming the failure value, no normal exit of the enclosing function is reachable
    E1-nothrow-explicit-discard      the same inside destructors / noexcept functions: explicit (void)
 2  N0-read-override-pulls           every Decompressor::read override takes its bytes from a pull function of the table (or the
                                     class declares itself not real: is_real() returns false)
    S1-chunk-length-is-library-count on every non-throwing path from the pull call to a return the returned string has been cut to
                                     exactly the byte count the library reported (result variable / next_out - data()), and is not
                                     modified afterwards
    N2-retry-only-with-input-left    (stream functions) assuming "OK", no output (avail_out untouched, returned string empty) and
                                     avail_in == 0 -- the input ran dry inside a stream -- every path ends in a throw: neither another
                                     pull (endless loop) nor a normal return (truncated data accepted)
    G1-no-eof-before-first-pull      (compressed formats: pull functions with a stream-end status) from the state each constructor
                                     establishes -- constants as stored, a member initialised from a pointer parameter assumed
                                     non-null, a member initialised from an integral parameter unknown (may be 0) -- the first read()
                                     cannot return without having called the pull function: the object never starts out "finished"
                                     (with X2: an empty chunk is returned only after a stream end was observed)
    P1-stream-init-end-paired        init / end typestate of the z_stream / bz_stream member: a BZ2_bzDecompressInit / inflateInit2 that
                                     read() applies to the (already initialised) member is preceded on every path by the matching
                                     *End, or is the in-place inflateReset; the constructor's init is released by close() on all paths
    P2-inflate-flush-permits-partial-progress   inflate() in a read() override (bounded window refilled call after call) gets a flush
                                     value that permits partial progress (frozen zlib table: Z_NO_FLUSH, Z_SYNC_FLUSH, Z_BLOCK, Z_TREES;
                                     Z_FINISH needs a window sized for the whole stream)
    Z1-no-shared-mutable-state       no body reachable from a Compressor / Decompressor class, their helper classes, the read thread or
                                     the CompressionFactory declares a non-const function-local static or writes a non-const
                                     namespace-scope / static-member variable (whitelist c09_util.SHARED_STATE_OK, one reason each)
    S2-no-pull-again-over-data       under "more" read() does not call the pull function again while the chunk holds data (count >= 1 by
                                     convention) / without having looked at the count (stream functions): the next call would overwrite it
    O1-offset-is-compressed-position every Decompressor::set_offset() in a read() override is fed from a position function of the
                                     compressed file on a handle the object owns (gzoffset, ftell, lseek; gztell = uncompressed
                                     position is a violation), or, for a class pulling straight from read(2), from a member advanced by
                                     the size of each chunk: Reader::offset() never exceeds the file size
    N1-no-empty-chunk-while-more     assuming the library reported "more to come" (gzread/read > 0, BZ_OK, Z_OK) the function cannot
                                     return a possibly empty chunk: the count is >= 1 by convention (and S1 holds), or the path tests
                                     the count, or it pulls again.  The same for a path that has just started the next stream after a
                                     *_STREAM_END.  (The read thread takes an empty chunk as end of data.)
 3  X1-stream-end-continues          for every pull function with a stream-end status: assuming that status, a call that starts the
                                     next stream (BZ2_bzReadOpen / inflateReset / BZ2_bzDecompressInit ...) is reachable
    X2-end-only-when-input-consumed  every assignment by which read() declares itself exhausted (constant stored to a member that
                                     guards the pull call: m_stream_end = true, m_buffer = nullptr) and that can execute after a
                                     stream end is guarded by a test that the library's unconsumed input is empty (count from
                                     BZ2_bzReadGetUnused == 0, avail_in == 0); feof() does not count; never executes under "more"
    X5-probed-byte-pushed-back       (FILE-based pull) when an end-of-file probe (fgetc ...) returned a byte, every path on to the next
                                     pull / return passes ungetc() of that byte
    X3-unused-copied-before-close    the pointer obtained from BZ2_bzReadGetUnused (it points into the handle) is not read after
                                     BZ2_bzReadClose
    X4-reopen-receives-unused        the BZ2_bzReadOpen that starts the next stream is given data derived from both outputs of
                                     BZ2_bzReadGetUnused
 4  K1-close-closes-library-handle   close() of a class that opened a gz/bz2 read handle: with the handle set, every path passes the
                                     matching library close (whose result E1 examines)
    K2-handle-reset-before-throw     ... and the handle member is reset before close() can throw (the destructor calls close() again)
    T1-read-thread-closes-in-try     ReadThreadManager::run_in_thread: Decompressor::close() lies on every normal path, inside the
                                     try whose catch (...) forwards current_exception() to the queue
    T2-every-chunk-forwarded         ... every chunk read is pushed to the queue unless at_end_of_data(chunk) held

Findings: none on today's tree.  The rules found F20 (X2, no end-of-file probe; fixed) and earlier F5a (X2), F5b (X1 / X2 / N1) and F11 (N1); all three are fixed in the repository
and their reverted fixes are mutants.

Normal form.  The path rules (S1, N1, X1-X4, K1, K2, T1, T2) do not look at read() / close() / run_in_thread as written but at
c09_util.normalized(): helpers of the same class called on `this` and free io-layer helpers that contain one of the library calls
are inlined into the caller's CFG (reference parameters substituted, value parameters and the result become initialised locals,
inlined nodes lie inside the tries around the call site), a `switch` over constants is lowered to the equivalent chain of `==`
tests, and a branch on a once-initialised local (`const bool failed = r != OK && r != END; if (failed)`) reads the initialiser.
E1 runs on the un-inlined bodies (switch / named conditions normalised); a failure value that leaves an extracted helper through
a reference parameter or its result is decided in the normal form of every caller instead.  So extract-helper, loop-form
(while / for(;;) / early return), switch-vs-if and named-local rewrites leave instances, keys and verdicts unchanged.

Limits of what is decided (a miss is preferred to a false alarm): N1 accepts a path as soon as it passes a branch whose condition
reads the byte count (count variable, next_out / avail_out, size()/empty() of the returned string) -- the direction of that test is
not examined; locals initialised once are looked through (`const auto n = ...; resize(n)`, `const bool more = unused != 0`), tests or
re-initialisations moved into a library helper are recognised as such (X1) or reported as unknown shape (X2, exit 2), never as a
violation.

NOT decided: byte equality with a reference decompressor; behaviour at particular buffer alignments; what zlib's gz layer does between members (gzread is
whitelisted for clause 3 by the convention table); NoDecompressor's memory-buffer branch (uncompressed input, not C09);
positivity of the requested length (a zero-length request would make 0 ambiguous; the length is a positive constant today).
"""
from .. import errdisc as E
from ..c08_util import in_io_layer
from ..c09_util import (DECOMP, RTM, OPEN_CLOSE, dedupe, decompressor_classes, read_path_functions, method_of, pull_calls,
                        call_name, assume, walk_from, returned_local, stream_field, count_resizes, count_test_elements,
                        unconsumed_zero_guard, guard_signature, end_declarations, string_call_on, STRING_MUTATORS, addr_carrier,
                        field_assigned_from, data_sources, handle_arg_is, helper_reaches, normalized, state_env, input_test_elements, ZLIB_FLUSH, STREAM_INIT_END, STREAM_RESET, SHARED_STATE_OK, local_statics, written_globals, initial_state_envs, fresh_string_env, seed_env, cumulative_resizes, EOF_PROBES, LOCAL_IGNORABLE, OFFSET_COMPRESSED, OFFSET_UNCOMPRESSED, file_has_more_env, resolve_alias, no_output_env, has_output_env, on_normal_path, is_stream_member, catch_all_handler, nodes_in_handler, must_pass, is_exit, scn, reaches,
                        assigned_from)
from ..flow import path_search, describe_path

NS = 'osmium::io::'

# genuine findings on the pristine tree: (rule, key, explanation).  Reported with R.bad; the coordinator decides between a
# repository fix and a known_findings.txt line.
KNOWN = [
    # none today.
    # History: F20 (X2, Bzip2Decompressor: end declared on "no unused bytes" without an end-of-file probe on the FILE) fixed in
    # /repo 535c442; F5a (X2, Bzip2Decompressor: feof taken for end of input) fixed in /repo 6479008; F11 (N1, Bzip2Decompressor:
    # empty chunk after the reopen) fixed in 393c506; F5b (X1 / X2 / N1, both buffer decompressors: single stream only, truncated input
    # accepted) fixed in f507134.  The reverted fixes are mutants (selftest/mutants/fixes.py and the F11 / F5b block of mutants/c09.py).
]

EXPLANATION = (
    'Decided: (1) ERRDISC on the read side: for every gzip / bzip2 / read(2) / stdio call with a failure convention reachable from the '
    'Decompressor subclasses and the read thread, assuming the failure value no normal exit of the enclosing function is reachable; '
    '(2) every Decompressor::read override cuts the returned chunk to exactly the byte count the library reported and cannot return a '
    'possibly empty chunk on a path where the library reported more to come (status assumed through the same three-valued walk); '
    '(3) on a *_STREAM_END status a call starting the next stream is reachable, the object declares itself exhausted only behind a '
    'test that the unconsumed input is empty (feof() does not count), the unused bytes are copied before the handle is closed and '
    'are handed to the reopen; (4) close() of the fd decompressors reaches the library close whose result is tested, resets the '
    'handle before throwing, and the read thread calls close() on every normal path inside its forwarding try; every chunk is '
    'forwarded. NOT decided: byte equality with a reference decompressor, alignments of stream boundaries against the read-ahead '
    'buffers, offsets, zlib\'s own multi-member handling inside gzread.')
ASSUMPTIONS = ['status / count conventions of gzread, read, BZ2_bzRead, inflate, BZ2_bzDecompress as tabulated in osmlint/c09_util.py:PULLS '
               '(zlib.h, bzlib.h manual: BZ_OK from BZ2_bzRead means the buffer was filled; Z_OK / BZ_OK from the stream functions may '
               'come with zero bytes of output)',
               'failure conventions as tabulated in osmlint/errdisc.py (DESIGN appendix B)',
               'drivers/io_read.cpp instantiates every decompressor the library registers',
               'an empty std::string is the end-of-data marker of the string queue (queue_util.hpp at_end_of_data)',
               'G1: a pointer parameter a constructor stores (input buffer, FILE*) is non-null']


# ------------------------------------------------------------------------------------------------ 1  ERRDISC

def _handled_by_callers(fb, fn, call, conv, depth=0):
    """The failure of `call` leaves helper fn through a reference parameter / the return value: decide the site where the helper is
    used instead -- in the normal form (helper inlined) of every function that calls it."""
    callers = [f for f in dedupe(fb.functions) if f.usr != fn.usr and any(c.get('u') == fn.usr for c in f.calls())]
    if not callers or depth > 2:
        return None
    detail = []
    for f in callers:
        g = normalized(fb, f)
        copies = [n for n in g.all_nodes() if n['id'] in getattr(g, 'origin', {}) and E.is_extern_c(n) and n.get('q') == call['q']
                  and n.get('o') == call.get('o') and n.get('l') == call.get('l')]
        if not copies:
            return None     # a caller that is not inlined (other class, virtual ...): stay with the verdict of the helper itself
        for c in copies:
            verdict, msg, _o = E.check_site(fb, g, c, conv)
            if verdict in ('dropped', 'returned') and g is not f:
                # the value leaves this caller as well (a helper of a helper): decide it one level further up
                if _handled_by_callers(fb, f, call, conv, depth + 1) is None:
                    return None
            elif verdict != 'ok':
                return None
        detail.append(f.q)
    return 'failure leaves the helper through a parameter / its result and every caller (%s) ends in a throw' % ', '.join(sorted(set(detail)))


def errdisc_rules(fb, R):
    """E.run_sites with one refinement: a site whose failure value leaves an extracted helper is decided in its callers."""
    fns, _classes = read_path_functions(fb)
    fns = [normalized(fb, f, inline=False) for f in fns]     # switch over the status = if-chain; named conditions looked through
    rule, dtor_rule = 'E1-read-error-reaches-throw', 'E1-nothrow-explicit-discard'
    want = lambda name: E.classify(name)[0] != 'special'
    seen = set()
    for fn, call, cls, conv in E.sites(fb, fns, want):
        k = (fn.pat, call.get('o'), call['q'])
        if k in seen:
            continue
        seen.add(k)
        name = call['q']
        site = fn.loc(call['id'])
        if cls == 'unknown':
            if name in LOCAL_IGNORABLE:
                continue
            if in_io_layer(fn):
                R.broken('ERRDISC: extern "C" function %s called in %s (%s) has no entry in the convention table' % (name, fn.q, site))
            continue
        if cls != 'check':
            continue
        key = '%s#%s' % (fn.q, name)
        if fn.kind == 'dtor' or fn.noexcept:
            if E.explicit_discard(fn, call):
                R.ok(dtor_rule, key, site, 'explicit (void) discard in a function that cannot throw')
                continue
            verdict, msg, _o = E.check_site(fb, fn, call, conv)
            R.check(verdict == 'ok', dtor_rule, key, site,
                    '%s in %s (cannot throw): result neither discarded with an explicit (void) nor handled: %s' % (name, fn.q, msg))
            continue
        verdict, msg, _o = E.check_site(fb, fn, call, conv)
        if verdict in ('dropped', 'returned'):
            # the status may travel through an extracted helper of this function (`result = adjust(result);`): decide the same call
            # in the normal form with the helpers inlined
            g = normalized(fb, getattr(fn, 'base', fn))
            if g is not fn and call['id'] in g.nodes and g.nodes[call['id']].get('q') == call['q'] and getattr(g, 'origin', None):
                v2, m2, _o2 = E.check_site(fb, g, g.nodes[call['id']], conv)
                if v2 == 'ok':
                    verdict, msg = 'ok', m2 + ' (helpers inlined)'
        if verdict in ('dropped', 'returned'):
            alt = _handled_by_callers(fb, getattr(fn, 'base', fn), call, conv)
            if alt is not None:
                verdict, msg = 'ok', alt
        if verdict == 'unknown':
            R.broken('ERRDISC: %s in %s (%s): %s' % (name, fn.q, site, msg))
            continue
        R.check(verdict == 'ok', rule, key, site, msg, msg if verdict == 'ok' else None)


# ------------------------------------------------------------------------------------------------ 2 / 3  read() overrides

def _not_real(fb, cls):
    for g in method_of(fb, cls, 'is_real'):
        rets = [n for n in g.all_nodes() if n.get('k') == 'return' and isinstance(n.get('sub'), int)]
        if rets and all(E.const_of(g, r['sub']) == 0 for r in rets):
            return True
    return False


def read_rules(fb, R):
    classes = decompressor_classes(fb)
    if not classes:
        R.broken('no class derived from %s found' % DECOMP)
        return
    for rec in classes:
        reads = method_of(fb, rec.q, 'read')
        if not reads:
            R.broken('%s: no read() override with a body found' % rec.q)
            continue
        for fn in reads:
            fn = normalized(fb, fn)
            pcs = pull_calls(fb, fn)
            key = fn.q + '#pulls'
            if not pcs:
                if _not_real(fb, rec.q):
                    R.ok('N0-read-override-pulls', key, fn.site, 'class is not real (is_real() returns false): Reader never starts a read thread on it')
                else:
                    R.broken('%s (%s): no call of a known pull function (gzread, read, BZ2_bzRead, inflate, BZ2_bzDecompress); '
                             'unknown shape, extend c09_util.PULLS' % (fn.q, fn.site))
                continue
            R.ok('N0-read-override-pulls', key, fn.site, ', '.join(sorted({call_name(c) for (c, _p) in pcs})))
            X = returned_local(fn)
            if X is None:
                R.broken('%s (%s): the returned chunk is not one local std::string' % (fn.q, fn.site))
                continue
            for (call, pull) in pcs:
                _one_pull(fb, R, fn, call, pull, X)


def _mutated_after(fn, resize, call, X, valid_ids):
    """a modification of the returned string that can execute after the count resize without pulling again."""
    for n in fn.all_nodes():
        if n.get('k') == 'call' and n['id'] not in valid_ids and n.get('q', '').startswith('std::basic_string::') \
                and call_name(n) in STRING_MUTATORS and string_call_on(fn, n, X, STRING_MUTATORS):
            dead = {x['id'] for x in fn.all_nodes() if x.get('k') == 'throw' or (x.get('k') in ('call', 'construct') and x.get('noret'))}
            bar = lambda e: e == call['id'] or e in valid_ids or e in dead     # (assert failure / throw is not a return)
            if reaches(fn, resize['id'], n['id'], barrier=bar) and path_search(fn, n['id'], is_exit, bar) is not None:
                return n
    return None


def _one_pull(fb, R, fn, call, pull, X):
    name = call_name(call)
    site = fn.loc(call['id'])
    base = '%s#%s' % (fn.q, name)

    # ---- S1: chunk length = library count
    valid, unknown = count_resizes(fn, call, pull, X)
    if not valid and unknown:
        R.broken('%s (%s): the returned string is resized by an expression of the byte count in an unknown shape: %s'
                 % (fn.q, fn.loc(unknown[0]['id']), fn.expr(unknown[0]['id'])))
        return
    vids = {n['id'] for n in valid}
    o = walk_from(fb, fn, call, site=call['id'], stop_at=vids)
    if o is None or o.truncated:
        R.broken('%s (%s): cannot walk from the %s call' % (fn.q, site, name))
        return
    s1_ok = not o.exits
    msg = None
    if not s1_ok:
        cum = cumulative_resizes(fn, call, pull, X)
        msg = ('a path from %s to a return does not cut the returned string to the number of bytes the library produced '
               '(stale bytes are delivered / the end-of-data test sees a wrong length): %s' % (name, E.describe(fn, o.exits[0])))
        if cum:
            msg = ('the returned string is cut to a RUNNING TOTAL of the stream (%s, %s), not to the number of bytes this call produced '
                   '(buffer size - avail_out, or next_out - start of the chunk): equal only for the first chunk, afterwards every chunk '
                   'carries stale / NUL bytes' % (fn.expr(cum[0]['id'])[:70], fn.loc(cum[0]['id'])))
    else:
        for r in valid:
            m = _mutated_after(fn, r, call, X, vids)
            if m is not None:
                s1_ok = False
                msg = 'the returned string is modified again (%s, %s) after it was cut to the library\'s byte count' % (fn.expr(m['id'])[:60], fn.loc(m['id']))
                break
    R.check(s1_ok, 'S1-chunk-length-is-library-count', base, site, msg,
            'resized to the count on every path: %s' % ', '.join(fn.expr(n['id'])[:70] for n in valid))

    ctests = count_test_elements(fn, call, pull, X)

    # ---- N1 under "more to come"
    key = '%s:%s' % (base, pull.names.get('more', 'more'))
    if pull.positive:
        R.check(s1_ok, 'N1-no-empty-chunk-while-more', key, site,
                'the convention of %s guarantees at least one byte under this status, but the chunk length is not the library count (see S1)' % name,
                'count >= 1 by convention of %s and chunk length = count (S1)' % name)
    else:
        o = assume(fb, fn, call, pull, pull.more, stop_at=ctests)
        if o is None or o.truncated:
            R.broken('%s (%s): status channel of %s has an unknown shape' % (fn.q, site, name))
        else:
            R.check(not o.exits and not o.returned, 'N1-no-empty-chunk-while-more', key, site,
                    '%s reported %s (more to come, possibly with zero bytes produced: header bytes only, or the input has run dry = truncated '
                    'stream) and read() can return without looking at the byte count or pulling again; an empty chunk is taken as end of data, '
                    'so truncated input is accepted as a shorter file: %s'
                    % (name, pull.names.get('more', 'more'), E.describe(fn, o.exits[0]) if o.exits else ''),
                    'every path tests the count or pulls again')
            # ---- N2: OK, no output, no input left = truncated data: must end in a throw (neither another pull nor a return)
            if pull.unused == ('avail_in',):
                sq0 = stream_field(fn, call, pull)
                dry = no_output_env(fn, call, pull, X)
                dry.update({('node', x): E.fin(0) for x in fn.nodes if is_stream_member(fn, x, sq0, {'avail_in'})})
                o3 = assume(fb, fn, call, pull, pull.more, extra=dry)
                ok3 = o3 is not None and not o3.retry and not o3.exits and not o3.returned and not o3.truncated
                what = 'calls it again (endless loop)' if (o3 is not None and o3.retry) else 'returns normally'
                R.check(ok3, 'N2-retry-only-with-input-left', key + ':input-exhausted', site,
                        'assuming %s reported %s with no output and avail_in == 0 (the input has run dry inside a stream = truncated '
                        'data) read() %s instead of raising an error%s'
                        % (name, pull.names.get('more', 'more'), what,
                           ': ' + E.describe(fn, o3.exits[0]) if (o3 is not None and o3.exits) else ''),
                        'OK without output and without input left always ends in a throw')

    # ---- G1: the object does not start out "finished".  An empty chunk means end of data, and for a compressed format the end may
    # only be believed after the library reported a stream end (X2 decides the assignments that declare it); so from the state
    # every constructor establishes, read() must not be able to return without having asked the library at all.
    if pull.stream_end is not None:
        worst = None
        inits = initial_state_envs(fb, fn.cls)
        for (ctor, env0) in inits:
            env = dict(seed_env(fn))
            env.update(fresh_string_env(fn, call, X))
            env.update(env0)
            o0 = E.explore(fn, (fn.entry, 0), env, fb=fb, stop_at={call['id']})
            if o0.truncated:
                R.broken('%s: walk from the entry truncated' % fn.q)
            elif o0.exits and worst is None:
                worst = (ctor, o0.exits[0])
        if inits:
            R.check(worst is None, 'G1-no-eof-before-first-pull', '%s#%s:first-call-asks-the-library' % (fn.q, name), fn.site,
                    'from the state the constructor establishes (%s) read() can return without ever calling %s: the members guarding the '
                    'call are not known to enable it (a size / count parameter may be 0, a pointer parameter is assumed non-null), so '
                    'an object over empty or truncated-to-nothing input reports a clean end of data although no stream end was ever '
                    'observed: %s' % (worst[0].site if worst else '', name, E.describe(fn, worst[1]) if worst else ''),
                    'from every constructor\'s state the first read() reaches %s' % name)
        else:
            R.broken('%s: no constructor body of %s found' % (fn.q, fn.cls))

    # ---- S2: a chunk that holds data is returned before the library is asked again (the next pull overwrites the buffer)
    if s1_ok:
        if pull.positive:
            o4 = assume(fb, fn, call, pull, pull.more, extra=has_output_env(fn, call, pull, X))
        else:
            o4 = assume(fb, fn, call, pull, pull.more, stop_at=ctests)
        R.check(o4 is not None and not o4.retry and not o4.truncated, 'S2-no-pull-again-over-data', '%s:%s' % (base, pull.names.get('more', 'more')), site,
                '%s reported %s and read() can call it again %s: the bytes already produced are overwritten by the next call and never '
                'delivered' % (name, pull.names.get('more', 'more'),
                               'although at least one byte was produced' if pull.positive else 'without having looked at the byte count'),
                'no path pulls again over produced data')

    if pull.stream_end is None:
        return

    # ---- X1: stream end is followed by the next stream
    o_end = assume(fb, fn, call, pull, pull.stream_end)
    if o_end is None or o_end.truncated:
        R.broken('%s (%s): status channel of %s has an unknown shape' % (fn.q, site, name))
        return
    reinits = [fn.nodes[e] for e in sorted(o_end.reached) if E.is_extern_c(fn.nodes[e]) and fn.nodes[e]['q'] in pull.reinit]
    # the same through an extracted helper of the library (X4 then has no argument list to look at)
    reinits += [fn.nodes[e] for e in sorted(o_end.reached) if helper_reaches(fb, fn, fn.nodes[e], names=pull.reinit)]
    sname = pull.names.get('stream-end', 'stream end')
    R.check(bool(reinits), 'X1-stream-end-continues', base + ':next-stream-started', site,
            'after %s reported %s no call that starts decoding a following stream (%s) is reachable: concatenated streams after the first '
            'are ignored' % (name, sname, ' / '.join(sorted(pull.reinit))),
            'reaches %s' % ', '.join('%s@%s' % (n['q'], n.get('l')) for n in reinits))

    # ---- N1 after the next stream was started: the chunk of the finished stream may be empty
    if reinits:
        worst = None
        for r2 in reinits:
            o2 = walk_from(fb, fn, r2, site=call['id'], stop_at=ctests, env=state_env(fn, call, until=r2['id']), seeded=True)
            if o2 is None or o2.truncated:
                R.broken('%s (%s): cannot walk from %s' % (fn.q, fn.loc(r2['id']), r2['q']))
                continue
            if o2.exits and worst is None:
                worst = (r2, o2.exits[0])
        R.check(worst is None, 'N1-no-empty-chunk-while-more', base + ':after-next-stream-started', fn.loc(reinits[0]['id']),
                'on %s the byte count of %s may be 0 (the stream ended where the previous call stopped, or it is empty); after starting the '
                'next stream read() returns that chunk without testing the count or pulling again: an empty chunk ends the data although '
                'more input follows: %s' % (sname, name, E.describe(fn, worst[1]) if worst else ''),
                'after the reopen every path tests the count or pulls again')

    # ---- X2: end declared only when the unconsumed input is empty.  Path statement: take the walks that return normally (an end
    # declaration followed by a throw is an error report, not a silent end); under "more" none of them may pass a declaration;
    # under stream end with input left (avail_in >= 1 / unused count >= 1) none may either, and none may pass one without the
    # library having been asked.
    sq = stream_field(fn, call, pull)
    o_more = assume(fb, fn, call, pull, pull.more)
    for D in end_declarations(fn, call):
        did = D['id']
        sig = guard_signature(fn, did)
        in_more = on_normal_path(o_more, fn, call['id'], did)
        in_end = on_normal_path(o_end, fn, call['id'], did)
        if not in_more and not in_end:
            continue   # only on paths that end in a throw (E1)
        leak = None
        noprobe = False
        if in_end and pull.unused is not None:
            if pull.unused[0] == 'avail_in':
                left = {('node', x): E.ge(1) for x in fn.nodes if is_stream_member(fn, x, sq, {'avail_in'})}
                o_left = assume(fb, fn, call, pull, pull.stream_end, extra=left)
                if on_normal_path(o_left, fn, call['id'], did):
                    leak = 'with avail_in != 0'
            else:
                _k, qname, _pi, ci = pull.unused
                qs = [fn.nodes[e] for e in o_end.reached if E.is_extern_c(fn.nodes[e]) and fn.nodes[e]['q'] == qname]
                o_by = assume(fb, fn, call, pull, pull.stream_end, stop_at={q['id'] for q in qs})
                if o_by is not None and did in o_by.reached:     # executes before / without the query (and in_end: returns normally)
                    leak = 'without having asked %s first' % qname
                for q in qs:
                    car = addr_carrier(fn, q['args'][ci]) if len(q.get('args', [])) > ci else None
                    if car is None:
                        R.broken('%s (%s): count output of %s is not the address of a local' % (fn.q, fn.loc(q['id']), qname))
                        continue
                    env = state_env(fn, call, until=q['id'])
                    env[car] = E.ge(1)
                    o_q = walk_from(fb, fn, q, site=call['id'], env=env, seeded=True)
                    if leak is None and on_normal_path(o_q, fn, q['id'], did):
                        leak = 'although %s reported unused bytes' % qname
                    if pull.file_arg is not None:
                        # the library reads the FILE in blocks: no unused bytes + FILE not at its end => more streams follow
                        env2 = state_env(fn, call, until=q['id'])
                        env2[car] = E.fin(0)
                        env2.update(file_has_more_env(fn, call))
                        o_f = walk_from(fb, fn, q, site=call['id'], env=env2, seeded=True)
                        if on_normal_path(o_f, fn, q['id'], did):
                            noprobe = noprobe or True
        elif in_end:
            leak = 'no way to ask the library for unconsumed input'
        uz = in_end and leak is None
        probed = uz and pull.file_arg is not None and not noprobe
        toks = (['stream-end'] if in_end else []) + (['more'] if in_more else []) + sig + (['unused-empty'] if uz else []) \
            + (['eof-probed'] if probed else [])
        key = '%s#end-declared@%s' % (fn.q, '+'.join(toks))
        if in_more:
            R.bad('X2-end-only-when-input-consumed', key, fn.loc(did),
                  '%s lies on a normally returning path although %s reported %s (more to come): the rest of the data is dropped'
                  % (fn.expr(did), name, pull.names.get('more', 'more')))
            continue
        if not uz and pull.unused is not None:
            qn = (pull.unused[1],) if pull.unused[0] == 'query' else ()
            mem = ('avail_in',) if pull.unused[0] == 'avail_in' else ()
            if any(helper_reaches(fb, fn, fn.nodes[x], names=qn, members=mem) for (c, _s, _b) in E.guards(fn, did) for x in fn.subtree(c)):
                R.broken('%s (%s): %s is guarded by a helper that looks at the unconsumed input; unknown shape' % (fn.q, fn.loc(did), fn.expr(did)))
                continue
        R.check(uz, 'X2-end-only-when-input-consumed', key, fn.loc(did),
                '%s declares the end of the data after %s on a normally returning path %s%s: bytes of a following stream that the library '
                'has already read are dropped'
                % (fn.expr(did), sname, leak, '; feof() says nothing about the library\'s read-ahead buffer' if any('feof' in t for t in sig) else ''),
                'no normally returning path declares the end while unconsumed input is left')
        if uz and pull.file_arg is not None:
            R.check(probed, 'X2-end-only-when-input-consumed', key, fn.loc(did),
                    '%s declares the end of the data after %s when %s reports no unused bytes, without an end-of-file probe on the FILE '
                    '(fgetc() == EOF, or feof() after such a probe): the library reads the file in blocks, so when a stream ends exactly '
                    'on a block boundary nothing has been read ahead although the file continues -- all following streams are dropped '
                    'silently' % (fn.expr(did), sname, pull.unused[1]),
                    'the end is declared only behind a positive end-of-file probe on the FILE')

    # ---- X5: a byte fetched by an end-of-file probe belongs to the next stream and is pushed back
    if pull.file_arg is not None:
        for pr in [n for n in fn.all_nodes() if E.is_extern_c(n) and n['q'] in EOF_PROBES and n['id'] in o_end.reached]:
            pv = assigned_from(fn, pr)
            backs = set()
            for u in fn.all_nodes():
                if E.is_extern_c(u) and u['q'] == 'ungetc' and u.get('args'):
                    a0 = resolve_alias(fn, u['args'][0])
                    if a0 is not None and (a0.get('id') == pr['id'] or (pv is not None and a0.get('k') == 'var' and a0.get('d') == pv)):
                        backs.add(u['id'])
            env5 = dict(file_has_more_env(fn, call))     # a byte was read: feof() after the probe is false, the push-back succeeds
            env5[('node', pr['id'])] = E.ge(0)
            o5 = walk_from(fb, fn, pr, site=call['id'], stop_at=backs, env=env5, seeded=True)
            ok5 = o5 is not None and not o5.exits and not o5.retry and not o5.truncated
            R.check(ok5, 'X5-probed-byte-pushed-back', '%s#%s-byte-pushed-back' % (fn.q, pr['q']), fn.loc(pr['id']),
                    'when the end-of-file probe %s() returns a byte (the first byte of the next stream) read() can go on without '
                    'ungetc() of that byte: the next stream loses its first byte (bad magic / data error instead of the data)' % pr['q'],
                    'every path with a byte read passes ungetc of that byte')

    # ---- X3 / X4: handling of the unused bytes (query convention only)
    if pull.unused and pull.unused[0] == 'query':
        _unused_rules(fb, R, fn, call, pull, o_end, reinits)


def _unused_rules(fb, R, fn, call, pull, o_end, reinits):
    _k, qname, pi, ci = pull.unused
    queries = [fn.nodes[e] for e in o_end.reached if E.is_extern_c(fn.nodes[e]) and fn.nodes[e]['q'] == qname]
    closers = OPEN_CLOSE.get('BZ2_bzReadOpen', set())
    if not queries:
        if reinits:
            R.bad('X4-reopen-receives-unused', fn.q + '#reopen-gets-unused-bytes', fn.loc(reinits[0]['id']),
                  'the next stream is started without asking %s for the bytes the library has read ahead' % qname)
        return
    for q in queries[:1]:
        args = q.get('args', [])
        P = addr_carrier(fn, args[pi]) if len(args) > pi else None
        N = addr_carrier(fn, args[ci]) if len(args) > ci else None
        if P is None or N is None or P[0] != 'var' or N[0] != 'var':
            R.broken('%s (%s): outputs of %s are not addresses of locals' % (fn.q, fn.loc(q['id']), qname))
            return
        # X3: the raw pointer is not read after the handle was closed
        bad = None
        for c in fn.all_nodes():
            if not (E.is_extern_c(c) and c['q'] in closers and reaches(fn, q['id'], c['id'], barrier=lambda e: e == call['id'])):
                continue
            for v in fn.all_nodes():
                if v.get('k') == 'var' and v.get('d') == P[1] and reaches(fn, c['id'], v['id'], barrier=lambda e: e == q['id'] or e == call['id']):
                    pos = fn.positions()
                    if pos.get(v['id']) == pos.get(c['id']) and v['id'] in fn.subtree(c['id']):
                        continue
                    bad = (c, v)
        R.check(bad is None, 'X3-unused-copied-before-close', fn.q + '#unused-bytes-copied-before-close', fn.loc(q['id']),
                'the pointer returned by %s points into the bzip2 handle; it is read (%s) after %s has freed the handle'
                % (qname, fn.loc(bad[1]['id']) if bad else '', bad[0]['q'] if bad else ''),
                'no read of the unused-bytes pointer is reachable from a close of the handle')
        # X4: the reopen is given the unused bytes
        env4 = state_env(fn, call, until=q['id'])
        env4[N] = E.ge(1)
        o4 = walk_from(fb, fn, q, site=call['id'], env=env4, seeded=True)
        with_unused = [r for r in reinits if o4 is not None and r['id'] in o4.reached]
        if reinits and not with_unused:
            R.bad('X4-reopen-receives-unused', fn.q + '#reopen-gets-unused-bytes', fn.loc(q['id']),
                  'with unused bytes reported by %s no call that starts the next stream is reached' % qname)
        for r in with_unused:      # (a reopen that is only reached with no unused bytes has nothing to pass on)
            if not E.is_extern_c(r):
                continue
            ra = r.get('args', [])
            srcs = set()
            for a in ra[4:6]:
                if a is not None:
                    srcs |= data_sources(fn, a)
            cnt_const = E.const_of(fn, ra[5]) if len(ra) > 5 and ra[5] is not None else None
            R.check(P[1] in srcs and N[1] in srcs and cnt_const is None, 'X4-reopen-receives-unused', fn.q + '#reopen-gets-unused-bytes', fn.loc(r['id']),
                    '%s that starts the next stream is not given the bytes and the count obtained from %s: the beginning of the next '
                    'stream is lost' % (r['q'], qname),
                    'unused pointer and count flow into arguments 5 and 6')


# ------------------------------------------------------------------------------------------------ stream state pairing, flush, shared state

def stream_rules(fb, R):
    """P1: allocate / release pairing on the z_stream / bz_stream member.  P2: the flush value handed to inflate()."""
    for rec in decompressor_classes(fb):
        fns_cls = dedupe([g for g in fb.functions if g.cls == rec.q])
        inits_cls = [(g, n) for g in fns_cls for n in g.all_nodes() if E.is_extern_c(n) and n['q'] in STREAM_INIT_END]
        for fn in method_of(fb, rec.q, 'read'):
            fn = normalized(fb, fn)
            for (call, pull) in pull_calls(fb, fn):
                sq = stream_field(fn, call, pull)
                if sq is None:
                    continue
                on_stream = lambda n: any(addr_carrier(fn, a) == ('field', sq) for a in (n.get('args') or []) if a is not None)
                name = call_name(call)
                # ---- P2 flush
                if name == 'inflate':
                    args = call.get('args', [])
                    v = E.const_of(fn, args[1]) if len(args) > 1 and args[1] is not None else None
                    key = '%s#inflate:flush-permits-partial-progress' % fn.q
                    if v is None or v not in ZLIB_FLUSH:
                        R.broken('%s (%s): flush argument of inflate() is not a constant of the zlib table' % (fn.q, fn.loc(call['id'])))
                    else:
                        fname, partial, why = ZLIB_FLUSH[v]
                        R.check(partial is True, 'P2-inflate-flush-permits-partial-progress', key, fn.loc(call['id']),
                                'read() hands inflate() a bounded output window that is refilled call after call, so the flush value must permit '
                                'partial progress (Z_NO_FLUSH, Z_SYNC_FLUSH, Z_BLOCK, Z_TREES); it is %s: %s -- every input that needs a second '
                                'output window fails' % (fname, why), fname)
                # ---- P1 (a) re-initialisation inside read()
                reinit = [n for n in fn.all_nodes() if E.is_extern_c(n) and on_stream(n) and (n['q'] in STREAM_INIT_END or n['q'] in STREAM_RESET)]
                for r in reinit:
                    key = '%s#%s:previous-stream-state-released' % (fn.q, r['q'])
                    if r['q'] in STREAM_RESET:
                        R.ok('P1-stream-init-end-paired', key, fn.loc(r['id']), 'in-place reset: keeps the allocated state')
                        continue
                    ends = {n['id'] for n in fn.all_nodes() if E.is_extern_c(n) and n['q'] == STREAM_INIT_END[r['q']] and on_stream(n)}
                    others = {n['id'] for n in reinit if n['q'] in STREAM_INIT_END}
                    w = path_search(fn, fn.entry, lambda e: e == r['id'], lambda e: e in ends, from_block_start=True)
                    if w is None:
                        for src in others:      # ... and again after every earlier (re-)initialisation
                            w = w or path_search(fn, src, lambda e: e == r['id'], lambda e: e in ends)
                    R.check(w is None, 'P1-stream-init-end-paired', key, fn.loc(r['id']),
                            '%s on the already initialised stream member is reached on a path without %s: the init function allocates a fresh '
                            'decoder state (libbz2: ~3.7 MB) and the old one is lost -- a long multi-stream input runs out of memory and a '
                            'valid file fails: %s' % (r['q'], STREAM_INIT_END[r['q']], describe_path(fn, w)),
                            'every path to the re-initialisation passes %s' % STREAM_INIT_END[r['q']])
        # ---- P1 (b) the constructor's allocation is released by close()
        for (g, n) in inits_cls:
            if g.kind != 'ctor':
                continue
            sqs = [addr_carrier(g, a) for a in (n.get('args') or []) if a is not None]
            sqs = [c[1] for c in sqs if c is not None and c[0] == 'field']
            if not sqs:
                continue
            endname = STREAM_INIT_END[n['q']]
            for cl in method_of(fb, rec.q, 'close'):
                cl = normalized(fb, cl)
                ends = [e['id'] for e in cl.all_nodes() if E.is_extern_c(e) and e['q'] == endname
                        and any(addr_carrier(cl, a) == ('field', sqs[0]) for a in (e.get('args') or []) if a is not None)]
                w = must_pass(cl, cl.entry, ends)
                R.check(bool(ends) and w is None, 'P1-stream-init-end-paired', '%s#releases-%s-state' % (cl.q, n['q']), cl.site,
                        'the decoder state allocated by %s in the constructor is not released by %s on every path of close() (the '
                        'destructor relies on close())' % (n['q'], endname), endname)


def shared_state_rules(fb, R):
    """Z1: no function of a Compressor / Decompressor class, their helper classes, the read thread and the factory declares a
    function-local static of non-const type or writes a namespace-scope / static-member variable: two files are read (written)
    concurrently through separate objects, nothing but the objects themselves may hold their data."""
    rule = 'Z1-no-shared-mutable-state'
    classes = {DECOMP, RTM, NS + 'Compressor', NS + 'CompressionFactory'} | {r.q for r in decompressor_classes(fb)} \
        | {r.q for r in fb.derived_from(NS + 'Compressor')}
    for c in list(classes):
        for r in fb.records_named(c):
            for f in r.fields:
                if f.get('rec', '').startswith('osmium::io::'):
                    classes.add(f['rec'])
    for c in sorted(classes):
        roots = dedupe([f for f in fb.functions if f.cls == c])
        if not roots:
            continue
        bad = None
        nfn = 0
        for g in dedupe(E.closure_fns(fb, roots, depth=6)):
            if not g.q.startswith('osmium::') or not (in_io_layer(g) or g.cls in classes or g.q.startswith('osmium::io::')):
                continue
            nfn += 1
            for (n, v) in local_statics(g):
                if (g.q, v['name']) not in SHARED_STATE_OK:
                    bad = bad or (g, n, 'function-local `static %s %s` in %s' % (v['t'], v['name'], g.q))
            for (n, how) in written_globals(fb, g):
                if (g.q, n.get('q')) not in SHARED_STATE_OK:
                    bad = bad or (g, n, 'variable %s (%s) in %s' % (n.get('q'), how, g.q))
        if bad:
            g, n, what = bad
            R.bad(rule, '%s#shared-state' % c, g.loc(n['id']),
                  'code of %s reaches mutable state that all its objects share: %s. Two files are decompressed / compressed concurrently '
                  'by separate objects (one read thread each), so both work in the same memory: corrupt data or spurious "incorrect data '
                  'check" errors on valid files, depending on the schedule' % (c, what))
        else:
            R.ok(rule, '%s#shared-state' % c, roots[0].site, '%d bodies' % nfn)


# ------------------------------------------------------------------------------------------------ offsets

def _is_chunk_size(fn, nid, X, cvs, depth=0):
    """expression is the number of bytes of the chunk being returned: size()/length() of the returned string, the count variable of a
    pull call, or a local initialised from one of these."""
    n = scn(fn, nid)
    if n is None or depth > 3:
        return False
    if n.get('k') == 'call' and X is not None and string_call_on(fn, n, X, {'size', 'length'}):
        return True
    if n.get('k') == 'var' and n.get('vk') == 'local':
        if n['d'] in cvs:
            return True
        a = resolve_alias(fn, n['id'], depth=1)
        return a is not None and a['id'] != n['id'] and _is_chunk_size(fn, a['id'], X, cvs, depth + 1)
    return False


def _position_member(fn, nid, X, cvs, depth=0):
    """If the expression denotes "the object's own cursor, possibly advanced by this chunk" -- the this-member F itself, a local
    initialised from such an expression and not assigned otherwise, or <such an expression> + <chunk size> -- return F's qualified
    name, else None."""
    n = scn(fn, nid)
    if n is None or depth > 6:
        return None
    if n.get('k') == 'member' and n.get('field') and fn.is_this_member(n['id']):
        return n['q']
    if n.get('k') == 'var' and n.get('vk') == 'local':
        # a local cursor: initialised from the cursor, afterwards only advanced by the chunk size / re-set from a cursor expression
        d = n['d']
        inits = [v['init'] for m in fn.all_nodes() if m.get('k') == 'decl' for v in m['vars'] if v['d'] == d and isinstance(v.get('init'), int)]
        if len(inits) != 1:
            return None
        f = _position_member(fn, inits[0], X, cvs, depth + 1)
        if f is None:
            return None
        for m in fn.all_nodes():
            if m.get('k') == 'assign' and E.carrier_of(fn, m['lhs']) == ('var', d):
                if m.get('op') == '+=' and _is_chunk_size(fn, m['rhs'], X, cvs):
                    continue
                if m.get('op') == '=' and depth < 4 and _position_member(fn, m['rhs'], X, cvs, depth + 2) == f:
                    continue
                return None
            if m.get('k') == 'unop' and m.get('op') in ('++', '--', '&') and E.carrier_of(fn, m['sub']) == ('var', d):
                return None
        return f
    if n.get('k') == 'binop' and n.get('op') == '+':
        for base, add in ((n['lhs'], n['rhs']), (n['rhs'], n['lhs'])):
            if _is_chunk_size(fn, add, X, cvs):
                f = _position_member(fn, base, X, cvs, depth + 1)
                if f is not None:
                    return f
    return None


def offset_rules(fb, R):
    """O1: what a read() override reports through Decompressor::set_offset() is a position in the compressed file (Reader::offset()
    is compared with Reader::file_size()): the value of gzoffset / ftell / lseek on a handle the object owns, or -- for a class that
    pulls straight from read(2), where both positions coincide -- a member advanced by the size of every chunk."""
    rule = 'O1-offset-is-compressed-position'
    for rec in decompressor_classes(fb):
        for fn in method_of(fb, rec.q, 'read'):
            fn = normalized(fb, fn)
            sets = [n for n in fn.all_nodes() if n.get('k') == 'call' and n.get('q') == DECOMP + '::set_offset' and n.get('args')]
            if not sets:
                continue
            identity = [p for (_c, p) in pull_calls(fb, fn)]
            identity = bool(identity) and all(p.name == 'read' for p in identity)
            X = returned_local(fn)
            cvs = {assigned_from(fn, pc) for (pc, _p) in pull_calls(fb, fn)} - {None}
            bad = None
            detail = []
            for c in sets:
                a = resolve_alias(fn, c['args'][0])
                if a is None:
                    R.broken('%s (%s): argument of set_offset has an unknown shape' % (fn.q, fn.loc(c['id'])))
                    continue
                if E.is_extern_c(a) and a['q'] in OFFSET_COMPRESSED:
                    own = any((fn.root_var(x) or ('',))[0] == 'field' for x in a.get('args', []) if x is not None)
                    if not own:
                        bad = (c, '%s is not applied to a handle the object owns' % a['q'])
                    detail.append(a['q'])
                elif E.is_extern_c(a) and a['q'] in OFFSET_UNCOMPRESSED:
                    bad = (c, '%s is the position in the UNCOMPRESSED data: the reported offset runs past the size of the compressed file '
                              '(use gzoffset)' % a['q'])
                elif identity and _position_member(fn, c['args'][0], X, cvs) is not None:
                    # a cursor kept by the object itself: <member>, or a local copy of it, advanced by the bytes of this chunk
                    fq = _position_member(fn, c['args'][0], X, cvs)
                    stores = [m for m in fn.all_nodes() if (m.get('k') == 'assign' or (m.get('k') == 'unop' and m.get('op') in ('++', '--')))
                              and E.carrier_of(fn, m.get('lhs', m.get('sub'))) == ('field', fq)]
                    okst = True
                    for m in stores:
                        if m.get('k') == 'assign' and m.get('op') == '+=' and _is_chunk_size(fn, m['rhs'], X, cvs):
                            continue
                        if m.get('k') == 'assign' and m.get('op') == '=' and _position_member(fn, m['rhs'], X, cvs) == fq:
                            continue
                        okst = False
                    if not okst:
                        bad = (c, 'the member %s is stored with something other than its old value advanced by the size of the returned chunk'
                                  % fq.rsplit('::', 1)[-1])
                    detail.append('%s advanced by the chunk size' % fq.rsplit('::', 1)[-1])
                elif E.is_extern_c(a):
                    R.broken('%s (%s): set_offset is fed from %s, which is not in the offset-source table' % (fn.q, fn.loc(c['id']), a['q']))
                else:
                    bad = (c, 'the offset is not taken from a position function of the compressed file (%s)' % fn.expr(c['args'][0])[:60])
            R.check(bad is None, rule, fn.q + '#offset-source', fn.loc((bad[0] if bad else sets[0])['id']),
                    'Reader::offset() must never exceed the file size: %s' % (bad[1] if bad else ''), ', '.join(detail))


# ------------------------------------------------------------------------------------------------ 4  close

def close_rules(fb, R):
    for rec in decompressor_classes(fb):
        handles = {}   # field q -> opener name
        for f in dedupe([g for g in fb.functions if g.cls == rec.q]):
            for n in f.all_nodes():
                if E.is_extern_c(n) and n['q'] in OPEN_CLOSE:
                    fq = field_assigned_from(f, n)
                    if fq is not None:
                        handles.setdefault(fq, n['q'])
        if not handles:
            continue
        closes = method_of(fb, rec.q, 'close')
        if not closes:
            R.broken('%s holds a library read handle but has no close() body' % rec.q)
            continue
        for fn in closes:
            fn = normalized(fb, fn)
            for fq, opener in sorted(handles.items()):
                fname = fq.rsplit('::', 1)[-1]
                lib = [n for n in fn.all_nodes() if E.is_extern_c(n) and n['q'] in OPEN_CLOSE[opener] and handle_arg_is(fn, n, fq)]
                env = {('field', fq): E.ge(1)}
                o = E.explore(fn, (fn.entry, 0), env, fb=fb, stop_at={n['id'] for n in lib})
                key = '%s#closes-%s-handle' % (fn.q, opener)
                R.check(bool(lib) and not o.exits and not o.truncated, 'K1-close-closes-library-handle', key, fn.loc(lib[0]['id']) if lib else fn.site,
                        'with %s set, close() can return without calling %s: the library\'s end-of-stream check (truncated input, CRC) is never '
                        'made and the handle leaks' % (fname, ' / '.join(sorted(OPEN_CLOSE[opener]))),
                        ', '.join(n['q'] for n in lib))
                for c in lib:
                    resets = {n['id'] for n in fn.all_nodes() if n.get('k') == 'assign' and n.get('op') == '='
                              and E.carrier_of(fn, n['lhs']) == ('field', fq) and E.const_of(fn, n['rhs']) == 0}
                    o2 = walk_from(fb, fn, c, stop_at=resets)
                    ok = o2 is not None and not o2.exits and not o2.throws and not o2.truncated
                    ok = ok or any(fn.elem_dominates(r, c['id']) for r in resets)    # `h = m_h; m_h = nullptr; close(h)`
                    R.check(ok, 'K2-handle-reset-before-throw', '%s#%s-reset-after-%s' % (fn.q, fname, c['q']), fn.loc(c['id']),
                            'after %s the member %s is not reset on every path before close() returns or throws: the destructor calls close() '
                            'again and would hand the freed handle to the library a second time' % (c['q'], fname),
                            'reset on every path')


# ------------------------------------------------------------------------------------------------ 4  read thread

def read_thread_rules(fb, R):
    fns = dedupe(fb.fns(RTM + '::run_in_thread'))
    if not fns:
        R.broken('%s::run_in_thread not found' % RTM)
        return
    for fn in fns:
        fn = normalized(fb, fn)
        reads = [n for n in fn.all_nodes() if n.get('k') == 'call' and n.get('q') == DECOMP + '::read']
        closes = [n for n in fn.all_nodes() if n.get('k') == 'call' and n.get('q') == DECOMP + '::close']
        if not reads:
            R.broken('%s: no Decompressor::read call' % fn.q)
            continue
        rule = 'T1-read-thread-closes-in-try'
        cids = [n['id'] for n in closes]
        w = must_pass(fn, fn.entry, cids)
        R.check(bool(closes) and w is None, rule, fn.q + '#decompressor-closed-on-every-normal-path', fn.loc(closes[0]['id']) if closes else fn.site,
                'the read thread can finish normally without calling Decompressor::close(): the library\'s close-time error (truncated gzip '
                'member, bzip2 CRC) would surface only in a destructor, which swallows it: %s' % describe_path(fn, w),
                'every normal path passes close()')
        in_try = True
        fwd = True
        for c in closes + reads:
            h = catch_all_handler(fn, c['id'])
            if h is None:
                in_try = False
                continue
            hn = nodes_in_handler(fn, h[1])
            pushes = [x for x in hn if x.get('k') == 'call' and x.get('q', '').endswith('::add_to_queue')
                      and any(fn.nodes[y].get('q') == 'std::current_exception' for a in x.get('args', []) if a is not None for y in fn.subtree(a))]
            if not pushes or any(x.get('k') == 'throw' for x in hn):
                fwd = False
        R.check(in_try, rule, fn.q + '#read-and-close-inside-catch-all-try', fn.loc((closes or reads)[0]['id']),
                'Decompressor::read() / close() in the read thread must lie inside a try with catch (...): an exception (gzip_error / bzip2_error '
                'for truncated input) escaping the thread function terminates the program instead of reaching the reader')
        R.check(in_try and fwd, rule, fn.q + '#decompressor-error-forwarded', fn.loc((closes or reads)[0]['id']),
                'the catch (...) around Decompressor::read() / close() must push std::current_exception() to the queue (and not rethrow)')
        # T2: every chunk is forwarded unless it is the end-of-data marker
        for rc in reads:
            d = assigned_from(fn, rc)
            if d is None:
                R.broken('%s (%s): result of Decompressor::read() is not stored in a local' % (fn.q, fn.loc(rc['id'])))
                continue
            pushes = set()
            for x in fn.all_nodes():
                if x.get('k') == 'call' and x.get('q', '').endswith('::add_to_queue'):
                    if any((fn.root_var(a) or ('', None))[:2] == ('var', d) for a in x.get('args', []) if a is not None):
                        pushes.add(x['id'])

            def is_end_test(b):
                c = scn(fn, E.effective_cond(fn, fn.blocks[b])) if 'cond' in fn.blocks[b] else None
                if c is None:
                    return None
                neg = False
                while c is not None and c.get('k') == 'unop' and c.get('op') == '!':
                    neg = not neg
                    c = scn(fn, c['sub'])
                if c is None or c.get('k') != 'call':
                    return None
                isend = c.get('q', '').endswith('::at_end_of_data') or (c.get('q', '').startswith('std::basic_string::') and call_name(c) == 'empty')
                if not isend:
                    return None
                roots = [fn.root_var(a) for a in (c.get('args') or [])] + ([fn.root_var(c['recv'])] if c.get('recv') is not None else [])
                if not any(r is not None and r[:2] == ('var', d) for r in roots):
                    return None
                return 1 if neg else 0   # index of the edge taken when the chunk IS the end marker

            def edge_ok(b, idx, s):
                e = is_end_test(b)
                return not (e is not None and idx == e)

            tg = set(cids) | {rc['id']}
            w = path_search(fn, rc['id'], lambda e: is_exit(e) or e in tg, lambda e: e in pushes, edge_ok)
            R.check(bool(pushes) and w is None, 'T2-every-chunk-forwarded', fn.q + '#chunk-pushed-unless-end-marker', fn.loc(rc['id']),
                    'a chunk returned by Decompressor::read() that is not the end-of-data marker can be dropped without being pushed to the '
                    'queue: %s' % describe_path(fn, w), 'pushed on every path but the at_end_of_data edge')


# ------------------------------------------------------------------------------------------------ driver

def all_rules(fb, R):
    errdisc_rules(fb, R)
    read_rules(fb, R)
    stream_rules(fb, R)
    shared_state_rules(fb, R)
    offset_rules(fb, R)
    close_rules(fb, R)
    read_thread_rules(fb, R)


def run(ctx):
    R = ctx.R
    configs = ['ndebug14'] if ctx.tier == 'quick' else ['ndebug14', 'debug14', 'ndebug17', 'debug17']
    for cfg in configs:
        fb = ctx.facts(['io_read'], cfg)
        all_rules(fb, R)
    R.expect('E1-read-error-reaches-throw', 18)      # gzdopen gzread gzclose_r inflateInit2_ inflate BZ2_bzReadOpen x2 BZ2_bzRead
    #                                                  BZ2_bzReadGetUnused BZ2_bzReadClose x2 BZ2_bzDecompressInit BZ2_bzDecompress read
    #                                                  fdopen close x2 fclose
    R.expect('E1-nothrow-explicit-discard', 1)       # (void)fclose in ~file_wrapper
    R.expect('N0-read-override-pulls', 6)            # Dummy (not real), No, Gzip, GzipBuffer, Bzip2, Bzip2Buffer
    R.expect('S1-chunk-length-is-library-count', 5)  # reliable_read gzread inflate BZ2_bzRead BZ2_bzDecompress
    R.expect('N1-no-empty-chunk-while-more', 5)      # the same five under "more" (+ Bzip2Decompressor after the reopen, while it reopens)
    R.expect('N2-retry-only-with-input-left', 2)     # inflate, BZ2_bzDecompress
    R.expect('S2-no-pull-again-over-data', 5)
    R.expect('G1-no-eof-before-first-pull', 3)       # BZ2_bzRead, inflate, BZ2_bzDecompress
    R.expect('P1-stream-init-end-paired', 4)         # inflateReset + BZ2_bzDecompressInit in read(); the two close()
    R.expect('P2-inflate-flush-permits-partial-progress', 1)
    R.expect('Z1-no-shared-mutable-state', 10)       # 6 decompressors, read thread, file_wrapper, factory, base classes, compressors
    R.expect('O1-offset-is-compressed-position', 2)  # 3 today (Gzip, Bzip2, No); a decompressor may stop reporting offsets
    R.expect('X1-stream-end-continues', 3)           # BZ2_bzRead inflate BZ2_bzDecompress
    R.expect('X2-end-only-when-input-consumed', 3)   # one declaration per stream-end-aware read()
    R.expect('K1-close-closes-library-handle', 2)    # GzipDecompressor Bzip2Decompressor
    R.expect('K2-handle-reset-before-throw', 2)
    R.expect('T1-read-thread-closes-in-try', 3)
    R.expect('T2-every-chunk-forwarded', 1)
    # X3 / X4 exist while a decompressor uses the BZ2_bzReadGetUnused convention (Bzip2Decompressor).  Dropping the reopen is an X1
    # violation, reopening without the query an X4 violation (both outrank the floor); a redesign without that API is unknown shape.
    R.expect('X5-probed-byte-pushed-back', 0)        # 1 today (the fgetc probe of Bzip2Decompressor::read); exists only while a
    #                                                  byte probe is used -- dropping the probe is an X2 violation, not a floor breach
    R.expect('X3-unused-copied-before-close', 1)
    R.expect('X4-reopen-receives-unused', 1)


# ------------------------------------------------------------------------------------------------ positive example

def _selftest(fb, R):
    from ..engine import AnalysisBroken
    fns = [f for f in fb.functions if f.q.startswith('osmium::')]
    errdisc_rules(fb, R)
    read_rules(fb, R)
    stream_rules(fb, R)
    shared_state_rules(fb, R)
    offset_rules(fb, R)
    close_rules(fb, R)
    read_thread_rules(fb, R)
    # the conforming twins must stay silent: several rules fire on today's tree, this is their evidence that they can pass
    wrong = [(i.rule, i.key) for i in R.instances.values() if not i.ok and '::Good' in i.key]
    need = [('P1-stream-init-end-paired', NS + 'GoodGzipBufferDecompressor::read#inflateReset:previous-stream-state-released'),
            ('P1-stream-init-end-paired', NS + 'GoodGzipBufferDecompressor::close#releases-inflateInit2_-state'),
            ('P2-inflate-flush-permits-partial-progress', NS + 'GoodGzipBufferDecompressor::read#inflate:flush-permits-partial-progress'),
            ('Z1-no-shared-mutable-state', NS + 'GoodGzipBufferDecompressor#shared-state'),
            ('G1-no-eof-before-first-pull', NS + 'GoodGzipBufferDecompressor::read#inflate:first-call-asks-the-library'),
            ('G1-no-eof-before-first-pull', NS + 'GoodBzip2Decompressor::read#BZ2_bzRead:first-call-asks-the-library'),
            ('X5-probed-byte-pushed-back', NS + 'GoodBzip2Decompressor::read#fgetc-byte-pushed-back'),
            ('O1-offset-is-compressed-position', NS + 'GoodBzip2Decompressor::read#offset-source'),
            ('N2-retry-only-with-input-left', NS + 'GoodGzipBufferDecompressor::read#inflate:Z_OK:input-exhausted'),
            ('S2-no-pull-again-over-data', NS + 'GoodGzipBufferDecompressor::read#inflate:Z_OK'),
            ('S2-no-pull-again-over-data', NS + 'GoodBzip2Decompressor::read#BZ2_bzRead:BZ_OK'),
            ('X1-stream-end-continues', NS + 'GoodGzipBufferDecompressor::read#inflate:next-stream-started'),
            ('X2-end-only-when-input-consumed', NS + 'GoodGzipBufferDecompressor::read#end-declared@stream-end+unused-empty'),
            ('N1-no-empty-chunk-while-more', NS + 'GoodGzipBufferDecompressor::read#inflate:Z_OK'),
            ('N1-no-empty-chunk-while-more', NS + 'GoodBzip2Decompressor::read#BZ2_bzRead:after-next-stream-started'),
            ('X2-end-only-when-input-consumed', NS + 'GoodBzip2Decompressor::read#end-declared@stream-end+unused-empty+eof-probed')]
    missing = [k for k in need if k not in R.instances or not R.instances[k].ok]
    # the same rules through an extracted helper / switch / early return / named condition (normal form)
    H = NS + 'BadHelperBzip2Decompressor::'
    for (rule, key, want_ok) in (('X2-end-only-when-input-consumed', H + 'read#end-declared@stream-end+feof', False),
                                 ('X2-end-only-when-input-consumed', H + 'read#end-declared@stream-end+not-feof+unused-empty', False),   # no EOF probe (F20)
                                 ('N1-no-empty-chunk-while-more', H + 'read#BZ2_bzRead:after-next-stream-started', False),
                                 ('X1-stream-end-continues', H + 'read#BZ2_bzRead:next-stream-started', True),
                                 ('S1-chunk-length-is-library-count', H + 'read#BZ2_bzRead', True),
                                 ('X3-unused-copied-before-close', H + 'read#unused-bytes-copied-before-close', True),
                                 ('X4-reopen-receives-unused', H + 'read#reopen-gets-unused-bytes', True),
                                 ('K1-close-closes-library-handle', H + 'close#closes-BZ2_bzReadOpen-handle', True),
                                 ('K2-handle-reset-before-throw', H + 'close#m_bzfile-reset-after-BZ2_bzReadClose', True)):
        i = R.instances.get((rule, key))
        if i is None or i.ok is not want_ok:
            missing.append((rule, key, 'expected %s' % ('ok' if want_ok else 'violated')))
    if wrong or missing or R.broken_msgs:
        raise AnalysisBroken('C09 self-test: conforming twins reported %s, expected-ok instances missing %s, broken %s'
                             % (wrong, missing, R.broken_msgs))


SELFTESTS = [(r, 'c09_decomp.cpp', _selftest) for r in (
    'E1-read-error-reaches-throw', 'E1-nothrow-explicit-discard', 'S1-chunk-length-is-library-count', 'N1-no-empty-chunk-while-more',
    'N2-retry-only-with-input-left', 'S2-no-pull-again-over-data', 'O1-offset-is-compressed-position', 'G1-no-eof-before-first-pull',
    'P1-stream-init-end-paired', 'P2-inflate-flush-permits-partial-progress', 'Z1-no-shared-mutable-state',
    'X1-stream-end-continues', 'X2-end-only-when-input-consumed', 'X3-unused-copied-before-close', 'X4-reopen-receives-unused',
    'X5-probed-byte-pushed-back',
    'K1-close-closes-library-handle', 'K2-handle-reset-before-throw', 'T1-read-thread-closes-in-try', 'T2-every-chunk-forwarded')]
