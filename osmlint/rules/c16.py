"""C16 -- object orderings are strict weak orders; the order checker agrees (ORDERTYPE engine + mirror rule).

Decided (for ALL values, by enumeration of order types -- see osmlint/ordertype.py -- or by resolved program shape):

 O1-id_order-comparison-only        id_order::operator() touches its ids only through comparisons with each other / constants
                                    (helpers, named locals, std::min/max are looked through).  Arithmetic / negation / abs on the
                                    ids is reported as a VIOLATION of this rule (the INT64_MIN negation bug of 2.17.2 cannot come
                                    back unnoticed); only a shape the engine does not model is analysis-broken (exit 2)
 O2-id_order-strict-weak-order      irreflexive, asymmetric, transitive, transitive incomparability, and incomparable <=> equal
                                    over all 75 order types of {a, b, c, 0}
 O3-id_order-documented-rule        equals the documented rule (0 first, then negative ids by ascending magnitude, then positive
                                    ids ascending), written as a reference comparator, over all 13 order types of {lhs, rhs, 0}
 T1-tuple-mirror                    each tuple comparator (operator<(OSMObject), ..._without_timestamp, ..._reverse_version) is
                                    `tuple(L...) < tuple(R...)` of equal arity where R is L with lhs<->rhs exchanged; const_tie
                                    forwards its arguments in order
 T2-component-one-sided             every tuple component depends on exactly one of the two objects (or is the documented
                                    two-sided timestamp conditional, accepted under the property's premise "timestamps all set or
                                    ignored") and has a totally ordered type (integers, bool, item_type; for osmium::Timestamp its
                                    operator< is decided by ORDERTYPE to be `<` on the 32-bit value) => lexicographic product of
                                    total preorders = strict weak order
 T3-component-keys                  the key lists are (type, id>0, |id|, version[, timestamp]) ascending for operator< and
                                    ..._without_timestamp and (type, id>0, |id|, version DESC, timestamp DESC, visible DESC) for
                                    ..._reverse_version: the comparators agree on (type, id>0, |id|) and on version up to direction
 T4-id-key-agrees-with-id_order     the sign flag component is semantically `id > 0` (decided by ORDERTYPE on the component
                                    expression) and the pair (flag, |id|) orders ids exactly as the real id_order code does, with
                                    ties exactly for equal ids (13 order types; |id| is modelled, see T5; INT64_MIN excluded)
 T5-id-accessors                    OSMObject::id() returns the id field and positive_id() is the unsigned cast of abs() of that
                                    same field (justifies the |id| model of T4)
 E1-equality-reads-type-id-version  operator==(OSMObject) is true exactly when type, id and version are pairwise equal;
                                    object_equal_type_id::operator() exactly when type and id are (ORDERTYPE with accessor atoms)
 D1-delegation-preserves-meaning    operator> / <= / >= / != and every delegating functor overload (pointer overloads,
                                    object_order_type_id_version, object_equal_type_id_version) reduce, through resolved calls,
                                    to the right base relation with the right argument order and negation
 K1-rejects-later-type              CheckOrder::node/way/relation throw out_of_order_error whenever the seen-flag of a later type
                                    (item_type order node < way < relation, taken from the classes' itemtype constants) is set
 K2-accepts-iff-ascending           with no later flag set, the handler throws iff it has already seen an object of its type and
                                    the new id is not strictly after the stored maximum under the documented id rule; decided by
                                    abstract execution of the handler (ids only through comparisons / id_order) in all 104 worlds
 K3-accept-updates-state            on every accepted path the per-type maximum becomes the new id, the own seen-flag is true and
                                    nothing else changes (std::max/std::min of old maximum and id are evaluated exactly and rejected
                                    where they keep the old value; an arithmetic state update is a violation of this rule, an
                                    arithmetic accept/reject decision one of K2).  Handlers may be split into private helpers,
                                    use named locals and early returns
 S1-sort-forwards-comparator        ObjectPointerCollection::sort passes (begin, end, the caller's comparator unchanged) of its
                                    pointer vector to std::stable_sort
 S2-unique-forwards-and-erases      ...::unique passes the caller's predicate unchanged to std::unique over the whole vector and
                                    erases from the returned iterator to end()
 S3-sort-unique-total               every normal path of sort / unique reaches std::stable_sort / std::unique + erase, except under
                                    a guard that is provably a no-op: the path conditions over size() / empty() / begin()==end()
                                    are decided by ORDERTYPE and skipping must be impossible for any size >= 2

Follows from the above and is therefore not a separate rule: consistency of the orderings with operator== (T3 + T4 + E1: neither
a<b nor b<a under ..._without_timestamp iff type, id, version are equal); "ids are compared only through id_order and ==" in
CheckOrder (subsumed by the semantic K2; a direct `<` on ids changes the outcome in some world and is reported there).

NOT decided: agreement of (id>0, positive_id()) with id_order at INT64_MIN (abs overflows; excluded by the property's grid); strict
weak ordering when only some timestamps are set (excluded by the property's premise); that std::tuple's operator< is lexicographic
and std::stable_sort/std::unique behave per the standard (assumed); behaviour of CheckOrder over whole streams (only the single-step
transition relation is decided, from which the stream statement follows by induction on the stored maximum).
"""
from .. import ordertype as OT

KNOWN = [
    # (rule, key, explanation) -- genuine findings on the pristine tree; none so far
]

EXPLANATION = (
    'Decided for all 64-bit ids by exhaustive enumeration of order types (abstract interpretation of comparison-only code, no '
    'execution): id_order is comparison-only, a strict total order on ids and equal to the documented rule (0, negatives by '
    'ascending magnitude, positives ascending); every tuple comparator is tuple(L) < tuple(R) with R the lhs/rhs mirror of L, every '
    'component one-sided (timestamp conditional accepted under the all-set-or-ignored premise), key lists agree across the '
    'comparators, the (id>0, |id|) key pair agrees with id_order and ties exactly on equal ids; operator== reads exactly type, id, '
    'version; derived operators and delegating overloads keep argument order and negation; each CheckOrder handler, executed '
    'abstractly in every world of {id, stored maximum, 0} x seen-flags, throws exactly when a later type was seen or the id is not '
    'strictly after the maximum under the id rule, and otherwise stores the id as the new maximum and sets its flag; '
    'ObjectPointerCollection::sort/unique forward their functor unchanged to std::stable_sort/std::unique over the whole vector. '
    'NOT decided: INT64_MIN in positive_id(), mixed valid/invalid timestamps, semantics of std::tuple/std algorithms, whole-stream '
    'behaviour beyond the single-step transition relation.')
ASSUMPTIONS = ['LP64 data model; std::tuple operator< is lexicographic; std::stable_sort / std::unique behave per the standard',
               'accessors OSMObject::type/id/version/timestamp/visible are pure (they are const noexcept getters)',
               'drivers/core.cpp instantiates every comparator and ObjectPointerCollection::sort/unique with the library functors']

OBJ = 'osmium::OSMObject'
ID_ORDER = 'osmium::id_order::operator()'
LT = 'osmium::operator<'
EQ = 'osmium::operator=='
OOTIV = 'osmium::object_order_type_id_version::operator()'
WO = 'osmium::object_order_type_id_version_without_timestamp::operator()'
REV = 'osmium::object_order_type_id_reverse_version::operator()'
EQTIV = 'osmium::object_equal_type_id_version::operator()'
EQTI = 'osmium::object_equal_type_id::operator()'
CHECK_ORDER = 'osmium::handler::CheckOrder'
OPC = 'osmium::ObjectPointerCollection'
OOE = 'osmium::out_of_order_error'

# documented key lists (convention table): (key, direction) with '+' ascending in lhs, '-' descending
KEYS = {
    LT: [('type', '+'), ('idflag', '+'), ('absid', '+'), ('version', '+'), ('timestamp', '+')],
    WO: [('type', '+'), ('idflag', '+'), ('absid', '+'), ('version', '+')],
    REV: [('type', '+'), ('idflag', '+'), ('absid', '+'), ('version', '-'), ('timestamp', '-'), ('visible', '-')],
}
ACCESSOR_KEYS = {'type': 'type', 'positive_id': 'absid', 'version': 'version', 'visible': 'visible', 'timestamp': 'timestamp'}
ORDERED_ELEMENT_TYPES = ('bool', 'osmium::item_type', 'osmium::Timestamp')


# ------------------------------------------------------------------------------------------------ helpers

def ref_id_order(w, a, b):
    """The documented rule in the engine's mini-language: 0 first, then negative ids by ascending magnitude, then positive ids."""
    def cls(x):
        return 0 if w.eq(x, 0) else (1 if w.lt(x, 0) else 2)
    ca, cb = cls(a), cls(b)
    if ca != cb:
        return ca < cb
    if ca == 0:
        return False
    return w.gt(a, b) if ca == 1 else w.lt(a, b)


def _obj_bases(fb):
    r = fb.record(OBJ)
    return set(r.allbases) | {OBJ} if r is not None else {OBJ}


def _is_obj_type(fb, tC):
    """const OSMObject (or derived) & / *  ->  'ref' | 'ptr' | None"""
    t = (tC or '').strip()
    kind = 'ref' if t.endswith('&') else 'ptr' if t.endswith('*') else None
    if kind is None:
        return None
    base = OT._plain_type(t.rstrip('*').strip())
    r = fb.record(base)
    if base == OBJ or (r is not None and OBJ in r.allbases):
        return kind
    return None


def _obj_fns(fb, q, kind=None):
    """Bodies named q taking two OSMObject parameters (all of kind 'ref' / 'ptr' if given)."""
    out = []
    for fn in fb.fns(q):
        if len(fn.params) != 2:
            continue
        ks = [_is_obj_type(fb, p['tC']) for p in fn.params]
        if None in ks or ks[0] != ks[1] or (kind is not None and ks[0] != kind):
            continue
        out.append(fn)
    return out


def _key(fn):
    return '%s(%s)' % (fn.q, ', '.join(p['tC'] for p in fn.params))


def _accessor(fb, fn, n, bases):
    """n is a no-argument call of a method of OSMObject (or a base) -> (accessor name, parameter index of the receiver)."""
    if n is None or n.get('k') != 'call' or n.get('args') or n.get('recv') is None or 'q' not in n:
        return None
    cls, _, name = n['q'].rpartition('::')
    if cls not in bases:
        return None
    # the receiver must be the parameter itself (possibly dereferenced or aliased by a named local), not something reached through it
    i = _param_of(fn, n['recv'])
    if i is None:
        return None
    return name, i


def _local_init(fn, d):
    """initialiser expression of a local that is never re-assigned (a named sub-expression), else None"""
    inits = []
    for n in fn.all_nodes():
        k = n.get('k')
        if k == 'decl':
            for v in n['vars']:
                if v['d'] == d and isinstance(v.get('init'), int):
                    inits.append(v['init'])
        elif k == 'assign' or (k == 'unop' and n.get('op') in ('++', '--')):
            l = fn.sn(n['lhs'] if k == 'assign' else n['sub'])
            if l is not None and l.get('k') == 'var' and l.get('d') == d:
                return None
    return inits[0] if len(inits) == 1 else None


def _resolve(fn, nid, hops=6):
    """look through named locals: `const auto x = <expr>; ... x ...` is read as <expr>"""
    while hops > 0 and nid is not None:
        hops -= 1
        n = fn.sn(nid)
        if n is not None and n.get('k') == 'var' and n.get('vk') == 'local':
            init = _local_init(fn, n['d'])
            if init is None:
                break
            nid = init
        else:
            break
    return nid


def _rsn(fn, nid):
    return fn.sn(_resolve(fn, nid))


def _param_of(fn, nid, hops=6):
    """expression is a parameter of fn, possibly dereferenced / address-taken / aliased by a named local -> its index"""
    while hops > 0 and nid is not None:
        hops -= 1
        n = fn.sn(nid)
        while n is not None and n.get('k') == 'unop' and n.get('op') in ('*', '&'):
            n = fn.sn(n['sub'])
        if n is None or n.get('k') != 'var':
            return None
        if n.get('vk') == 'param':
            for i, p in enumerate(fn.params):
                if p['d'] == n['d']:
                    return i
            return None
        if n.get('vk') == 'local':
            nid = _local_init(fn, n['d'])
            continue
        return None
    return None


def _single_return(fn):
    rets = [n for n in fn.all_nodes() if n.get('k') == 'return']
    if len(rets) != 1 or 'sub' not in rets[0]:
        return None
    return _resolve(fn, rets[0]['sub'])


def canon(fn, nid, ren, env=None):
    """Canonical structural form of a pure expression; parameters renamed through ren {decl id: role}; && / || as sets.
    env {local decl id: canonical value} gives the value of locals on the path under consideration (see _paths_to)."""
    if env:
        n0 = fn.sn(nid)
        if n0 is not None and n0.get('k') == 'var' and n0.get('vk') == 'local' and n0.get('d') in env:
            return env[n0['d']]
    n = _rsn(fn, nid)
    if n is None:
        return ('?',)
    k = n.get('k')
    c = lambda x: canon(fn, x, ren, env)
    if k == 'var':
        if n.get('vk') == 'param':
            return ('P', ren.get(n['d'], n['name']))
        return ('V', n.get('q', n.get('name')))
    if k == 'this':
        return ('this',)
    if k == 'lit':
        return ('lit', n.get('cv', n.get('str')))
    if k == 'member':
        return ('mem', n.get('q', n.get('name')), c(n['base']))
    if k == 'call':
        return ('call', n.get('q', n.get('name')), c(n['recv']) if n.get('recv') is not None else None,
                tuple(c(a) for a in n.get('args', []) if a is not None))
    if k == 'construct':
        args = [a for a in n.get('args', []) if a is not None]
        if n.get('copymove') and len(args) == 1:
            return c(args[0])
        return ('new', n.get('rclsT', n.get('q')), tuple(c(a) for a in args))
    if k == 'binop':
        if n['op'] in ('&&', '||'):
            parts = set()
            for side in (n['lhs'], n['rhs']):
                s = c(side)
                if s[0] == n['op']:
                    parts |= s[1]
                else:
                    parts.add(s)
            return (n['op'], frozenset(parts))
        return ('bin', n['op'], c(n['lhs']), c(n['rhs']))
    if k == 'unop':
        return ('un', n['op'], c(n['sub']))
    if k == 'condop':
        return ('ite', c(n['cond']), c(n['then']), c(n['else']))
    if k == 'cast':
        return ('cast', n.get('toC'), c(n['sub']))
    if k == 'initlist':
        return ('init', tuple(c(a) for a in n.get('args', [])))
    return ('?', k, fn.expr(nid))


def _paths_to(fn, target_nid, ren, limit=512):
    """Symbolic values of the locals at statement target_nid: every acyclic CFG path entry -> target as (conds, env) with
    conds = [(canonical branch condition, sense)] and env = {local decl id: canonical value last stored on that path}.
    Handles `T x = init;`, `x = value;` (built-in or operator=) on locals.  None if there are loops / too many paths."""
    pos = fn.positions()
    if target_nid not in pos:
        return None
    tb = pos[target_nid][0]
    out = []
    budget = [limit * 8]

    def local_target(x):
        v = fn.sn(x) if x is not None else None
        return v['d'] if v is not None and v.get('k') == 'var' and v.get('vk') == 'local' else None

    def walk(b, conds, env, seen):
        budget[0] -= 1
        if budget[0] < 0 or len(out) > limit:
            return False
        blk = fn.blocks[b]
        env = dict(env)
        for e in blk['elems']:
            if e == target_nid:
                break
            n = fn.nodes[e]
            k = n.get('k')
            if k == 'decl':
                for v in n['vars']:
                    if isinstance(v.get('init'), int):
                        env[v['d']] = canon(fn, v['init'], ren, env)
            elif k == 'assign' and n.get('op') == '=':
                d = local_target(n['lhs'])
                if d is not None:
                    env[d] = canon(fn, n['rhs'], ren, env)
            elif k == 'call' and n.get('op') == '=':
                a = ([n['recv']] if n.get('recv') is not None else []) + [x for x in n.get('args', []) if x is not None]
                if len(a) == 2:
                    d = local_target(a[0])
                    if d is not None:
                        env[d] = canon(fn, a[1], ren, env)
        if b == tb:
            out.append((conds, env))
            return True
        succs = blk['succs']
        two = 'cond' in blk and len(succs) == 2 and blk.get('termcls') != 'SwitchStmt'
        cc = canon(fn, blk['cond'], ren, env) if two else None
        for idx, nx in enumerate(succs):
            if nx is None:
                continue
            if nx in seen:
                return False        # loop
            if walk(nx, conds + [(cc, idx == 0)] if two else conds, env, seen | {nx}) is False:
                return False
        return True

    if walk(fn.entry, [], {}, {fn.entry}) is False or not out:
        return None
    return out


def canon_at(fn, nid, ren, paths):
    """canonical value of expression nid over all paths: one value, or ('ite', c, v1, v0) when exactly one branch condition
    separates two values (an `if` filling named locals is read like the ternary it replaces)."""
    if not paths:
        return canon(fn, nid, ren)
    vals = [(conds, canon(fn, nid, ren, env)) for conds, env in paths]
    distinct = []
    for _c, v in vals:
        if v not in distinct:
            distinct.append(v)
    if len(distinct) == 1:
        return distinct[0]
    if len(distinct) == 2:
        g1 = [c for c, v in vals if v == distinct[0]]
        g0 = [c for c, v in vals if v == distinct[1]]
        cands = {c for c, sense in g1[0]}
        for cc in cands:
            def always(group, sense):
                return all(any(c == cc and s == sense for c, s in conds) for conds in group)
            if always(g1, True) and always(g0, False):
                return ('ite', cc, distinct[0], distinct[1])
            if always(g1, False) and always(g0, True):
                return ('ite', cc, distinct[1], distinct[0])
    return ('?paths', tuple(distinct))


def roles(cn):
    out = set()
    if isinstance(cn, (tuple, frozenset)):
        if isinstance(cn, tuple) and len(cn) == 2 and cn[0] == 'P':
            out.add(cn[1])
            return out
        for x in cn:
            out |= roles(x)
    return out


def swap_roles(cn):
    if isinstance(cn, tuple):
        if len(cn) == 2 and cn[0] == 'P':
            return ('P', {'A': 'B', 'B': 'A'}.get(cn[1], cn[1]))
        return tuple(swap_roles(x) for x in cn)
    if isinstance(cn, frozenset):
        return frozenset(swap_roles(x) for x in cn)
    return cn


# ------------------------------------------------------------------------------------------------ id_order (O1-O3)

def _id_order_prog(fb, R, report=True):
    fns = [f for f in fb.fns(ID_ORDER) if len(f.params) == 2]
    if not fns:
        if report:
            R.broken('%s not found' % ID_ORDER)
        return None, None
    fn = fns[0]
    try:
        prog = OT.compile_function(fb, fn)
        OT._binary_params(prog, None)
    except OT.Inexact as e:
        if report and e.kind == 'arithmetic':
            # the id rule is required to be a pure comparison of the ids: computing with them (negation, abs, subtraction ...)
            # is what broke INT64_MIN in 2.17.2 -- reported as a violation of the rule, not as an undecidable shape
            R.bad('O1-id_order-comparison-only', ID_ORDER, e.site or fn.site,
                  'id_order computes with the ids instead of only comparing them (%s); such arithmetic overflows / changes the order '
                  'at the ends of the 64-bit range (e.g. -INT64_MIN), the ordering is no longer decidable by comparison alone' % e)
            _degrade(R, 'O2-id_order-strict-weak-order', 'O3-id_order-documented-rule', 'T4-id-key-agrees-with-id_order')
        elif report:
            R.broken('O1-id_order-comparison-only: id_order has a shape the order-type engine does not model (%s at %s); C16 cannot be '
                     'decided statically for this body' % (e, e.site))
        return fn, None
    return fn, prog


def _degrade(R, *rules):
    """A violation has been reported that makes these dependent rules unevaluable: their instance floors are waived for this run
    (the run ends with exit 1 because of the reported violation, never with a pass)."""
    d = getattr(R, 'c16_degraded', None)
    if d is None:
        d = set()
        R.c16_degraded = d
    d.update(rules)


def id_order_rules(fb, R):
    fn, prog = _id_order_prog(fb, R)
    if prog is None:
        return None
    R.ok('O1-id_order-comparison-only', ID_ORDER, fn.site, 'inputs %s, constants %s' % (sorted(prog.int_syms), sorted(prog.consts)))
    try:
        bad = OT.check_strict_weak_order(prog, total=True)
        for ax in OT.SWO_AXIOMS + ('incomparable-iff-equal',):
            cx = bad.get(ax)
            R.check(cx is None, 'O2-id_order-strict-weak-order', '%s#%s' % (ID_ORDER, ax), fn.site,
                    'id_order is not a strict total order on ids: %s' % cx)
        diff = OT.check_equivalent(prog, ref_id_order, extra_consts=(0,))
        R.check(not diff, 'O3-id_order-documented-rule', ID_ORDER, fn.site,
                'id_order differs from the documented rule (0 first, then negative ids by ascending magnitude, then positive ids '
                'ascending): %s' % (diff[0] if diff else ''))
    except OT.Inexact as e:
        R.broken('id_order: abstract execution failed: %s' % e)
        return None
    return prog


# ------------------------------------------------------------------------------------------------ tuple comparators (T1-T4)

def _tuple_args(fn, nid):
    """Component expression ids of an expression of type std::tuple<...> built by a call (const_tie / std::tie / ...)."""
    n = _rsn(fn, nid)
    hops = 0
    while n is not None and n.get('k') == 'construct' and n.get('copymove') and len(n.get('args', [])) == 1 and hops < 4:
        n = _rsn(fn, n['args'][0])
        hops += 1
    if n is None or not OT._plain_type(n.get('t', '')).startswith('std::tuple<'):
        return None, None
    if n.get('k') == 'call' and n.get('recv') is None:
        return n, [a for a in n.get('args', [])]
    if n.get('k') == 'construct':
        return n, [a for a in n.get('args', [])]
    return None, None


def _ts_conditional(cn):
    """('ite', valid(ts(A)) && valid(ts(B)), ts(X), Timestamp{}) -> X"""
    if not (isinstance(cn, tuple) and cn[0] == 'ite'):
        return None
    cond, th, el = cn[1], cn[2], cn[3]

    def ts(x):
        return (isinstance(x, tuple) and x[0] == 'call' and x[1].rsplit('::', 1)[-1] == 'timestamp' and isinstance(x[2], tuple)
                and x[2][0] == 'P' and x[3] == ()) and x[2][1]

    def valid(x):
        return (isinstance(x, tuple) and x[0] == 'call' and x[1] == 'osmium::Timestamp::valid' and x[3] == ()) and ts(x[2])
    if not (isinstance(cond, tuple) and cond[0] == '&&' and len(cond[1]) == 2):
        return None
    if {valid(x) for x in cond[1]} != {'A', 'B'}:
        return None
    if not (isinstance(el, tuple) and el[0] == 'new' and el[1] == 'osmium::Timestamp' and el[2] == ()):
        return None
    x = ts(th)
    return x if x in ('A', 'B') else None


def _id_atom(fb, bases):
    def atoms(fn, n):
        a = _accessor(fb, fn, n, bases)
        if a is not None and a[0] == 'id':
            return 'id'
        return None
    return atoms


def tuple_rules(fb, R, idprog):
    bases = _obj_bases(fb)
    found = 0
    for q in (LT, WO, REV):
        for fn in _obj_fns(fb, q, 'ref'):
            found += 1
            key = _key(fn)
            ret = _single_return(fn)
            top = _rsn(fn, ret) if ret is not None else None
            ok_shape = (top is not None and top.get('k') == 'call' and top.get('q') == 'std::operator<' and len(top.get('args', [])) == 2)
            ln = rn = None
            if ok_shape:
                ln, largs = _tuple_args(fn, top['args'][0])
                rn, rargs = _tuple_args(fn, top['args'][1])
                ok_shape = ln is not None and rn is not None
            if not ok_shape:
                R.broken('%s is no longer of the form tuple(L...) < tuple(R...); the mirror rule cannot decide it' % key)
                continue
            dA, dB = fn.params[0]['d'], fn.params[1]['d']
            ren = {dA: 'A', dB: 'B'}
            retn = [n for n in fn.all_nodes() if n.get('k') == 'return']
            paths = _paths_to(fn, retn[0]['id'], ren) if len(retn) == 1 else None
            L = [canon_at(fn, a, ren, paths) for a in largs]
            Rr = [canon_at(fn, a, ren, paths) for a in rargs]
            # ---- T1 mirror
            if len(L) != len(Rr):
                # cannot compile with std::tuple (sizes are checked statically), so this is an unknown shape
                R.broken('%s: the two tuples have different arity (%d vs %d)' % (key, len(L), len(Rr)))
                continue
            mism = [i for i in range(len(L)) if swap_roles(L[i]) != Rr[i]]
            R.check(not mism and ln.get('q') == rn.get('q'), 'T1-tuple-mirror', key, fn.loc(top['id']),
                    'the two tuples are built differently (%s vs %s)' % (ln.get('q'), rn.get('q')) if not mism else
                    'right tuple is not the lhs<->rhs mirror of the left tuple at component(s) %s: left `%s` vs right `%s`; the '
                    'comparison is then not antisymmetric/transitive in general'
                    % ([i + 1 for i in mism], fn.expr(largs[mism[0]]) if mism else '', fn.expr(rargs[mism[0]]) if mism else ''))
            # ---- T2 one-sidedness and T3 key list
            keys = []
            twosided = []
            flags = []
            for i, cn in enumerate(L):
                rs = roles(cn)
                x = _ts_conditional(cn)
                if x is not None:
                    keys.append(('timestamp', '+' if x == 'A' else '-'))
                    continue
                if len(rs) != 1:
                    twosided.append(i)
                    keys.append(('two-sided:' + fn.expr(largs[i]), '?'))
                    continue
                side = next(iter(rs))
                d = '+' if side == 'A' else '-'
                n = _rsn(fn, largs[i])
                a = _accessor(fb, fn, n, bases)
                if a is None and cn[0] == 'call' and cn[3] == () and isinstance(cn[2], tuple) and cn[2][0] == 'P' \
                        and cn[1].rpartition('::')[0] in bases:
                    a = (cn[1].rpartition('::')[2], 0)      # accessor reached through a (conditionally) assigned local
                if a is not None and a[0] in ACCESSOR_KEYS:
                    keys.append((ACCESSOR_KEYS[a[0]], d))
                elif n is not None and OT._plain_type(n.get('t', '')) == 'bool':
                    keys.append(('idflag', d))
                    flags.append((i, _resolve(fn, largs[i]), side))
                else:
                    keys.append(('other:' + fn.expr(largs[i]), d))
            R.check(not twosided, 'T2-component-one-sided', key, fn.loc(top['id']),
                    'component(s) %s depend on both objects (or on none) and are not the documented timestamp conditional: `%s`; a '
                    'lexicographic comparison over such a component is not a strict weak order in general'
                    % ([i + 1 for i in twosided], fn.expr(largs[twosided[0]]) if twosided else ''))
            # element types of the tuple must be totally ordered scalar types
            badt = []
            for i, a in enumerate(largs):
                t = OT._plain_type((fn.sn(a) or {}).get('t', ''))
                if not (t in ORDERED_ELEMENT_TYPES or OT.domain_of_type(t, True) is not None):
                    badt.append('%d:%s' % (i + 1, t))
            R.check(not badt, 'T2-component-one-sided', key + '#element-types', fn.loc(top['id']),
                    'tuple components of types without a known total order: %s' % badt)
            want = KEYS[q]
            R.check(keys == want, 'T3-component-keys', key, fn.loc(top['id']),
                    'component keys are %s, documented/required %s (the comparators must agree on type, id>0, |id| ascending and on '
                    'version, and with operator== on type, id, version)' % (_fmt_keys(keys), _fmt_keys(want)))
            # ---- T4 id key vs id_order
            _id_key_rule(fb, R, fn, key, top, keys, flags, largs, idprog, bases)
    if found == 0:
        R.broken('no tuple comparator over OSMObject found')
    # const_tie forwards in order
    for fn in fb.fns('osmium::const_tie'):
        ret = _single_return(fn)
        n = fn.sn(ret) if ret is not None else None
        hops = 0
        while n is not None and n.get('k') == 'construct' and n.get('copymove') and len(n.get('args', [])) == 1 and hops < 4:
            n = fn.sn(n['args'][0])
            hops += 1
        ok = n is not None and n.get('k') == 'construct' and n.get('q', '').startswith('std::tuple::')
        if ok:
            ds = []
            for a in n.get('args', []):
                v = fn.sn(a)
                ds.append(v['d'] if v is not None and v.get('k') == 'var' and v.get('vk') == 'param' else None)
            ok = ds == [p['d'] for p in fn.params]
        R.check(ok, 'T1-tuple-mirror', 'osmium::const_tie#forwards-in-order', fn.site,
                'const_tie must build std::tuple<const Ts&...> from its arguments in order')


def timestamp_order_rule(fb, R):
    """T2 (element types): osmium::Timestamp is used as a tuple component, so operator<(Timestamp, Timestamp) must be a strict
    total order on the 32-bit value (decided by ORDERTYPE with the conversion to uint32_t as the atom)."""
    TS = 'osmium::Timestamp'
    fns = [f for f in fb.fns(LT) if len(f.params) == 2 and all(OT._plain_type(p['tC']) == TS for p in f.params)]
    if not fns:
        R.broken('operator<(Timestamp, Timestamp) not found')
        return
    for fn in fns:
        def atoms(f, n, fn=fn):
            if n.get('k') == 'call' and not n.get('args') and n.get('recv') is not None and n.get('q', '').startswith(TS + '::'):
                r = f.sn(n['recv'])
                if r is not None and r.get('k') == 'var' and r.get('vk') == 'param':
                    for i, p in enumerate(fn.params):
                        if p['d'] == r['d']:
                            return ('%s.%s' % ('AB'[i], n['q'].rsplit('::', 1)[-1]), OT.UINT32)
            return None
        key = _key(fn) + '#total-order'
        try:
            prog = OT.compile_function(fb, fn, atoms)
            accs = {s.split('.', 1)[1] for s in prog.int_syms}
            if len(accs) != 1 or len(prog.int_syms) != 2:
                R.bad('T2-component-one-sided', key, fn.site, 'timestamps are not compared through one value accessor: %s' % sorted(prog.int_syms))
                continue
            acc = next(iter(accs))
            diff = OT.check_equivalent(prog, lambda w: w.lt('A.' + acc, 'B.' + acc), params=[])
            R.check(not diff, 'T2-component-one-sided', key, fn.site,
                    'Timestamp comparison is not `<` on the timestamp value, tuple comparators using it are not strict weak orders: %s'
                    % (diff[0] if diff else ''))
        except OT.Inexact as e:
            if e.kind == 'arithmetic':
                R.bad('T2-component-one-sided', key, e.site or fn.site, 'Timestamp comparison computes with the values (%s)' % e)
            else:
                R.broken('%s is not comparison-only over the timestamp value (%s)' % (_key(fn), e))


def _fmt_keys(keys):
    return '(' + ', '.join('%s%s' % (k, '' if d == '+' else ' DESC' if d == '-' else ' ?') for k, d in keys) + ')'


def _id_key_rule(fb, R, fn, key, top, keys, flags, largs, idprog, bases):
    rule = 'T4-id-key-agrees-with-id_order'
    site = fn.loc(top['id'])
    names = [k for k, _d in keys]

    def both_bad(msg):
        R.bad(rule, key + '#id-flag-is-positive', site, msg)
        R.bad(rule, key + '#id-key-vs-id_order', site, 'cannot hold: ' + msg)

    if len(flags) != 1 or 'absid' not in names:
        both_bad('the comparator does not order ids by a (sign flag, |id|) pair: keys %s' % _fmt_keys(keys))
        return
    i, nid, side = flags[0]
    adjacent = i + 1 < len(keys) and keys[i + 1][0] == 'absid' and keys[i + 1][1] == keys[i][1] == '+'
    try:
        fprog = OT.compile_expression(fb, fn, nid, _id_atom(fb, bases))
    except OT.Inexact as e:
        both_bad('the boolean component `%s` is not a comparison of the object id with constants (%s)' % (fn.expr(nid), e))
        return
    if set(fprog.int_syms) != {'id'} or fprog.bool_syms:
        both_bad('the boolean component `%s` reads %s, expected only the id' % (fn.expr(nid), sorted(set(fprog.int_syms) | fprog.bool_syms)))
        return
    try:
        diff = OT.check_equivalent(fprog, lambda w: w.gt('id', 0), params=[], extra_consts=(0,))
        okflag = R.check(not diff, rule, key + '#id-flag-is-positive', site,
                         'the sign component `%s` is not equivalent to id > 0, so (flag, |id|) does not put 0 first, then negative, '
                         'then positive ids: %s' % (fn.expr(nid), diff[0] if diff else ''))
        if not okflag:
            R.bad(rule, key + '#id-key-vs-id_order', site, 'cannot hold: the sign component `%s` is not id > 0 (see #id-flag-is-positive), so '
                  'the (flag, |id|) key pair does not order ids as id_order does' % fn.expr(nid))
            return
        if idprog is None:
            return
        if not adjacent:
            R.bad(rule, key + '#id-key-vs-id_order', site, 'the sign flag must be immediately followed by |id|, both ascending: %s' % _fmt_keys(keys))
            return
        dom = idprog.int_syms[idprog.int_params()[0]]
        px, py = idprog.int_params()
        bad = None
        for w in OT.worlds({'a': dom, 'b': dom}, set(idprog.consts) | set(fprog.consts) | {0}):
            def less(x, y):
                fx = OT.run(fprog, w, {'id': x}).as_bool()
                fy = OT.run(fprog, w, {'id': y}).as_bool()
                if fx != fy:
                    return (not fx) and fy
                # same flag == same sign class (flag is id > 0): |x| < |y|  <=>  x < y for positives, x > y for non-positives
                return w.lt(x, y) if fx else w.gt(x, y)
            m_ab, m_ba = less('a', 'b'), less('b', 'a')
            c_ab = OT.run(idprog, w, {px: 'a', py: 'b'}).as_bool()
            c_ba = OT.run(idprog, w, {px: 'b', py: 'a'}).as_bool()
            if (m_ab, m_ba) != (c_ab, c_ba) or ((not m_ab and not m_ba) != w.eq('a', 'b')):
                bad = OT.Counterexample('agreement of (id>0, |id|) with id_order', w,
                                        'tuple key says a<b=%s b<a=%s, id_order says %s %s' % (m_ab, m_ba, c_ab, c_ba))
                break
        R.check(bad is None, rule, key + '#id-key-vs-id_order', site,
                'sorting with this comparator does not order ids as id_order / CheckOrder expect: %s' % bad)
    except OT.Inexact as e:
        R.broken('%s: %s' % (key, e))


def accessor_rules(fb, R):
    """T5: id() returns field F; positive_id() returns unsigned(abs(F))."""
    rule = 'T5-id-accessors'
    fid = None
    fns = fb.fns(OBJ + '::id')
    fns = [f for f in fns if not f.params]
    if not fns or not fb.fns(OBJ + '::positive_id'):
        R.broken('OSMObject::id / positive_id not found')
        return
    for fn in fns:
        ret = _single_return(fn)
        n = fn.sn(ret) if ret is not None else None
        ok = n is not None and n.get('k') == 'member' and n.get('field') and fn.is_this_member(n['id'])
        if ok:
            fid = n['q']
        R.check(bool(ok), rule, OBJ + '::id#returns-id-field', fn.site, 'id() must return the id member unchanged')
    for fn in fb.fns(OBJ + '::positive_id'):
        ret = _single_return(fn)
        n = fn.sn(ret) if ret is not None else None
        hops = 0
        while n is not None and n.get('k') == 'cast' and hops < 4:
            unsigned = OT.domain_of_type(n.get('toC', ''), True)
            if unsigned is None or unsigned == 'bool' or unsigned[0] != 0 or unsigned[1] < 2 ** 63:
                n = None
                break
            n = _rsn(fn, n['sub'])
            hops += 1
        ok = (n is not None and n.get('k') == 'call' and n.get('q') in ('std::abs', 'abs', 'labs', 'llabs', 'std::labs', 'std::llabs')
              and len(n.get('args', [])) == 1)
        if ok:
            a = _rsn(fn, n['args'][0])
            ok = a is not None and a.get('k') == 'member' and a.get('field') and fn.is_this_member(a['id']) and (fid is None or a['q'] == fid)
            ok = ok and OT.domain_of_type(a.get('t'), True) == OT.INT64
        R.check(bool(ok), rule, OBJ + '::positive_id#abs-of-id', fn.site,
                'positive_id() must be the unsigned 64-bit cast of abs() of the id member that id() returns (the (id>0, |id|) sort key '
                'relies on it)')


# ------------------------------------------------------------------------------------------------ equality (E1)

def equality_rules(fb, R):
    bases = _obj_bases(fb)
    rule = 'E1-equality-reads-type-id-version'
    doms = {'type': OT.UINT16, 'id': OT.INT64, 'version': OT.UINT32}

    def atoms(fn, n):
        a = _accessor(fb, fn, n, bases)
        if a is None:
            return None
        name, i = a
        sym = '%s.%s' % ('AB'[i], name)
        if name in doms:
            return (sym, doms[name])
        return sym
    n = 0
    for q, want in ((EQ, ('type', 'id', 'version')), (EQTI, ('type', 'id'))):
        for fn in _obj_fns(fb, q, 'ref'):
            n += 1
            key = _key(fn)
            try:
                prog = OT.compile_function(fb, fn, atoms)
                groups = {}
                for s in prog.int_syms:
                    groups.setdefault(s.split('.', 1)[-1], []).append(s)
                grp = [(v, ()) for _k, v in sorted(groups.items())]
                for acc in want:
                    for side in 'AB':
                        if '%s.%s' % (side, acc) not in prog.int_syms:
                            raise _Missing('%s.%s' % ('lhs' if side == 'A' else 'rhs', acc))

                def ref(w, *_a, want=want):
                    return all(w.eq('A.' + k, 'B.' + k) for k in want)
                diff = OT.check_equivalent(prog, ref, params=[], groups=grp)
                R.check(not diff, rule, key, fn.site, 'equality must hold exactly when %s are pairwise equal: %s'
                        % (', '.join(want), diff[0] if diff else ''))
            except _Missing as e:
                R.bad(rule, key, fn.site, 'equality does not read %s (must compare exactly %s)' % (e, ', '.join(want)))
            except OT.Inexact as e:
                if e.kind == 'arithmetic':
                    R.bad(rule, key, e.site or fn.site, 'equality computes with the attributes instead of comparing %s for equality (%s)'
                          % (', '.join(want), e))
                else:
                    R.broken('%s: not a comparison-only function of the accessors (%s)' % (key, e))
    if n < 2:
        R.broken('operator==(OSMObject) / object_equal_type_id::operator() not found')


class _Missing(Exception):
    pass


# ------------------------------------------------------------------------------------------------ delegation (D1)

def _two_obj_fn(fb, g):
    return len(g.params) == 2 and all(_is_obj_type(fb, p['tC']) for p in g.params)


def _sem(fb, fn, depth=0):
    """(negated, base Fn, (i, j)): fn(p0, p1) == [!] base(p_i, p_j); a non-delegating body is its own base."""
    if depth > 6:
        return None
    ret = _single_return(fn)
    if ret is None:
        return (False, fn, (0, 1))
    neg = False
    n = _rsn(fn, ret)
    while n is not None and n.get('k') == 'unop' and n['op'] == '!':
        neg = not neg
        n = _rsn(fn, n['sub'])
    if n is None or n.get('k') != 'call' or 'u' not in n or len(n.get('args', [])) != 2:
        return (False, fn, (0, 1))
    cands = [g for g in fb.by_usr.get(n['u'], []) if _two_obj_fn(fb, g)]
    if not cands:
        return (False, fn, (0, 1))
    g = cands[0]
    perm = []
    for a in n['args']:
        i = _param_of(fn, a)
        if i is None:
            return None
        perm.append(i)
    sub = _sem(fb, g, depth + 1)
    if sub is None:
        return None
    sneg, base, sperm = sub
    return (neg != sneg, base, (perm[sperm[0]], perm[sperm[1]]))


def delegation_rules(fb, R):
    rule = 'D1-delegation-preserves-meaning'
    table = [
        ('osmium::operator>', 'ref', (False, LT, 'ref', (1, 0)), 'rhs < lhs'),
        ('osmium::operator<=', 'ref', (True, LT, 'ref', (1, 0)), '!(rhs < lhs)'),
        ('osmium::operator>=', 'ref', (True, LT, 'ref', (0, 1)), '!(lhs < rhs)'),
        ('osmium::operator!=', 'ref', (True, EQ, 'ref', (0, 1)), '!(lhs == rhs)'),
        (OOTIV, 'ref', (False, LT, 'ref', (0, 1)), 'lhs < rhs'),
        (OOTIV, 'ptr', (False, LT, 'ref', (0, 1)), '*lhs < *rhs'),
        (WO, 'ptr', (False, WO, 'ref', (0, 1)), 'operator()(*lhs, *rhs)'),
        (REV, 'ptr', (False, REV, 'ref', (0, 1)), 'operator()(*lhs, *rhs)'),
        (EQTIV, 'ref', (False, EQ, 'ref', (0, 1)), 'lhs == rhs'),
        (EQTIV, 'ptr', (False, EQ, 'ref', (0, 1)), '*lhs == *rhs'),
        (EQTI, 'ptr', (False, EQTI, 'ref', (0, 1)), 'operator()(*lhs, *rhs)'),
    ]
    for q, kind, (neg, bq, bkind, perm), text in table:
        fns = _obj_fns(fb, q, kind)
        if not fns:
            R.broken('%s (%s overload) not found' % (q, kind))
            continue
        for fn in fns:
            s = _sem(fb, fn)
            ok = False
            got = 'an expression that is not a (negated) call of an object comparison with the two parameters'
            if s is not None:
                sneg, base, sperm = s
                ok = (sneg == neg and base.q == bq and base in _obj_fns(fb, bq, bkind) and tuple(sperm) == tuple(perm) and base is not fn)
                got = '%s%s(%s, %s)' % ('!' if sneg else '', base.q, ('lhs', 'rhs')[sperm[0]], ('lhs', 'rhs')[sperm[1]])
            R.check(ok, rule, _key(fn), fn.site, 'must mean `%s`, but reduces to %s' % (text, got))


# ------------------------------------------------------------------------------------------------ CheckOrder (K1-K3)

def _final(w, out, field, kind):
    """final abstract value of this.<field> after the outcome (stored value or the initial symbol)."""
    if field in out.store:
        return out.store[field]
    return ('b', w.b('this.' + field)) if kind == 'b' else ('i', 'this.' + field)


def check_order_rules(fb, R):
    rec = fb.record(CHECK_ORDER)
    if rec is None:
        R.broken('record %s not found' % CHECK_ORDER)
        return
    bases = _obj_bases(fb)
    fields = {f['name']: ('b' if OT.domain_of_type(f['tC'], True) == 'bool' else 'i') for f in rec.fields
              if OT.domain_of_type(f['tC'], True) is not None}
    handlers = []
    for f in fb.functions:
        if f.cls != CHECK_ORDER or f.is_lambda or len(f.params) != 1 or f.kind != 'method':
            continue
        if _is_obj_type(fb, f.params[0]['tC']) != 'ref':
            continue
        cls = OT._plain_type(f.params[0]['tC'])
        r = fb.record(cls)
        it = next((s for s in (r.statics if r else []) if s['name'] == 'itemtype' and 'cv' in s), None)
        if it is None:
            R.broken('%s: cannot determine the item type of parameter class %s' % (f.q, cls))
            continue
        handlers.append((int(it['cv']), f, cls))
    handlers.sort(key=lambda h: h[0])
    if len(handlers) < 3:
        R.broken('CheckOrder: expected handlers for node, way and relation, found %d' % len(handlers))
        return

    def atoms(fn, n):
        a = _accessor(fb, fn, n, bases)
        if a is not None and a[0] == 'id':
            return ('id', OT.INT64)
        return None
    info = []
    for rank, fn, cls in handlers:
        try:
            prog = OT.compile_function(fb, fn, atoms)
        except OT.Inexact as e:
            if e.kind != 'arithmetic':
                R.broken('%s has a shape the order-type engine does not model: %s at %s' % (fn.q, e, e.site))
                return
            # the handler computes with ids (arithmetic / library function): the specification needs the new maximum to BE the
            # accepted id and the decision to depend on the id order only
            if e.context and e.context[0] == 'store':
                rl, msg = 'K3-accept-updates-state', 'the state update of %s is computed from the ids instead of being the accepted id' % e.context[1]
            else:
                rl, msg = 'K2-accepts-iff-ascending', 'the accept/reject decision computes with the ids instead of comparing them under the id rule'
            R.bad(rl, fn.q, e.site or fn.site, '%s (%s)' % (msg, e))
            info.append({'rank': rank, 'fn': fn, 'cls': cls, 'runs': [], 'max': set(), 'flag': set(),
                         'why': 'the handler is not comparison-only over the ids (%s)' % msg})
            continue
        ints, bools, consts = prog.symbols()
        # every field of the record is part of the world (so "nothing else changes" is checked against all of them)
        for name, kind in fields.items():
            if kind == 'b':
                bools.add('this.' + name)
            else:
                ints.setdefault('this.' + name, OT.domain_of_type(rec.field(name)['tC'], True))
        if 'id' not in ints:
            R.broken('%s does not read the id of its argument' % fn.q)
            return
        # keep the enumeration small: integer fields this handler never reads/writes form their own group
        touched = set(prog.int_syms) | {'this.' + f for f in prog.fields_written if fields.get(f) == 'i'}
        main = sorted(s for s in ints if s in touched or s == 'id')
        rest = sorted(s for s in ints if s not in main)
        groups = [(main, consts | {0})] + [([s], ()) for s in rest]
        try:
            runs = [(w, OT.run(prog, w)) for w in OT.worlds(ints, consts | {0}, bools, groups)]
        except OT.Inexact as e:
            R.broken('%s: abstract execution failed: %s' % (fn.q, e))
            return
        maxf, flagf = set(), set()
        for w, o in runs:
            if o.kind == 'throw':
                continue
            for f, v in o.store.items():
                if fields.get(f) == 'i' and v == ('i', 'id'):
                    maxf.add(f)
                if fields.get(f) == 'b' and v == ('b', True) and not w.b('this.' + f):
                    flagf.add(f)
        info.append({'rank': rank, 'fn': fn, 'cls': cls, 'runs': runs, 'max': maxf, 'flag': flagf})
    for h in info:
        if 'why' in h:
            continue
        if len(h['max']) != 1 or len(h['flag']) != 1:
            h['why'] = ('the handler must record the accepted id in exactly one maximum field and set exactly one seen-flag; it stores the '
                        'id in %s and sets %s' % (sorted(h['max']), sorted(h['flag'])))
            R.bad('K3-accept-updates-state', h['fn'].q + '#roles', h['fn'].site, h['why'])
        else:
            h['maxf'], h['flagf'] = next(iter(h['max'])), next(iter(h['flag']))
    for attr, what in (('flagf', 'seen-flag'), ('maxf', 'maximum field')):
        users = {}
        for h in info:
            if attr in h:
                users.setdefault(h[attr], []).append(h)
        for f, hs in sorted(users.items()):
            if len(hs) > 1:
                why = 'handlers %s share the %s %s' % ([h['fn'].name for h in hs], what, f)
                R.bad('K3-accept-updates-state', CHECK_ORDER + '#distinct-state', '%s:%d' % (rec.file, rec.line), why)
                for h in hs:
                    h.setdefault('why', why)
    good = [h for h in info if 'why' not in h]
    for h in info:
        if 'why' in h:
            # the roles of this handler's state cannot be established, so its transition relation cannot be compared with the
            # specification; the instances are reported (not silently dropped) with the root cause
            rules = ['K2-accepts-iff-ascending', 'K3-accept-updates-state']
            if any(g['rank'] > h['rank'] for g in info):
                rules.insert(0, 'K1-rejects-later-type')
            for rl in rules:
                R.bad(rl, h['fn'].q, h['fn'].site, 'cannot be established for this handler: %s' % h['why'])
    for h in good:
        fn = h['fn']
        later = [g['flagf'] for g in good if g['rank'] > h['rank']]
        later_names = {g['flagf']: g['cls'] for g in good}
        k1 = k2 = k3 = None
        for w, o in h['runs']:
            threw = o.kind == 'throw'
            late = [f for f in later if w.b('this.' + f)]
            if late:
                if (not threw or o.throw_type != OOE) and k1 is None:
                    k1 = 'a %s is accepted although %s is set (a %s was already seen): %s [%s]' % (
                        h['cls'], late[0], later_names[late[0]], w.describe(), w.witness())
                continue
            seen = w.b('this.' + h['flagf'])
            want_throw = seen and not ref_id_order(w, 'this.' + h['maxf'], 'id')
            if threw != want_throw and k2 is None:
                k2 = ('%s although %s: order type [%s], e.g. %s' % (
                    'throws' if threw else 'accepts',
                    ('this is the first %s' % h['cls']) if not seen else
                    ('the id is strictly after the stored maximum under the id rule' if not want_throw else
                     'the id is not strictly after the stored maximum under the id rule (0, negative ascending magnitude, positive)'),
                    w.describe(), w.witness()))
            if threw and o.throw_type != OOE and k2 is None:
                k2 = 'rejects with %s instead of %s' % (o.throw_type, OOE)
            if not threw and k3 is None:
                for f, kind in fields.items():
                    v = _final(w, o, f, kind)
                    if f == h['maxf']:
                        okf = v[0] == 'i' and w.eq(v[1], 'id')
                        what = 'the maximum %s is not updated to the accepted id' % f
                    elif f == h['flagf']:
                        okf = v == ('b', True)
                        what = 'the seen-flag %s is not set' % f
                    elif kind == 'b':
                        okf = v == ('b', w.b('this.' + f))
                        what = 'unrelated flag %s changes' % f
                    else:
                        okf = v[0] == 'i' and w.eq(v[1], 'this.' + f)
                        what = 'unrelated field %s changes' % f
                    if not okf:
                        k3 = '%s on an accepted path: order type [%s], e.g. %s' % (what, w.describe(), w.witness())
                        break
        unknown_later = [g['fn'].name for g in info if g['rank'] > h['rank'] and 'why' in g]
        if k1 is None and unknown_later:
            k1 = 'cannot be established: the seen-flag of the later handler(s) %s is not identifiable (see K3)' % unknown_later
        if later or unknown_later:
            R.check(k1 is None, 'K1-rejects-later-type', fn.q, fn.site, k1)
        R.check(k2 is None, 'K2-accepts-iff-ascending', fn.q, fn.site, k2)
        R.check(k3 is None, 'K3-accept-updates-state', fn.q, fn.site, k3)


# ------------------------------------------------------------------------------------------------ sort / unique (S1, S2)

def _vec_iter_call(fn, nid, which, vec=None):
    """expression is <this->vector member>.begin()/end() -> member name"""
    n = _rsn(fn, nid)
    hops = 0
    while n is not None and n.get('k') == 'construct' and len(n.get('args', [])) == 1 and hops < 4:
        n = _rsn(fn, n['args'][0])
        hops += 1
    if n is None or n.get('k') != 'call' or n.get('q') not in ('std::vector::' + which,) or n.get('recv') is None or n.get('args'):
        return None
    r = fn.sn(n['recv'])
    if r is None or r.get('k') != 'member' or not r.get('field') or not fn.is_this_member(r['id']):
        return None
    if vec is not None and r['name'] != vec:
        return None
    return r['name']


def _is_forwarded_param(fn, nid, param):
    """expression is the parameter itself, std::forward/std::move of it, or a copy/move construction of that."""
    n = _rsn(fn, nid)
    hops = 0
    while n is not None and hops < 6:
        hops += 1
        if n.get('k') == 'construct' and n.get('copymove') and len(n.get('args', [])) == 1:
            n = _rsn(fn, n['args'][0])
        elif n.get('k') == 'call' and n.get('q') in ('std::forward', 'std::move') and len(n.get('args', [])) == 1:
            n = _rsn(fn, n['args'][0])
        else:
            break
    return n is not None and n.get('k') == 'var' and n.get('vk') == 'param' and n.get('d') == param['d']


def collection_rules(fb, R):
    rec = fb.record(OPC)
    if rec is None:
        R.broken('record %s not found' % OPC)
        return
    vec = next((f['name'] for f in rec.fields if f['tC'].startswith('std::vector<') and 'OSMObject *' in f['tC']), None)
    if vec is None:
        R.broken('%s: pointer vector member not found' % OPC)
        return
    for name, algo, rule in (('sort', 'std::stable_sort', 'S1-sort-forwards-comparator'), ('unique', 'std::unique', 'S2-unique-forwards-and-erases')):
        fns = [f for f in fb.fns('%s::%s' % (OPC, name)) if len(f.params) == 1]
        if not fns:
            R.broken('%s::%s is not instantiated by the driver' % (OPC, name))
            continue
        for fn in fns:
            key = '%s::%s' % (OPC, name)
            calls = [n for n in fn.all_nodes() if n.get('k') == 'call' and n.get('q', '').startswith('std::') and n.get('recv') is None
                     and n['q'] not in ('std::forward', 'std::move')]
            algs = [n for n in calls if n['q'] == algo]
            ok = len(algs) == 1 and len(calls) == 1
            msg = 'must call %s exactly once (found %s)' % (algo, sorted(n['q'] for n in calls))
            if ok:
                c = algs[0]
                a = c.get('args', [])
                ok = (len(a) == 3 and _vec_iter_call(fn, a[0], 'begin', vec) and _vec_iter_call(fn, a[1], 'end', vec))
                msg = '%s must run over the whole pointer vector (%s.begin(), %s.end())' % (algo, vec, vec)
                if ok:
                    ok = _is_forwarded_param(fn, a[2], fn.params[0])
                    msg = 'the functor passed to %s must be the caller\'s functor, unchanged (found `%s`)' % (algo, fn.expr(a[2]))
                # no other use of the functor, no lambda wrapping it
                if ok:
                    ok = not any(n.get('k') == 'lambda' for n in fn.all_nodes())
                    msg = 'the functor must not be wrapped in a lambda'
                if ok and name == 'unique':
                    er = [n for n in fn.all_nodes() if n.get('k') == 'call' and n.get('q') == 'std::vector::erase']
                    ok = len(er) == 1 and len(er[0].get('args', [])) == 2 and er[0].get('recv') is not None
                    msg = 'the tail returned by std::unique must be erased with %s.erase(result, %s.end())' % (vec, vec)
                    if ok:
                        e = er[0]
                        r = fn.sn(e['recv'])
                        ok = (r is not None and r.get('k') == 'member' and r.get('name') == vec and fn.is_this_member(r['id'])
                              and _vec_iter_call(fn, e['args'][1], 'end', vec) is not None and _flows_from(fn, e['args'][0], c['id'])
                              and fn.elem_dominates(c['id'], e['id']))
            R.check(bool(ok), rule, key, fn.site, msg)
            # ---- S3: the algorithm (for unique: up to the erase) is reached on every normal path, except under a size guard that
            # is provably a no-op for it (at most one element)
            k3 = key + '#all-paths'
            ers = [n for n in fn.all_nodes() if n.get('k') == 'call' and n.get('q') == 'std::vector::erase'] if name == 'unique' else []
            if len(ers) == 1:
                target = {ers[0]['id']}
            elif len(calls) == 1:
                target = {calls[0]['id']}
            else:
                R.bad('S3-sort-unique-total', k3, fn.site, 'cannot be established: %s' % msg)
                continue
            _totality(fb, R, fn, k3, vec, target, algo if name == 'sort' else algo + ' + erase')


def _totality(fb, R, fn, key, vec, target, what):
    rule = 'S3-sort-unique-total'

    def on_vec(n):
        r = fn.sn(n['recv']) if n.get('recv') is not None else None
        return r is not None and r.get('k') == 'member' and r.get('name') == vec and fn.is_this_member(r['id'])

    def atoms(f, n):
        if n.get('k') != 'call':
            return None
        if not n.get('args') and n.get('q') == 'std::vector::size' and on_vec(n):
            return ('size', OT.UINT64)
        if not n.get('args') and n.get('q') == 'std::vector::empty' and on_vec(n):
            return ('empty', 'bool')
        if n.get('op') in ('==', '!='):
            a = [x for x in ([n.get('recv')] if n.get('recv') is not None else []) + list(n.get('args', [])) if x is not None]
            if len(a) == 2:
                ends = {w for w in ('begin', 'end', 'cbegin', 'cend') for x in a if _vec_iter_call(fn, x, w, vec)}
                if len(ends) == 2 and ends & {'begin', 'cbegin'} and ends & {'end', 'cend'}:
                    return ('empty' if n['op'] == '==' else 'nonempty', 'bool')
        return None

    skipping = []
    budget = [4000]

    def dfs(b, cons, seen):
        budget[0] -= 1
        if budget[0] < 0:
            return
        blk = fn.blocks[b]
        if any(e in target for e in blk['elems']):
            return
        if any(fn.nodes[e].get('k') == 'throw' for e in blk['elems']):
            return          # not a normal path
        if b == fn.exit:
            skipping.append(cons)
            return
        succs = blk['succs']
        prog = None
        if 'cond' in blk and len(succs) == 2 and blk.get('termcls') != 'SwitchStmt':
            try:
                prog = OT.compile_expression(fb, fn, blk['cond'], atoms)
                if not (set(prog.int_syms) <= {'size'} and prog.bool_syms <= {'empty', 'nonempty'}):
                    prog = None
            except OT.Inexact:
                prog = None
        for idx, nx in enumerate(succs):
            if nx is None or nx in seen:
                continue
            c2 = cons + [(prog, idx == 0)] if (prog is not None and len(succs) == 2) else cons
            dfs(nx, c2, seen | {nx})

    dfs(fn.entry, [], {fn.entry})
    if budget[0] < 0:
        R.broken('%s: too many paths' % key)
        return
    bad = None
    for cons in skipping:
        consts = {0, 1, 2}
        for prog, _s in cons:
            consts |= set(prog.consts)
        for w in OT.worlds({'size': OT.UINT64}, consts, ('empty', 'nonempty')):
            if w.b('empty') != w.eq('size', 0) or w.b('nonempty') == w.b('empty'):
                continue
            if not w.ge('size', 2):
                continue        # at most one element: nothing to sort, no duplicates
            try:
                if all(OT.run(prog, w).as_bool() == sense for prog, sense in cons):
                    bad = ('a normal path leaves the function without reaching %s for a collection of %s element(s)%s'
                           % (what, w.values['size'], '' if cons else ' (unconditionally or under a condition that is not a size test)'))
                    break
            except OT.Inexact as e:
                R.broken('%s: %s' % (key, e))
                return
        if bad:
            break
    R.check(bad is None, rule, key, fn.site,
            '%s; skipping is only a no-op when the collection has at most one element (size() < 2 / empty())' % bad)


def _flows_from(fn, nid, call_id):
    """expression is the result of call `call_id`: directly, or a local initialised with it."""
    n = fn.sn(nid)
    hops = 0
    while n is not None and n.get('k') == 'construct' and len(n.get('args', [])) == 1 and hops < 4:
        n = fn.sn(n['args'][0])
        hops += 1
    if n is None:
        return False
    if n['id'] == call_id:
        return True
    if n.get('k') == 'var' and n.get('vk') == 'local':
        for d in fn.all_nodes():
            if d.get('k') == 'decl':
                for v in d['vars']:
                    if v['d'] == n['d'] and isinstance(v.get('init'), int):
                        return call_id in fn.subtree(v['init'])
    return False


# ------------------------------------------------------------------------------------------------ driver

def all_rules(fb, R):
    idprog = id_order_rules(fb, R)
    tuple_rules(fb, R, idprog)
    timestamp_order_rule(fb, R)
    accessor_rules(fb, R)
    equality_rules(fb, R)
    delegation_rules(fb, R)
    check_order_rules(fb, R)
    collection_rules(fb, R)


def run(ctx):
    R = ctx.R
    try:
        OT.selfcheck()
    except AssertionError:
        R.broken('ordertype engine self-check failed (enumeration of order types)')
        return
    configs = ['ndebug14'] if ctx.tier == 'quick' else ['ndebug14', 'debug14', 'ndebug17', 'debug17']
    for cfg in configs:
        fb = ctx.facts(['core'], cfg)
        all_rules(fb, R)
    floors = [
        ('O1-id_order-comparison-only', 1),
        ('O2-id_order-strict-weak-order', 5),
        ('O3-id_order-documented-rule', 1),
        ('T1-tuple-mirror', 4),           # 3 comparators + const_tie
        ('T2-component-one-sided', 7),    # 3 x (sidedness, element types) + Timestamp operator<
        ('T3-component-keys', 3),
        ('T4-id-key-agrees-with-id_order', 6),   # 3 x (flag is id>0, key pair vs id_order)
        ('T5-id-accessors', 2),
        ('E1-equality-reads-type-id-version', 2),
        ('D1-delegation-preserves-meaning', 11),
        ('K1-rejects-later-type', 2),     # node, way (relation has no later type)
        ('K2-accepts-iff-ascending', 3),
        ('K3-accept-updates-state', 3),
        ('S1-sort-forwards-comparator', 1),
        ('S2-unique-forwards-and-erases', 1),
        ('S3-sort-unique-total', 2),
    ]
    degraded = getattr(R, 'c16_degraded', set())
    for rule, n in floors:
        # a floor is waived only when a reported violation (see _degrade) makes the dependent rule unevaluable
        R.expect(rule, 0 if rule in degraded else n)


def _selftest(fb, R):
    all_rules(fb, R)


SELFTESTS = [(r, 'c16_orders.cpp', _selftest) for r in (
    'O2-id_order-strict-weak-order', 'O3-id_order-documented-rule', 'T1-tuple-mirror', 'T2-component-one-sided', 'T3-component-keys',
    'T4-id-key-agrees-with-id_order', 'T5-id-accessors', 'E1-equality-reads-type-id-version', 'D1-delegation-preserves-meaning',
    'K1-rejects-later-type', 'K2-accepts-iff-ascending', 'K3-accept-updates-state', 'S1-sort-forwards-comparator',
    'S2-unique-forwards-and-erases', 'S3-sort-unique-total')]
