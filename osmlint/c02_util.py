"""Helpers for the C02 rule module: event counting along CFG paths, small exact evaluators for comparison-only conditions,
linear forms, cast chains.  No rule logic."""
from collections import deque


class Shape(Exception):
    """The construct exists but has a shape this checker does not understand (=> analysis-broken, never a verdict)."""


# ------------------------------------------------------------------------------------------------ expressions

def strip_casts(fn, nid):
    """Node with wrappers, implicit and explicit casts removed (value-preserving view of the expression tree)."""
    n = fn.sn(nid)
    hops = 0
    while n is not None and n.get('k') == 'cast' and 'sub' in n and hops < 20:
        n = fn.sn(n['sub'])
        hops += 1
    return n


def this_field(fn, node):
    """qualified field name if node is `this->field` (after strip), else None."""
    if node is None or node.get('k') != 'member' or not node.get('field'):
        return None
    b = fn.sn(node['base'])
    if b is None or b.get('k') != 'this':
        return None
    return node['q']


def leaves(fn, nid):
    """Non-constant leaves of an expression: [('param', decl, name) | ('local', decl, name) | ('field', q, name) | ('global', q, name)
    | ('call', q, id)] -- calls are leaves (their arguments are not descended into)."""
    out = []
    stack = [nid]
    seen = set()
    while stack:
        x = stack.pop()
        if x in seen or x not in fn.nodes:
            continue
        seen.add(x)
        n = fn.nodes[x]
        k = n.get('k')
        if k == 'var':
            vk = n.get('vk', 'local')
            if vk == 'param':
                out.append(('param', n.get('d'), n['name']))
            elif vk == 'local':
                out.append(('local', n.get('d'), n['name']))
            elif vk in ('global', 'static_member'):
                out.append(('global', n.get('q'), n['name']))
            continue
        if k == 'member' and n.get('field'):
            f = this_field(fn, n)
            if f is not None:
                out.append(('field', f, n['name']))
                continue
        if k == 'call':
            out.append(('call', n.get('q', n.get('name')), n['id']))
            continue
        stack.extend(fn.children(x))
    return out


def linear_terms(fn, nid, sign=1, out=None):
    """Flatten an expression over binary + and - : [(sign, stripped node)]."""
    out = [] if out is None else out
    n = strip_casts(fn, nid)
    if n is None:
        raise Shape('empty operand')
    if n.get('k') == 'binop' and n['op'] in ('+', '-'):
        linear_terms(fn, n['lhs'], sign, out)
        linear_terms(fn, n['rhs'], sign if n['op'] == '+' else -sign, out)
    else:
        out.append((sign, n))
    return out


_CMP = {'<': lambda a, b: a < b, '<=': lambda a, b: a <= b, '>': lambda a, b: a > b, '>=': lambda a, b: a >= b,
        '==': lambda a, b: a == b, '!=': lambda a, b: a != b}


def eval_cond(fn, nid, value_of):
    """Evaluate a condition built from && || ! and integer comparisons.  value_of(fn, stripped node) -> int | bool | None.
    Returns True/False, or None when a sub-expression is not understood (three-valued: unknown operands of && / || that do
    not decide the result make the result unknown)."""
    n = strip_casts(fn, nid)
    if n is None:
        return None
    v = value_of(fn, n)
    if v is not None:
        return bool(v)
    k = n.get('k')
    if k == 'binop' and n['op'] in ('&&', '||'):
        a = eval_cond(fn, n['lhs'], value_of)
        b = eval_cond(fn, n['rhs'], value_of)
        if n['op'] == '&&':
            if a is False or b is False:
                return False
            return True if (a is True and b is True) else None
        if a is True or b is True:
            return True
        return False if (a is False and b is False) else None
    if k == 'unop' and n['op'] == '!':
        a = eval_cond(fn, n['sub'], value_of)
        return None if a is None else (not a)
    if k == 'binop' and n['op'] in _CMP:
        a = _int_value(fn, n['lhs'], value_of)
        b = _int_value(fn, n['rhs'], value_of)
        if a is None or b is None:
            return None
        return _CMP[n['op']](a, b)
    c = fn.const_value(n['id'])
    if c is not None:
        return bool(c)
    return None


def _int_value(fn, nid, value_of):
    n = strip_casts(fn, nid)
    if n is None:
        return None
    v = value_of(fn, n)
    if v is not None:
        return int(v)
    c = fn.const_value(n['id'])
    if c is not None:
        return c
    c = fn.const_value(nid)
    return c


# ------------------------------------------------------------------------------------------------ CFG path counting

def count_paths(fn, start_block, is_event, is_stop, start_index=0, cap=2):
    """Explore every CFG path from (start_block, start_index).  Along a path, elements satisfying is_event(node) are counted
    (saturating at `cap`); the path ends at the first element satisfying is_stop(node) (terminal 'stop'), at a `throw`
    (terminal 'throw'), at the function exit (terminal 'exit'), or in a block without successors (terminal 'dead', e.g.
    after a noreturn call).  Returns {(terminal, count): witness path}; path items are element ids and ('B', block)."""
    res = {}
    seen = set()
    dq = deque([(start_block, start_index, 0, [('B', start_block)])])
    while dq:
        b, i0, cnt, path = dq.popleft()
        if (b, i0, cnt) in seen:
            continue
        seen.add((b, i0, cnt))
        ended = False
        for e in fn.blocks[b]['elems'][i0:]:
            n = fn.nodes[e]
            if is_stop(n):
                res.setdefault(('stop', cnt), path + [e])
                ended = True
                break
            if n.get('k') == 'throw':
                res.setdefault(('throw', cnt), path + [e])
                ended = True
                break
            if is_event(n):
                cnt = min(cnt + 1, cap)
                path = path + [e]
        if ended:
            continue
        if b == fn.exit:
            res.setdefault(('exit', cnt), path)
            continue
        succs = [s for s in fn.blocks[b]['succs'] if s is not None]
        if not succs:
            res.setdefault(('dead', cnt), path)
            continue
        for s in succs:
            dq.append((s, 0, cnt, path + [('B', s)]))
    return res


def describe(fn, path, limit=8):
    out = []
    for p in path or []:
        if isinstance(p, tuple):
            continue
        out.append('%s (line %s)' % (fn.expr(p)[:50], fn.nodes[p].get('l')))
    blocks = [p[1] for p in (path or []) if isinstance(p, tuple)]
    txt = ' -> '.join(out[:limit]) if out else 'no call on the message object'
    return '%s [blocks %s]' % (txt, ','.join('B%d' % b for b in blocks[:12]))


def always_throws(fn, bid):
    """Every path from the start of block bid ends in a throw (no path reaches the function exit)."""
    if bid is None:
        return False
    res = count_paths(fn, bid, lambda n: False, lambda n: False)
    kinds = {k for (k, _c) in res}
    return 'throw' in kinds and 'exit' not in kinds


def cond_block_of(fn, nid):
    """Block whose two-way terminator condition is (after strip) node nid."""
    for b in fn.blocks.values():
        if 'cond' in b and len(b['succs']) == 2 and fn.strip(b['cond']) == nid:
            return b
    return None


def cast_chain(fn, top, bottom):
    """Nodes from expression `top` down to node id `bottom` following single-child wrappers/casts: [node...] (top first), or None."""
    out = []
    x = top
    hops = 0
    while x is not None and x in fn.nodes and hops < 30:
        hops += 1
        n = fn.nodes[x]
        out.append(n)
        if x == bottom:
            return out
        if n.get('k') in ('wrap', 'icast', 'cast') and 'sub' in n:
            x = n['sub']
        else:
            return None
    return None
