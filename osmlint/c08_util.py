"""Helpers for the C08 rule module (write path selection, small CFG predicates).  No rule verdicts here."""
from . import errdisc as E
from .flow import path_search

WRITER = 'osmium::io::Writer'
WRITE_THREAD = 'osmium::io::detail::WriteThread'
COMPRESSOR = 'osmium::io::Compressor'
OUTPUT_FORMAT = 'osmium::io::detail::OutputFormat'
OUTPUT_BLOCK = 'osmium::io::detail::OutputBlock'
POOL_SUBMIT = 'osmium::thread::Pool::submit'


def is_exit(e):
    return isinstance(e, tuple) and e[0] == 'exit'


def write_path_functions(fb):
    """Function bodies of the write path: everything reachable from Writer, WriteThread, every Compressor / OutputFormat /
    OutputBlock subclass, the record-typed members of those classes (file_wrapper, queue_wrapper ...) and every functor
    class handed to Pool::submit from there (their operator() runs on a pool thread; the call is not a resolved edge)."""
    classes = {WRITER, WRITE_THREAD, COMPRESSOR, OUTPUT_FORMAT, OUTPUT_BLOCK}
    for base in (COMPRESSOR, OUTPUT_FORMAT, OUTPUT_BLOCK):
        classes |= {r.q for r in fb.derived_from(base)}
    for c in list(classes):
        for r in fb.records_named(c):
            for f in r.fields:
                if f.get('rec', '').startswith('osmium::io::'):
                    classes.add(f['rec'])
    while True:
        roots = [f for f in fb.functions if f.cls in classes]
        fns = E.closure_fns(fb, roots)
        new = set()
        for f in fns:
            for c in f.calls(POOL_SUBMIT):
                for a in c.get('args', []):
                    t = (f.sn(a) or {}).get('t', '')
                    t = t.replace('const ', '').strip()
                    if t.startswith('osmium::'):
                        q = t.split('<', 1)[0]
                        if q not in classes and fb.records_named(q):
                            new.add(q)
        if not new:
            return fns, classes
        classes |= new


def in_io_layer(fn):
    return '/osmium/io/' in fn.file or '/osmium/util/' in fn.file or '/osmium/thread/' in fn.file


def strip_casts(fn, nid):
    """strip wrappers, implicit and explicit casts."""
    hops = 0
    while nid is not None and nid in fn.nodes and hops < 50:
        hops += 1
        n = fn.nodes[nid]
        if n.get('k') in ('wrap', 'icast', 'cast') and 'sub' in n:
            nid = n['sub']
        elif n.get('k') == 'construct' and n.get('elidable') and len(n.get('args', [])) == 1:
            nid = n['args'][0]
        elif n.get('k') == 'call' and n.get('q') in ('std::move', 'std::forward') and n.get('args'):
            nid = n['args'][0]
        else:
            break
    return nid


def scn(fn, nid):
    x = strip_casts(fn, nid)
    return fn.nodes.get(x) if x is not None else None


def vars_in(fn, nid):
    """decl ids of locals/params read anywhere in the expression tree."""
    out = set()
    for x in fn.subtree(nid):
        n = fn.nodes[x]
        if n.get('k') == 'var' and n.get('vk') in ('local', 'param'):
            out.add(n['d'])
    return out


def catch_all_handler(fn, nid):
    """(try, handler, catch block id) of the innermost try with a catch (...) around node nid, or None."""
    tries = [t for t in fn.enclosing_tries(nid) if any(h.get('all') for h in t['handlers'])]
    if not tries:
        return None
    t = max(tries, key=lambda t: t['b'])
    h = next(h for h in t['handlers'] if h.get('all'))
    for b in fn.blocks.values():
        lab = b.get('label') or {}
        if lab.get('catch') and lab.get('o') == h['b']:
            return t, h, b['id']
    return t, h, None


def nodes_in_handler(fn, h):
    return [n for n in fn.all_nodes() if 'o' in n and h['b'] <= n['o'] <= h['e']]


def must_pass(fn, start_block, barrier_ids, edge_ok=None, stop_ids=()):
    """Every path from the start of start_block to the function exit passes one of barrier_ids (throw/noreturn paths and
    stop_ids end a path without counting as an exit).  Returns the witness path of a violation or None."""
    bar = set(barrier_ids) | set(stop_ids)
    throws = {n['id'] for n in fn.all_nodes() if n.get('k') == 'throw' or (n.get('k') == 'call' and n.get('noret'))}
    return path_search(fn, start_block, is_exit, lambda e: e in bar or e in throws, edge_ok, from_block_start=True)


def must_pass_after(fn, start_node, barrier_ids, edge_ok=None, targets=None):
    bar = set(barrier_ids)
    throws = {n['id'] for n in fn.all_nodes() if n.get('k') == 'throw' or (n.get('k') == 'call' and n.get('noret'))}
    tg = set(targets or ())
    return path_search(fn, start_node, lambda e: is_exit(e) or e in tg, lambda e: e in bar or e in throws, edge_ok)


def reaches_extern(fb, fn, names, _memo={}):
    """Does fn (transitively, over resolved callees) call one of the extern "C" functions `names`?"""
    key = (id(fb), fn.usr, fn.full, tuple(sorted(names)))
    if key not in _memo:
        r = False
        for g in E.closure_fns(fb, [fn], depth=4):
            for n in g.all_nodes():
                if E.is_extern_c(n) and n['q'] in names:
                    r = True
                    break
            if r:
                break
        _memo[key] = r
    return _memo[key]


def calls_reaching(fb, fn, names):
    """call nodes of fn whose (library) callee transitively reaches one of the extern functions `names`."""
    out = []
    for n in fn.all_nodes():
        if n.get('k') != 'call' or 'u' not in n or E.is_extern_c(n):
            continue
        gs = fb.by_usr.get(n['u'], [])
        if any(reaches_extern(fb, g, names) for g in gs):
            out.append(n)
    return out


guards = E.guards


def cond_blocks(fn):
    for b in fn.blocks.values():
        if 'cond' in b and len(b['succs']) == 2 and b.get('termcls') != 'SwitchStmt':
            yield b


def is_pointer_truth(fn, cond):
    """condition is a pointer used as a truth value."""
    x = cond
    hops = 0
    while x is not None and x in fn.nodes and hops < 10:
        hops += 1
        n = fn.nodes[x]
        if n.get('k') == 'icast' and n.get('ck') == 'PointerToBoolean':
            return True
        if n.get('k') in ('wrap', 'icast') and 'sub' in n:
            x = n['sub']
        else:
            break
    return False


def reads_only_object_state(fn, cond):
    """expression made of this-members and constants only (no calls, no locals): a test of the object's own state."""
    has_member = False
    for x in fn.subtree(cond):
        n = fn.nodes[x]
        k = n.get('k')
        if k in ('call', 'construct'):
            return False
        if k == 'var' and n.get('vk') in ('local', 'param'):
            return False
        if k == 'member' and n.get('field'):
            has_member = True
    return has_member


def compares_with_const(fn, cond, ops, value):
    n = fn.sn(cond)
    if n is None or n.get('k') != 'binop' or n.get('op') not in ops:
        return False
    return E.const_of(fn, n['rhs']) == value or E.const_of(fn, n['lhs']) == value
