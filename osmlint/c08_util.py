"""Helpers for the C08 rule module (write path selection, small CFG predicates).  No rule verdicts here."""
from . import errdisc as E
from .flow import path_search

WRITER = 'osmium::io::Writer'
WRITE_THREAD = 'osmium::io::detail::WriteThread'
COMPRESSOR = 'osmium::io::Compressor'
OUTPUT_FORMAT = 'osmium::io::detail::OutputFormat'
OUTPUT_BLOCK = 'osmium::io::detail::OutputBlock'
POOL_SUBMIT = 'osmium::thread::Pool::submit'


def is_exit(e):
    return isinstance(e, tuple) and e[0] == 'exit'


def write_path_functions(fb):
    """Function bodies of the write path: everything reachable from Writer, WriteThread, every Compressor / OutputFormat /
    OutputBlock subclass, the record-typed members of those classes (file_wrapper, queue_wrapper ...) and every functor
    class handed to Pool::submit from there (their operator() runs on a pool thread; the call is not a resolved edge)."""
    classes = {WRITER, WRITE_THREAD, COMPRESSOR, OUTPUT_FORMAT, OUTPUT_BLOCK}
    for base in (COMPRESSOR, OUTPUT_FORMAT, OUTPUT_BLOCK):
        classes |= {r.q for r in fb.derived_from(base)}
    for c in list(classes):
        for r in fb.records_named(c):
            for f in r.fields:
                if f.get('rec', '').startswith('osmium::io::'):
                    classes.add(f['rec'])
    while True:
        roots = [f for f in fb.functions if f.cls in classes]
        fns = E.closure_fns(fb, roots)
        new = set()
        for f in fns:
            for c in f.calls(POOL_SUBMIT):
                for a in c.get('args', []):
                    t = (f.sn(a) or {}).get('t', '')
                    t = t.replace('const ', '').strip()
                    if t.startswith('osmium::'):
                        q = t.split('<', 1)[0]
                        if q not in classes and fb.records_named(q):
                            new.add(q)
        if not new:
            return fns, classes
        classes |= new


def in_io_layer(fn):
    return '/osmium/io/' in fn.file or '/osmium/util/' in fn.file or '/osmium/thread/' in fn.file


def strip_casts(fn, nid):
    """strip wrappers, implicit and explicit casts."""
    hops = 0
    while nid is not None and nid in fn.nodes and hops < 50:
        hops += 1
        n = fn.nodes[nid]
        if n.get('k') in ('wrap', 'icast', 'cast') and 'sub' in n:
            nid = n['sub']
        elif n.get('k') == 'construct' and (n.get('elidable') or n.get('copymove')) and len(n.get('args', [])) == 1:
            nid = n['args'][0]
        elif n.get('k') == 'call' and n.get('q') in ('std::move', 'std::forward') and n.get('args'):
            nid = n['args'][0]
        else:
            break
    return nid


def scn(fn, nid):
    x = strip_casts(fn, nid)
    return fn.nodes.get(x) if x is not None else None


def vars_in(fn, nid):
    """decl ids of locals/params read anywhere in the expression tree."""
    out = set()
    for x in fn.subtree(nid):
        n = fn.nodes[x]
        if n.get('k') == 'var' and n.get('vk') in ('local', 'param'):
            out.add(n['d'])
    return out


def catch_all_handler(fn, nid):
    """(try, handler, catch block id) of the innermost try with a catch (...) around node nid, or None."""
    tries = [t for t in fn.enclosing_tries(nid) if any(h.get('all') for h in t['handlers'])]
    if not tries:
        return None
    t = max(tries, key=lambda t: t['b'])
    h = next(h for h in t['handlers'] if h.get('all'))
    for b in fn.blocks.values():
        lab = b.get('label') or {}
        if lab.get('catch') and lab.get('o') == h['b']:
            return t, h, b['id']
    return t, h, None


def nodes_in_handler(fn, h):
    return [n for n in fn.all_nodes() if 'o' in n and h['b'] <= n['o'] <= h['e']]


def must_pass(fn, start_block, barrier_ids, edge_ok=None, stop_ids=()):
    """Every path from the start of start_block to the function exit passes one of barrier_ids (throw/noreturn paths and
    stop_ids end a path without counting as an exit).  Returns the witness path of a violation or None."""
    bar = set(barrier_ids) | set(stop_ids)
    throws = {n['id'] for n in fn.all_nodes() if n.get('k') == 'throw' or (n.get('k') == 'call' and n.get('noret'))}
    return path_search(fn, start_block, is_exit, lambda e: e in bar or e in throws, edge_ok, from_block_start=True)


def must_pass_after(fn, start_node, barrier_ids, edge_ok=None, targets=None):
    bar = set(barrier_ids)
    throws = {n['id'] for n in fn.all_nodes() if n.get('k') == 'throw' or (n.get('k') == 'call' and n.get('noret'))}
    tg = set(targets or ())
    return path_search(fn, start_node, lambda e: is_exit(e) or e in tg, lambda e: e in bar or e in throws, edge_ok)


def reaches_extern(fb, fn, names, _memo={}):
    """Does fn (transitively, over resolved callees) call one of the extern "C" functions `names`?"""
    key = (id(fb), fn.usr, fn.full, tuple(sorted(names)))
    if key not in _memo:
        r = False
        for g in E.closure_fns(fb, [fn], depth=4):
            for n in g.all_nodes():
                if E.is_extern_c(n) and n['q'] in names:
                    r = True
                    break
            if r:
                break
        _memo[key] = r
    return _memo[key]


def calls_reaching(fb, fn, names):
    """call nodes of fn whose (library) callee transitively reaches one of the extern functions `names`."""
    out = []
    for n in fn.all_nodes():
        if n.get('k') != 'call' or 'u' not in n or E.is_extern_c(n):
            continue
        gs = fb.by_usr.get(n['u'], [])
        if any(reaches_extern(fb, g, names) for g in gs):
            out.append(n)
    return out


guards = E.guards
atom_guards = E.atom_guards
false_edge_of = E.false_edge_of


def cond_blocks(fn):
    for b in fn.blocks.values():
        if 'cond' in b and len(b['succs']) == 2 and b.get('termcls') != 'SwitchStmt':
            yield b


def is_pointer_truth(fn, cond):
    """condition is a pointer used as a truth value."""
    x = cond
    hops = 0
    while x is not None and x in fn.nodes and hops < 10:
        hops += 1
        n = fn.nodes[x]
        if n.get('k') == 'icast' and n.get('ck') == 'PointerToBoolean':
            return True
        if n.get('k') in ('wrap', 'icast') and 'sub' in n:
            x = n['sub']
        else:
            break
    return False


def reads_only_object_state(fn, cond):
    """expression made of this-members and constants only (no calls, no locals): a test of the object's own state."""
    has_member = False
    for x in fn.subtree(cond):
        n = fn.nodes[x]
        k = n.get('k')
        if k in ('call', 'construct'):
            return False
        if k == 'var' and n.get('vk') in ('local', 'param'):
            return False
        if k == 'member' and n.get('field'):
            has_member = True
    return has_member


def compares_with_const(fn, cond, ops, value):
    n = fn.sn(cond)
    if n is None or n.get('k') != 'binop' or n.get('op') not in ops:
        return False
    return E.const_of(fn, n['rhs']) == value or E.const_of(fn, n['lhs']) == value


# ------------------------------------------------------------------------------------------------ named locals / helpers

def _single_init(fn, d):
    """init expression id of local d when its declaration is its only definition, else None."""
    cache = fn.__dict__.setdefault('_c08_single_init', {})
    if d not in cache:
        init = None
        ndef = 0
        for n in fn.all_nodes():
            k = n.get('k')
            if k == 'decl':
                for v in n['vars']:
                    if v['d'] == d:
                        ndef += 1
                        init = v.get('init') if isinstance(v.get('init'), int) else None
            elif k == 'assign':
                c = E.carrier_of(fn, n['lhs'])
                if c == ('var', d):
                    ndef += 1
            elif k == 'unop' and n.get('op') in ('++', '--'):
                if E.carrier_of(fn, n['sub']) == ('var', d):
                    ndef += 1
        cache[d] = init if ndef == 1 else None
    return cache[d]


def resolved(fn, nid, depth=4):
    """node an expression denotes after stripping casts / std::move and following single-definition locals to their
    initialiser (`const auto size = c->file_size(); p.set_value(size)` resolves to the file_size() call)."""
    n = scn(fn, nid)
    while n is not None and depth > 0 and n.get('k') == 'var' and n.get('vk') == 'local':
        init = _single_init(fn, n['d'])
        if init is None:
            break
        n = scn(fn, init)
        depth -= 1
    return n


def subtree_deep(fn, nid, depth=3):
    """node ids of the expression tree, plus the initialisers of single-definition locals it reads."""
    out = []
    seen = set()
    work = [(nid, depth)]
    while work:
        x, d = work.pop()
        for y in fn.subtree(x):
            if y in seen:
                continue
            seen.add(y)
            out.append(y)
            n = fn.nodes[y]
            if d > 0 and n.get('k') == 'var' and n.get('vk') == 'local':
                init = _single_init(fn, n['d'])
                if init is not None:
                    work.append((init, d - 1))
    return out


def callees_deep(fn, nid):
    return {fn.nodes[x].get('q') for x in subtree_deep(fn, nid) if fn.nodes[x].get('k') in ('call', 'construct') and 'q' in fn.nodes[x]}


def vars_in_deep(fn, nid):
    return {fn.nodes[x]['d'] for x in subtree_deep(fn, nid) if fn.nodes[x].get('k') == 'var' and fn.nodes[x].get('vk') in ('local', 'param')}


def class_of(fb, fn):
    """class a function body belongs to (for a lambda: the class of the enclosing method)."""
    hops = 0
    while fn is not None and fn.is_lambda and hops < 5:
        fn = fb.by_id.get((fn.unit, fn.outer))
        hops += 1
    return fn.cls if fn is not None else None


def helper_bodies(fb, fn, n):
    """bodies of the same-class method called by node n (a helper the code was extracted into), else []."""
    if n.get('k') != 'call' or 'u' not in n or not n.get('rcls') or n.get('rcls') != class_of(fb, fn):
        return []
    return [g for g in fb.by_usr.get(n['u'], [])[:1] if g.has_cfg]


def role_ids(fb, fn, nodes, pred, depth=2, edge_ok=None):
    """ids of `nodes` (of fn) that play a role: pred(fn, node) holds, or the node calls a method of the same class whose
    body performs the role on every path (code extracted into a helper).  edge_ok(g) may return an edge filter that
    describes paths excused from performing the role inside helper g."""
    ids = [n['id'] for n in nodes if pred(fn, n)]
    if depth > 0:
        for n in nodes:
            for g in helper_bodies(fb, fn, n):
                inner = role_ids(fb, g, list(g.all_nodes()), pred, depth - 1, edge_ok)
                if inner and must_pass(g, g.entry, inner, edge_ok(g) if edge_ok else None) is None:
                    ids.append(n['id'])
    return ids


def role_ids_may(fb, fn, nodes, pred, depth=2):
    """like role_ids, but a helper counts as soon as its body (or its own helpers) contains the role somewhere."""
    ids = [n['id'] for n in nodes if pred(fn, n)]
    if depth > 0:
        for n in nodes:
            for g in helper_bodies(fb, fn, n):
                if role_ids_may(fb, g, list(g.all_nodes()), pred, depth - 1):
                    ids.append(n['id'])
    return ids


def work_functions(fb, fn0, depth=3):
    """fn0 and the same-class methods it (transitively) calls."""
    out = [fn0]
    seen = {fn0.usr}
    work = [(fn0, 0)]
    while work:
        f, d = work.pop()
        if d >= depth:
            continue
        for n in f.all_nodes():
            for g in helper_bodies(fb, f, n):
                if g.usr not in seen:
                    seen.add(g.usr)
                    out.append(g)
                    work.append((g, d + 1))
    return out


# ------------------------------------------------------------------------------------------------ must-bits of flag words

def _bits_of(fb, fn, nid, env, state, depth=0):
    """Bits that are definitely set in the value of integer expression nid (0 = nothing known), given the must-bits `state`
    of locals and the assumption env (carrier -> value set) used to decide ?: conditions and helper calls."""
    v = E.const_of(fn, nid)
    if v is not None and v >= 0:
        return v
    n = scn(fn, nid)
    if n is None:
        return 0
    k = n.get('k')
    if k == 'var' and n.get('vk') in ('local', 'param'):
        return state.get(n['d'], 0)
    if k == 'binop':
        a = _bits_of(fb, fn, n['lhs'], env, state, depth)
        b = _bits_of(fb, fn, n['rhs'], env, state, depth)
        if n['op'] == '|':
            return a | b
        if n['op'] == '&':
            return a & b
        return 0
    if k == 'condop':
        t = E.eval3(fn, n['cond'], env)
        a = _bits_of(fb, fn, n['then'], env, state, depth)
        b = _bits_of(fb, fn, n['else'], env, state, depth)
        return a if t is True else b if t is False else (a & b)
    if k == 'call' and 'u' in n and not E.is_extern_c(n) and depth < 2 and fb is not None:
        # value computed by a library helper: must-bits common to all its returns under the same assumption
        for g in fb.by_usr.get(n['u'], [])[:1]:
            if not g.has_cfg:
                continue
            genv = {}
            for i, a in enumerate(n.get('args', []) or []):
                fs = E.value_of(fn, a, env) if a is not None else None
                if fs is not None and i < len(g.params):
                    genv[('var', g.params[i]['d'])] = fs
            rets = {r['id']: r['sub'] for r in g.all_nodes() if r.get('k') == 'return' and 'sub' in r}
            got = must_bits_at(fb, g, genv, rets, depth + 1)
            if got:
                out = ~0
                for (_e, b) in got:
                    out &= b
                return max(out, 0)
    return 0


def must_bits_at(fb, fn, env, targets, depth=0, limit=5000):
    """Walk fn from its entry under env (edges decided by env are pruned; booleans computed from the assumed values are
    followed) while tracking, per path, the bits definitely set in every integer local (=, |=, &= with constants, ?:).
    targets = {element id: expression id}; returns [(element id, must-bits of the expression on one arriving path)]."""
    from collections import deque
    out = []
    seen = set()
    dq = deque([(fn.entry, 0, dict(env), {})])
    steps = 0
    while dq:
        b, i, env, state = dq.popleft()
        steps += 1
        if steps > limit:
            return None
        blk = fn.blocks[b]
        stop = False
        for e in blk['elems'][i:]:
            n = fn.nodes[e]
            if e in targets:
                out.append((e, _bits_of(fb, fn, targets[e], env, state, depth)))
            k = n.get('k')
            if k == 'throw' or (k == 'call' and n.get('noret')):
                stop = True
                break
            if k == 'decl':
                for v in n['vars']:
                    state = dict(state)
                    state[v['d']] = _bits_of(fb, fn, v['init'], env, state, depth) if isinstance(v.get('init'), int) else 0
            elif k == 'assign':
                c = E.carrier_of(fn, n['lhs'])
                if c and c[0] == 'var':
                    state = dict(state)
                    r = _bits_of(fb, fn, n['rhs'], env, state, depth)
                    op = n.get('op')
                    old = state.get(c[1], 0)
                    state[c[1]] = r if op == '=' else (old | r) if op == '|=' else (old & r) if op == '&=' else 0
            elif k == 'unop' and n.get('op') in ('++', '--'):
                c = E.carrier_of(fn, n['sub'])
                if c and c[0] == 'var':
                    state = dict(state)
                    state[c[1]] = 0
            elif k in ('call', 'construct'):
                for a in n.get('args', []) or []:
                    an = fn.sn(a) if a is not None else None
                    if an is not None and an.get('k') == 'unop' and an.get('op') == '&':
                        c = E.carrier_of(fn, an['sub'])
                        if c and c[0] == 'var' and c[1] in state:
                            state = dict(state)
                            state[c[1]] = 0
            env, _term = E._transfer(fn, n, env, None, 9, {})
        if stop or b == fn.exit:
            continue
        succs = blk['succs']
        allowed = list(range(len(succs)))
        if 'cond' in blk and len(succs) == 2 and blk.get('termcls') != 'SwitchStmt':
            v = E.eval3(fn, E.effective_cond(fn, blk), env)
            if v is True:
                allowed = [0]
            elif v is False:
                allowed = [1]
        for idx in allowed:
            s = succs[idx]
            if s is None:
                continue
            key = (s, frozenset(env.items()), frozenset(state.items()))
            if key in seen:
                continue
            seen.add(key)
            dq.append((s, 0, dict(env), dict(state)))
    return out
