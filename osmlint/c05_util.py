"""Helpers for the C05 rule module: typed call-graph reachability, queue-of-futures call sites, entity-kind inference.
No verdicts are produced here."""
from collections import deque

from . import flow

QUEUE = 'osmium::thread::Queue'
FUTQ = 'osmium::thread::Queue<std::future<'
BUF = 'osmium::memory::Buffer'
STR = 'std::basic_string<char>'


# ------------------------------------------------------------------------------------------------ call graph

def bodies(fb, n):
    """Function bodies a call-like node may execute (exact instantiation by USR; all overriders of a virtual callee)."""
    u = n.get('u')
    if not u:
        return []
    out = [g for g in fb.by_usr.get(u, []) if g.has_cfg]
    if n.get('virt'):
        out += [g for g in fb.overriders(u) if g.has_cfg]
    return out


def reach(fb, roots, depth=14, stop=None):
    """{id(Fn): (Fn, parent Fn or None, call node or None)} of every body reachable from the root bodies through
    resolved calls / constructions / implicit destructors, virtual calls (all overriders) and lambdas defined inside a
    reached function.  `stop(Fn)` prunes below a function."""
    seen = {}
    dq = deque()
    for r in roots:
        if id(r) not in seen:
            seen[id(r)] = (r, None, None)
            dq.append((r, 0))
    while dq:
        f, d = dq.popleft()
        if d >= depth or (stop is not None and stop(f)):
            continue
        for n in f.all_nodes():
            k = n.get('k')
            if k in ('call', 'construct', 'autodtor') and 'u' in n:
                for g in bodies(fb, n):
                    if id(g) not in seen:
                        seen[id(g)] = (g, f, n)
                        dq.append((g, d + 1))
            elif k == 'lambda':
                g = fb.lambda_fn(f, n)
                if g is not None and g.has_cfg and id(g) not in seen:
                    seen[id(g)] = (g, f, n)
                    dq.append((g, d + 1))
    return seen


def chain(seen, fn):
    """Human readable call chain root -> ... -> fn from a reach() result."""
    out = []
    x = fn
    hops = 0
    while x is not None and hops < 40:
        out.append(x.q)
        x = seen.get(id(x), (None, None, None))[1]
        hops += 1
    return ' <- '.join(out)


def owner_class(fb, fn):
    """Class a body belongs to; a lambda belongs to the class of the function it is written in."""
    hops = 0
    while fn is not None and fn.is_lambda and hops < 10:
        fn = fb.by_id.get((fn.unit, fn.outer))
        hops += 1
    return fn.cls if fn is not None else None


# ------------------------------------------------------------------------------------------------ queues of futures

def queue_elem(clsT):
    """'X' for osmium::thread::Queue<std::future<X>>, else None."""
    if clsT and clsT.startswith(FUTQ) and clsT.endswith('>>'):
        return clsT[len(FUTQ):-2]
    return None


def _param_queue_elem(t):
    t = t.replace('const ', '')
    for pre in ('osmium::io::detail::future_queue_type<', FUTQ):
        if t.startswith(pre):
            body = t[len(pre):]
            i = body.rfind('>')
            if i >= 0:
                e = body[:i]
                if pre == FUTQ and e.endswith('>'):
                    e = e[:-1]
                return e.strip()
    return None


def is_enqueue_helper(fn):
    """Free function whose first parameter is a queue of futures (add_to_queue / add_end_of_data_to_queue style)."""
    if fn.cls or fn.is_lambda or not fn.params:
        return None
    return _param_queue_elem(fn.params[0]['tC']) or _param_queue_elem(fn.params[0]['t'])


def enqueue_calls(fb, fn):
    """[(call node, element type)] calls in fn that put something on a queue of futures: Queue<future<T>>::push or a
    helper (free function taking the queue as first parameter) that reaches such a push."""
    out = []
    for n in fn.all_nodes():
        if n.get('k') != 'call' or 'q' not in n:
            continue
        if n['q'] == QUEUE + '::push':
            e = queue_elem(n.get('rclsT', ''))
            if e is not None:
                out.append((n, e))
            continue
        for g in fb.by_usr.get(n.get('u'), []):
            e = is_enqueue_helper(g)
            if e is not None and g.has_cfg and _helper_pushes(fb, g):
                out.append((n, e))
                break
    return out


def _helper_pushes(fb, g, depth=3):
    for (h, _p, _n) in reach(fb, [g], depth).values():
        for n in h.all_nodes():
            if n.get('k') == 'call' and n.get('q') == QUEUE + '::push' and queue_elem(n.get('rclsT', '')) is not None:
                return True
    return False


# ------------------------------------------------------------------------------------------------ entity kinds

BITS = 'osmium::osm_entity_bits::type::'
KINDS = ('node', 'way', 'relation', 'changeset')
# builder class -> kind of top-level object it creates / belongs to
OBJECT_BUILDERS = {
    'osmium::builder::NodeBuilder': 'node',
    'osmium::builder::WayBuilder': 'way',
    'osmium::builder::RelationBuilder': 'relation',
    'osmium::builder::ChangesetBuilder': 'changeset',
}
SUB_BUILDERS = {
    'osmium::builder::WayNodeListBuilder': 'way',
    'osmium::builder::RelationMemberListBuilder': 'relation',
    'osmium::builder::ChangesetDiscussionBuilder': 'changeset',
}


def _single_init(fn, d):
    init = None
    for n in fn.all_nodes():
        k = n.get('k')
        if k == 'decl':
            for v in n['vars']:
                if v['d'] == d:
                    init = v.get('init') if isinstance(v.get('init'), int) else None
        elif k == 'assign' or (k == 'unop' and n.get('op') in ('++', '--')) or (k == 'call' and n.get('op') in ('=', '|=', '&=')):
            t = n.get('lhs', n.get('sub', n.get('recv')))
            r = fn.sn(t) if t is not None else None
            if r is not None and r.get('k') == 'var' and r.get('d') == d:
                return None
    return init


def mask_kind(fn, cid, _depth=0):
    """Kind K if the expression is `<entity mask> & osm_entity_bits::K` (either operand order), else None.
    Returns (kind, mask operand id)."""
    n = fn.sn(cid)
    if n is None:
        return None
    if n.get('k') == 'var' and n.get('vk') == 'local' and _depth < 2:
        # `const bool want = mask & K; if (want)`: look through a local that is initialised once and never written again
        init = _single_init(fn, n['d'])
        return mask_kind(fn, init, _depth + 1) if init is not None else None
    if n.get('k') == 'cast' and 'sub' in n:
        return mask_kind(fn, n['sub'], _depth)
    if n.get('k') == 'binop' and n.get('op') == '!=' and fn.const_value(n['rhs']) == 0:
        return mask_kind(fn, n['lhs'], _depth)
    ops = None
    if n.get('k') == 'call' and n.get('q') == 'osmium::osm_entity_bits::operator&' and len(n.get('args', [])) == 2:
        ops = n['args']
    elif n.get('k') == 'binop' and n.get('op') == '&':
        ops = [n['lhs'], n['rhs']]
    if ops is None:
        return None
    for i in (0, 1):
        e = fn.sn(ops[i])
        if e is not None and e.get('k') == 'var' and e.get('vk') == 'enumconst' and e.get('q', '').startswith(BITS):
            k = e['q'][len(BITS):]
            if k in KINDS:
                return (k, ops[1 - i])
    return None


def mask_guards(fn, nid, guards_of):
    """[(kind, sense)] entity-mask tests that must have had the given outcome for nid to execute."""
    out = []
    for (c, sense, _b) in guards_of(fn, nid):
        mk = mask_kind(fn, c)
        if mk is not None:
            out.append((mk[0], sense))
    return out


# ------------------------------------------------------------------------------------------------ named locals / helpers

def single_init(fn, d):
    """Initialiser of a local that is initialised once and never written again, else None."""
    return _single_init(fn, d)


def guards(fn, nid):
    """flow.guards_of, plus: a condition that is a named local (`const bool nested = b.has_nested_buffers(); if (nested)`) is
    replaced by its initialiser (conjunctions / negations expanded), so that naming a sub-expression does not hide a test."""
    out = list(flow.guards_of(fn, nid))
    seen = set()
    i = 0
    while i < len(out) and i < 200:
        c, sense, b = out[i]
        i += 1
        x = fn.sn(c)
        while x is not None and x.get('k') == 'cast' and 'sub' in x:
            x = fn.sn(x['sub'])
        if x is not None and x.get('k') == 'var' and x.get('vk') == 'local' and x['d'] not in seen:
            seen.add(x['d'])
            init = _single_init(fn, x['d'])
            if init is not None:
                flow._expand(fn, init, sense, b, out)
    return out


def resolve(fn, nid, hops=8):
    """Expression a value comes from: looks through wrappers, std::move / std::forward, elidable copies, single-element init
    lists and single-assignment locals (to their initialiser)."""
    while nid is not None and hops > 0:
        hops -= 1
        n = fn.sn(nid)
        if n is None:
            break
        k = n.get('k')
        if k == 'call' and n.get('q') in ('std::move', 'std::forward') and n.get('args'):
            nid = n['args'][0]
        elif k == 'var' and n.get('vk') == 'local':
            init = _single_init(fn, n['d'])
            if init is None:
                break
            nid = init
        elif k == 'construct' and (n.get('elidable') or n.get('copymove')) and len(n.get('args', [])) == 1:
            nid = n['args'][0]
        elif k == 'initlist' and len(n.get('args', [])) == 1:
            nid = n['args'][0]
        else:
            break
    return fn.strip(nid) if nid is not None else None


def source_root(fn, nid, hops=6):
    """fn.root_var of the expression a value comes from; a local that merely names a sub-expression (pointer / reference / moved
    value, initialised once) is looked through."""
    r = None
    while nid is not None and hops > 0:
        hops -= 1
        r = fn.root_var(nid)
        if r is None or r[0] != 'var':
            return r
        init = _single_init(fn, r[1])
        if init is None or not any(n.get('k') == 'decl' and any(v['d'] == r[1] for v in n['vars']) for n in fn.all_nodes()):
            return r
        nid = init
    return r


def elem_of(fn, nid):
    pos = fn.positions()
    if nid not in pos:
        return None
    b, i = pos[nid]
    el = fn.blocks[b]['elems']
    return el[i] if i < len(el) else None


def must_hit(fb, fn, hit, abnormal, depth=4, memo=None, stack=None):
    """None when every normal path from the entry of fn to its exit executes an element containing a node with hit(fn, node), or a
    call of an osmium:: function all of whose bodies do (private helper = its body inlined).  Else a witness path."""
    memo = memo if memo is not None else {}
    stack = stack if stack is not None else set()
    if id(fn) in memo:
        return memo[id(fn)]
    if id(fn) in stack or depth < 0 or not fn.has_cfg:
        return ['recursion/depth']
    stack.add(id(fn))
    targets = hit_elems(fb, fn, hit, abnormal, depth, memo, stack)
    stack.discard(id(fn))
    w = flow.path_search(fn, fn.entry, lambda e: isinstance(e, tuple) and e[0] == 'exit', lambda e: e in targets or abnormal(fn, e),
                         from_block_start=True)
    memo[id(fn)] = w
    return w


def hit_elems(fb, fn, hit, abnormal, depth=4, memo=None, stack=None):
    """Elements of fn that contain a node with hit(fn, node) or a call whose callee must_hit."""
    memo = memo if memo is not None else {}
    stack = stack if stack is not None else set()
    out = set()
    for n in fn.all_nodes():
        ok = bool(hit(fn, n))
        if not ok and n.get('k') == 'call' and n.get('u') and n.get('q', '').startswith('osmium::'):
            gs = bodies(fb, n)
            ok = bool(gs) and all(must_hit(fb, g, hit, abnormal, depth - 1, memo, stack) is None for g in gs)
        if ok:
            e = elem_of(fn, n['id'])
            if e is not None:
                out.add(e)
    return out


def deep_subtree(fn, nid, depth=2):
    """fn.subtree(nid) plus the initialisers of single-assignment locals mentioned in it (named sub-expressions)."""
    out = []
    seen = set()
    work = [(nid, depth)]
    while work:
        x, d = work.pop()
        for y in fn.subtree(x):
            if y in seen:
                continue
            seen.add(y)
            out.append(y)
            n = fn.nodes[y]
            if d > 0 and n.get('k') == 'var' and n.get('vk') == 'local':
                init = _single_init(fn, n['d'])
                if init is not None:
                    work.append((init, d - 1))
    return out
