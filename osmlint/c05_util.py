"""Helpers for the C05 rule module: typed call-graph reachability, queue-of-futures call sites, entity-kind inference.
No verdicts are produced here."""
from collections import deque

QUEUE = 'osmium::thread::Queue'
FUTQ = 'osmium::thread::Queue<std::future<'
BUF = 'osmium::memory::Buffer'
STR = 'std::basic_string<char>'


# ------------------------------------------------------------------------------------------------ call graph

def bodies(fb, n):
    """Function bodies a call-like node may execute (exact instantiation by USR; all overriders of a virtual callee)."""
    u = n.get('u')
    if not u:
        return []
    out = [g for g in fb.by_usr.get(u, []) if g.has_cfg]
    if n.get('virt'):
        out += [g for g in fb.overriders(u) if g.has_cfg]
    return out


def reach(fb, roots, depth=14, stop=None):
    """{id(Fn): (Fn, parent Fn or None, call node or None)} of every body reachable from the root bodies through
    resolved calls / constructions / implicit destructors, virtual calls (all overriders) and lambdas defined inside a
    reached function.  `stop(Fn)` prunes below a function."""
    seen = {}
    dq = deque()
    for r in roots:
        if id(r) not in seen:
            seen[id(r)] = (r, None, None)
            dq.append((r, 0))
    while dq:
        f, d = dq.popleft()
        if d >= depth or (stop is not None and stop(f)):
            continue
        for n in f.all_nodes():
            k = n.get('k')
            if k in ('call', 'construct', 'autodtor') and 'u' in n:
                for g in bodies(fb, n):
                    if id(g) not in seen:
                        seen[id(g)] = (g, f, n)
                        dq.append((g, d + 1))
            elif k == 'lambda':
                g = fb.lambda_fn(f, n)
                if g is not None and g.has_cfg and id(g) not in seen:
                    seen[id(g)] = (g, f, n)
                    dq.append((g, d + 1))
    return seen


def chain(seen, fn):
    """Human readable call chain root -> ... -> fn from a reach() result."""
    out = []
    x = fn
    hops = 0
    while x is not None and hops < 40:
        out.append(x.q)
        x = seen.get(id(x), (None, None, None))[1]
        hops += 1
    return ' <- '.join(out)


def owner_class(fb, fn):
    """Class a body belongs to; a lambda belongs to the class of the function it is written in."""
    hops = 0
    while fn is not None and fn.is_lambda and hops < 10:
        fn = fb.by_id.get((fn.unit, fn.outer))
        hops += 1
    return fn.cls if fn is not None else None


# ------------------------------------------------------------------------------------------------ queues of futures

def queue_elem(clsT):
    """'X' for osmium::thread::Queue<std::future<X>>, else None."""
    if clsT and clsT.startswith(FUTQ) and clsT.endswith('>>'):
        return clsT[len(FUTQ):-2]
    return None


def _param_queue_elem(t):
    t = t.replace('const ', '')
    for pre in ('osmium::io::detail::future_queue_type<', FUTQ):
        if t.startswith(pre):
            body = t[len(pre):]
            i = body.rfind('>')
            if i >= 0:
                e = body[:i]
                if pre == FUTQ and e.endswith('>'):
                    e = e[:-1]
                return e.strip()
    return None


def is_enqueue_helper(fn):
    """Free function whose first parameter is a queue of futures (add_to_queue / add_end_of_data_to_queue style)."""
    if fn.cls or fn.is_lambda or not fn.params:
        return None
    return _param_queue_elem(fn.params[0]['tC']) or _param_queue_elem(fn.params[0]['t'])


def enqueue_calls(fb, fn):
    """[(call node, element type)] calls in fn that put something on a queue of futures: Queue<future<T>>::push or a
    helper (free function taking the queue as first parameter) that reaches such a push."""
    out = []
    for n in fn.all_nodes():
        if n.get('k') != 'call' or 'q' not in n:
            continue
        if n['q'] == QUEUE + '::push':
            e = queue_elem(n.get('rclsT', ''))
            if e is not None:
                out.append((n, e))
            continue
        for g in fb.by_usr.get(n.get('u'), []):
            e = is_enqueue_helper(g)
            if e is not None and g.has_cfg and _helper_pushes(fb, g):
                out.append((n, e))
                break
    return out


def _helper_pushes(fb, g, depth=3):
    for (h, _p, _n) in reach(fb, [g], depth).values():
        for n in h.all_nodes():
            if n.get('k') == 'call' and n.get('q') == QUEUE + '::push' and queue_elem(n.get('rclsT', '')) is not None:
                return True
    return False


# ------------------------------------------------------------------------------------------------ entity kinds

BITS = 'osmium::osm_entity_bits::type::'
KINDS = ('node', 'way', 'relation', 'changeset')
# builder class -> kind of top-level object it creates / belongs to
OBJECT_BUILDERS = {
    'osmium::builder::NodeBuilder': 'node',
    'osmium::builder::WayBuilder': 'way',
    'osmium::builder::RelationBuilder': 'relation',
    'osmium::builder::ChangesetBuilder': 'changeset',
}
SUB_BUILDERS = {
    'osmium::builder::WayNodeListBuilder': 'way',
    'osmium::builder::RelationMemberListBuilder': 'relation',
    'osmium::builder::ChangesetDiscussionBuilder': 'changeset',
}


def _single_init(fn, d):
    init = None
    for n in fn.all_nodes():
        k = n.get('k')
        if k == 'decl':
            for v in n['vars']:
                if v['d'] == d:
                    init = v.get('init') if isinstance(v.get('init'), int) else None
        elif k == 'assign' or (k == 'unop' and n.get('op') in ('++', '--')) or (k == 'call' and n.get('op') in ('=', '|=', '&=')):
            t = n.get('lhs', n.get('sub', n.get('recv')))
            r = fn.sn(t) if t is not None else None
            if r is not None and r.get('k') == 'var' and r.get('d') == d:
                return None
    return init


def mask_kind(fn, cid, _depth=0):
    """Kind K if the expression is `<entity mask> & osm_entity_bits::K` (either operand order), else None.
    Returns (kind, mask operand id)."""
    n = fn.sn(cid)
    if n is None:
        return None
    if n.get('k') == 'var' and n.get('vk') == 'local' and _depth < 2:
        # `const bool want = mask & K; if (want)`: look through a local that is initialised once and never written again
        init = _single_init(fn, n['d'])
        return mask_kind(fn, init, _depth + 1) if init is not None else None
    if n.get('k') == 'cast' and 'sub' in n:
        return mask_kind(fn, n['sub'], _depth)
    if n.get('k') == 'binop' and n.get('op') == '!=' and fn.const_value(n['rhs']) == 0:
        return mask_kind(fn, n['lhs'], _depth)
    ops = None
    if n.get('k') == 'call' and n.get('q') == 'osmium::osm_entity_bits::operator&' and len(n.get('args', [])) == 2:
        ops = n['args']
    elif n.get('k') == 'binop' and n.get('op') == '&':
        ops = [n['lhs'], n['rhs']]
    if ops is None:
        return None
    for i in (0, 1):
        e = fn.sn(ops[i])
        if e is not None and e.get('k') == 'var' and e.get('vk') == 'enumconst' and e.get('q', '').startswith(BITS):
            k = e['q'][len(BITS):]
            if k in KINDS:
                return (k, ops[1 - i])
    return None


def mask_guards(fn, nid, guards_of):
    """[(kind, sense)] entity-mask tests that must have had the given outcome for nid to execute."""
    out = []
    for (c, sense, _b) in guards_of(fn, nid):
        mk = mask_kind(fn, c)
        if mk is not None:
            out.append((mk[0], sense))
    return out
