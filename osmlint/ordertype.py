"""ORDERTYPE engine -- exact decisions about comparison-only code by enumeration of order types (DESIGN.md section 3).

Idea
----
A piece of code that touches its integer inputs ONLY through the six comparisons  <  <=  >  >=  ==  !=  (against each
other or against integer constants) cannot distinguish two input vectors that have the same *order type*, i.e. the same
weak ordering of {inputs} u {constants}.  There are finitely many order types (13 for two inputs and the constant 0, 75
for three inputs and 0), so evaluating the code abstractly once per order type decides a property for ALL 2^64 (or 2^32,
...) values of every input.  This is abstract interpretation over a finite, exact abstract domain: no libosmium code is
ever executed, nothing is sampled, and no solver is involved.

The engine has three layers, all of them static:

 1. PROOF OF EXACTNESS = compilation.   `compile_function(fb, fn, atoms=None)` translates the clang CFG of one function
    body (an `osmlint.facts.Fn`) into a tiny comparison-only IR (`Program`).  The translation is total over everything
    reachable in the CFG and succeeds only if the function is comparison-only; anything else raises `Inexact` (with the
    offending expression and its site).  Accepted:
       * integer / bool / enum parameters (by value or by reference to const), integer constants (anything clang folded:
         literals, enumerators, constexpr globals, constant sub-expressions such as `max * 95 / 100`);
       * comparisons, `!`, `&&`, `||`, `?:`, integer->bool conversion (`if (x)` is `x != 0`);
       * implicit/explicit integral conversions that are value preserving (target range contains source range);
       * locals of integer/bool type (`const bool neg = lhs < 0;`), plain assignment to them;
       * `this->field` of integer/bool type: read (initial value is the symbol `this.<field>`) and plain assignment
         (recorded in the outcome's store) -- this is what lets small state machines such as CheckOrder be decided;
       * calls to other functions of the fact base that are themselves comparison-only (an extracted helper, a functor
         such as `id_order{}(a, b)`, a static check function that may throw): compiled recursively and inlined at
         evaluation, also as a statement.  A helper invoked on `this` (private member helper) shares the caller's fields
         (reads and writes); a throw inside a helper propagates to the outermost outcome; object/pointer arguments are
         passed opaquely (usable in the helper only through atoms, and atoms stay enabled in a helper only when it
         receives the caller's object parameters in the same positions);
       * std::min / std::max / std::clamp over integers, with `<` or with a comparator argument (functor with a
         comparison-only call operator, capture-less lambda):  max(a, b) == (a < b) ? b : a  etc.;
       * `return [expr]`, `throw` (terminal outcome; the operand of the throw is not inspected), if / loops as CFG
         branches (evaluation has a step bound; exceeding it is `Inexact`).
    Rejected (=> `Inexact`): arithmetic, unary minus, `abs`, bit operations, narrowing or sign-changing conversions,
    increments, compound assignment (all of these with `Inexact.kind == 'arithmetic'`: the code COMPUTES with its inputs,
    which a rule that requires a pure comparison should report as a violation of that rule), and switch, try/catch,
    calls with unknown effect, object-typed parameters used other than through an *atom* (`kind == 'shape'`: a
    construct the engine does not model => analysis-broken).  `Inexact.context` says where: ('store', field) /
    ('local', name) / ('branch',) / ('return',) / ('stmt',); `Inexact.site` is file:line.
    ATOMS: the optional hook `atoms(fn, node)` lets a rule declare that an expression (typically a const accessor call
    such as `node.id()`, `lhs.version()`, `count()`) is an opaque input.  It returns None (not an atom), a symbol name,
    or `(name, domain)` with domain = `(lo, hi)` or 'bool'.  Without an explicit domain the node's canonical type
    decides.  The rule is responsible for the accessor being pure; the engine guarantees the rest.

 2. WORLDS.  `worlds(int_syms, consts, bool_syms=(), groups=None)` enumerates every order type of the integer symbols
    (name -> (lo, hi) value range) and the constants that is realisable over the INTEGERS within the ranges (a symbol of
    unsigned type is never below 0, no symbol lies strictly between the constants 0 and 1, ...), times every assignment
    of the boolean symbols.  Each `World` answers `cmp(op, a, b)` / `lt le gt ge eq ne` for terms (symbol names or int
    constants), `b(name)` for boolean symbols, and carries a concrete integer witness (`values`) for reports.
    `groups=[(int_syms_subset, consts_subset), ...]` enumerates independent symbol groups as a product (comparing
    symbols of different groups is then `Inexact`, never a wrong answer).

 3. ABSTRACT EXECUTION.  `run(prog, world, binding=None)` executes the IR in one world and returns an `Outcome`
    (`kind` = 'return' | 'throw' | 'end', `value` = ('i', term) | ('b', bool) | None, `store` = {field: value} for the
    fields assigned on the path, `path` = block ids).  `binding` renames symbols (`{'lhs': 'a', 'rhs': 'b'}`) so one
    program can be applied to several argument tuples inside one world (needed for the axioms below).

Ready-made decisions (each returns `Counterexample`s -- order type + concrete witness values; empty = holds for all values):
    check_strict_weak_order(prog)            irreflexive, asymmetric, transitive, transitive incomparability
                                             (+ optional `total=True`: incomparable <=> equal) over all order types of
                                             {a, b, c} u consts; returns {axiom name: Counterexample} (see SWO_AXIOMS)
    check_equivalent(prog, reference)        prog(x, y, ...) == reference(world, x, y, ...) in every world; the reference
                                             is a Python function that may look at its arguments ONLY through the World
                                             (the same mini-language: comparisons and boolean connectives)
    check_forall(prog, predicate, ...)       generic: predicate(world, outcome) -> True | message

Typical use (see rules/c16.py for comparators, tuple components, equality with accessor atoms and the CheckOrder state machine):
    try:
        prog = compile_function(fb, fn)                  # Inexact => the rule does not apply: R.broken(...), never a pass
    except Inexact as e: ...
    axioms = check_strict_weak_order(prog, total=True)   # {axiom: Counterexample}
    diff = check_equivalent(prog, lambda w, a, b: ...)   # [Counterexample]
    for cx in diff: R.bad(rule, key, site, str(cx))      # str(cx) names the order type and concrete values

  value-returning code (C18 clamp; the result of a run is a term of the world, compared through the world):
    prog = compile_function(fb, clamp_fn)                # params value, min, max -> 13 worlds
    def in_range(w, o):                                  # premise min <= max
        if not w.le('min', 'max'): return True
        r = o.value[1]
        return (w.le('min', r) and w.le(r, 'max') and (not (w.le('min', 'value') and w.le('value', 'max')) or w.eq(r, 'value'))) or 'clamp'
    bad = check_forall(prog, in_range)

  member functions reading accessors / constants (C01 PrimitiveBlock::can_add, C17 thresholds): declare the reads as atoms
    def atoms(fn, n):
        if n.get('k') == 'call' and n.get('q', '').endswith('::count') and not n.get('args'): return ('count', UINT64)
        ...
    prog = compile_function(fb, can_add_fn, atoms)       # prog.consts then holds the folded limits, e.g. {8000, 31876710}
    for w in program_worlds(prog, groups=[(['count'], [8000]), (['size'], [31876710]), (['type', 'm_type'], [])]): run(prog, w) ...

Attributes worth knowing: Program.params [(name, 'i'|'b'|'obj', range)], .int_syms {name: (lo, hi)}, .bool_syms, .consts,
.fields_written, .throws;  World.values (witness), .describe(), .witness();  Outcome.kind/.value/.store/.throw_type/.path,
.as_bool();  Counterexample.what/.world/.detail.

Assumed data model: LP64 (int 32 bit, long / long long 64 bit), as in the repository's build.
"""
from itertools import product

CMP_OPS = ('<', '<=', '>', '>=', '==', '!=')

_I8, _I16, _I32, _I64 = (-2 ** 7, 2 ** 7 - 1), (-2 ** 15, 2 ** 15 - 1), (-2 ** 31, 2 ** 31 - 1), (-2 ** 63, 2 ** 63 - 1)
_U8, _U16, _U32, _U64 = (0, 2 ** 8 - 1), (0, 2 ** 16 - 1), (0, 2 ** 32 - 1), (0, 2 ** 64 - 1)
INT_DOMAINS = {
    'char': _I8, 'signed char': _I8, 'unsigned char': _U8, 'short': _I16, 'unsigned short': _U16, 'int': _I32,
    'unsigned int': _U32, 'long': _I64, 'unsigned long': _U64, 'long long': _I64, 'unsigned long long': _U64,
    'char16_t': _U16, 'char32_t': _U32, 'wchar_t': _I32,
}
INT64 = _I64
INT32 = _I32
UINT64 = _U64
UINT32 = _U32
UINT16 = _U16


class Inexact(Exception):
    """The order-type abstraction is not exact for this code (or the code has a shape the engine does not model)."""

    def __init__(self, msg, site=None, kind='shape', context=None):
        Exception.__init__(self, msg)
        self.site = site
        # kind 'arithmetic': the code computes with its inputs (arithmetic / bit operator, negation, increment, value-changing
        # conversion, library function without a body such as abs) -- the construct that a comparison-only contract forbids;
        # kind 'shape': a construct the engine simply does not model (switch, try/catch, object construction, ...).
        self.kind = kind
        # where it happened: ('store', field name) | ('local', name) | ('branch',) | ('return',) | ('stmt',) | None
        self.context = context


def _plain_type(t):
    t = (t or '').strip()
    changed = True
    while changed:
        changed = False
        for pre in ('const ', 'volatile '):
            if t.startswith(pre):
                t = t[len(pre):]
                changed = True
        for suf in (' &&', ' &', ' const', '&&', '&'):
            if t.endswith(suf):
                t = t[:-len(suf)].strip()
                changed = True
    return t


def domain_of_type(tC, by_value_only=False):
    """(lo, hi) for an integer type, 'bool' for bool, None otherwise.  References to const are looked through."""
    t = (tC or '').strip()
    if t.endswith('&') and not by_value_only:
        inner = t.rstrip('&').strip()
        if not (inner.startswith('const ') or inner.endswith(' const')):
            return None  # non-const reference: the callee could write through it
    if '*' in t or '(' in t or '[' in t:
        return None
    p = _plain_type(t)
    if p == 'bool':
        return 'bool'
    return INT_DOMAINS.get(p)


# ====================================================================================================== worlds

def _feasible(levels, dom):
    """levels: list of lists of terms (str symbol | int const), strictly increasing.  Returns {term: int} witness or
    None if no integer assignment within the symbols' ranges realises it.  Greedy is exact for interval constraints
    under a strict chain."""
    lo_hi = []
    for lv in levels:
        lo, hi = None, None
        for t in lv:
            a, b = (t, t) if isinstance(t, int) else dom[t]
            lo = a if lo is None else max(lo, a)
            hi = b if hi is None else min(hi, b)
        if lo > hi:
            return None
        lo_hi.append((lo, hi))
    n = len(levels)
    mn = [0] * n
    prev = None
    for i, (lo, hi) in enumerate(lo_hi):
        v = lo if prev is None else max(lo, prev + 1)
        if v > hi:
            return None
        mn[i] = v
        prev = v
    mx = [0] * n
    nxt = None
    for i in range(n - 1, -1, -1):
        lo, hi = lo_hi[i]
        v = hi if nxt is None else min(hi, nxt - 1)
        mx[i] = v
        nxt = v
    # readable witness: stay close to the constants
    pins = [i for i, lv in enumerate(levels) if any(isinstance(t, int) for t in lv)]
    vals = [0] * n
    for i in range(n):
        if pins and i < pins[0]:
            vals[i] = mx[i]
        elif pins:
            vals[i] = mn[i]
        else:
            vals[i] = min(max(mn[i], i + 1), mx[i])
    out = {}
    for i, lv in enumerate(levels):
        for t in lv:
            out[t] = vals[i]
    return out


def _orderings(dom, consts):
    """Yield (levels, witness) for every integer-realisable weak ordering of the symbols in dom and the constants."""
    consts = sorted(set(consts))
    syms = sorted(dom)
    base = [[c] for c in consts]

    def rec(levels, k):
        if _feasible(levels, dom) is None:
            return
        if k == len(syms):
            yield [list(lv) for lv in levels], _feasible(levels, dom)
            return
        s = syms[k]
        for i in range(len(levels)):
            levels[i].append(s)
            yield from rec(levels, k + 1)
            levels[i].pop()
        for j in range(len(levels) + 1):
            levels.insert(j, [s])
            yield from rec(levels, k + 1)
            levels.pop(j)

    yield from rec(base, 0)


class World:
    """One order type of the integer symbols/constants (per group) plus one assignment of the boolean symbols."""

    def __init__(self, groups, bools):
        self.groups = groups          # [(levels, witness)]
        self.bools = dict(bools)
        self._lvl = []
        self._gof = {}
        self.values = {}
        for gi, (levels, wit) in enumerate(groups):
            m = {}
            for i, lv in enumerate(levels):
                for t in lv:
                    m[t] = i
                    if not isinstance(t, int):
                        self._gof[t] = gi
                        self.values[t] = wit[t]
            self._lvl.append(m)
        for k, v in self.bools.items():
            self.values[k] = v

    def _sign(self, x, y):
        xi, yi = isinstance(x, int) and not isinstance(x, bool), isinstance(y, int) and not isinstance(y, bool)
        if xi and yi:
            return (x > y) - (x < y)
        gx = None if xi else self._gof.get(x)
        gy = None if yi else self._gof.get(y)
        for t, g, isint in ((x, gx, xi), (y, gy, yi)):
            if not isint and g is None:
                raise Inexact('symbol %r is not part of the enumerated world' % (t,))
        if gx is not None and gy is not None and gx != gy:
            raise Inexact('symbols %r and %r belong to independent groups but are compared' % (x, y))
        g = gx if gx is not None else gy
        m = self._lvl[g]
        for t in (x, y):
            if t not in m:
                raise Inexact('constant %r is compared with a symbol but is not part of the enumerated ordering' % (t,))
        return (m[x] > m[y]) - (m[x] < m[y])

    def cmp(self, op, x, y):
        s = self._sign(x, y)
        if op == '<':
            return s < 0
        if op == '<=':
            return s <= 0
        if op == '>':
            return s > 0
        if op == '>=':
            return s >= 0
        if op == '==':
            return s == 0
        if op == '!=':
            return s != 0
        raise Inexact('not a comparison operator: %r' % op)

    def lt(self, x, y):
        return self._sign(x, y) < 0

    def le(self, x, y):
        return self._sign(x, y) <= 0

    def gt(self, x, y):
        return self._sign(x, y) > 0

    def ge(self, x, y):
        return self._sign(x, y) >= 0

    def eq(self, x, y):
        return self._sign(x, y) == 0

    def ne(self, x, y):
        return self._sign(x, y) != 0

    def b(self, name):
        if name not in self.bools:
            raise Inexact('boolean symbol %r is not part of the enumerated world' % (name,))
        return self.bools[name]

    def describe(self):
        """e.g. 'b < a = 0 < c; flag=true'  (order type) -- values() gives a concrete instance."""
        parts = []
        for levels, _w in self.groups:
            parts.append(' < '.join(' = '.join(str(t) for t in sorted(lv, key=str)) for lv in levels))
        for k in sorted(self.bools):
            parts.append('%s=%s' % (k, 'true' if self.bools[k] else 'false'))
        return '; '.join(p for p in parts if p)

    def witness(self):
        return ', '.join('%s=%s' % (k, ('true' if v else 'false') if isinstance(v, bool) else v)
                         for k, v in sorted(self.values.items(), key=lambda kv: str(kv[0])))


def worlds(int_syms, consts=(), bool_syms=(), groups=None):
    """Iterate every World over the integer symbols {name: (lo, hi)}, the integer constants and the boolean symbols.
    groups: optional [(iterable of symbol names, iterable of constants)] partition of int_syms; default one group."""
    if groups is None:
        groups = [(list(int_syms), list(consts))]
    seen = set()
    per_group = []
    for names, cs in groups:
        names = list(names)
        for n in names:
            if n in seen or n not in int_syms:
                raise ValueError('bad symbol grouping: %r' % (n,))
            seen.add(n)
        per_group.append(list(_orderings({n: int_syms[n] for n in names}, cs)))
    if seen != set(int_syms):
        raise ValueError('symbol grouping does not cover %r' % (sorted(set(int_syms) - seen),))
    bool_syms = sorted(bool_syms)
    for combo in product(*per_group):
        for bits in product((False, True), repeat=len(bool_syms)):
            yield World(list(combo), zip(bool_syms, bits))


def count_order_types(nsyms, consts=(0,), domain=INT64):
    """Number of realisable order types of n symbols of one domain and the constants (13 for 2 + {0}, 75 for 3 + {0})."""
    return sum(1 for _ in _orderings({'s%d' % i: domain for i in range(nsyms)}, consts))


# ====================================================================================================== IR / compilation
#
# expressions : ('const', int) ('bool', b) ('sym', name) ('bsym', name) ('load', loc, kind) ('cmp', op, e, e)
#               ('not', e) ('and', e, e) ('or', e, e) ('ite', c, a, b) ('tobool', e) ('call', Program, [e...])
# statements  : ('store', loc, e) ('return', e|None) ('throw', type)
# loc         : ('field', name) | ('local', decl id)
# kind        : 'i' | 'b'

class Program:
    def __init__(self, fn):
        self.fn = fn
        self.name = fn.q
        self.params = []       # [(name, 'i'|'b'|'obj', domain|None)]
        self.blocks = {}       # bid -> {'stmts': [...], 'br': expr|None, 'succs': [...]}
        self.entry = fn.entry
        self.exit = fn.exit
        self.int_syms = {}     # name -> (lo, hi)   parameters, atoms, this-fields read
        self.bool_syms = set()
        self.consts = set()
        self.fields_written = set()
        self.throws = False
        self.callees = []
        self.ret_bool = fn.retC == 'bool'

    def symbols(self):
        return dict(self.int_syms), set(self.bool_syms), set(self.consts)

    def int_params(self):
        return [p[0] for p in self.params if p[1] == 'i']

    def __repr__(self):
        return '<ordertype.Program %s ints=%s bools=%s consts=%s>' % (self.name, sorted(self.int_syms), sorted(self.bool_syms),
                                                                     sorted(self.consts))


_VALUE_PRESERVING_CASTS = ('LValueToRValue', 'NoOp', 'ConstructorConversion', 'UserDefinedConversion')


def _local_init(fn, d):
    """initialiser expression id of a local that is declared once and never re-assigned / incremented, else None"""
    inits = []
    for n in fn.all_nodes():
        k = n.get('k')
        if k == 'decl':
            for v in n['vars']:
                if v['d'] == d and isinstance(v.get('init'), int):
                    inits.append(v['init'])
        elif k == 'assign' or (k == 'unop' and n.get('op') in ('++', '--')):
            l = fn.sn(n['lhs'] if k == 'assign' else n['sub'])
            if l is not None and l.get('k') == 'var' and l.get('d') == d:
                return None
    return inits[0] if len(inits) == 1 else None


class _Compiler:
    def __init__(self, fb, fn, atoms, as_callee, depth, cache, same_this=False):
        self.fb, self.fn, self.atoms, self.as_callee, self.depth, self.cache = fb, fn, atoms, as_callee, depth, cache
        self.same_this = same_this      # callee invoked on the caller's own object: its fields are the caller's fields
        self.inline_locals = False      # compile_expression: a never re-assigned local stands for its initialiser
        self.p = Program(fn)
        self.param_by_d = {}

    def fail(self, nid, why, kind='shape'):
        fn = self.fn
        txt = fn.expr(nid) if nid is not None else ''
        raise Inexact('%s: %s%s' % (fn.q, why, (': `%s`' % txt[:100]) if txt else ''), fn.loc(nid) if nid is not None else fn.site, kind)

    # ---------------------------------------------------------------- symbols
    def _add_sym(self, name, dom, nid):
        if dom == 'bool':
            self.p.bool_syms.add(name)
            return ('bsym', name)
        if dom is None:
            self.fail(nid, 'value of non-integer type used as an input')
        old = self.p.int_syms.get(name)
        if old is not None and old != dom:
            self.fail(nid, 'symbol %s used with two different value ranges' % name)
        self.p.int_syms[name] = dom
        return ('sym', name)

    def _const(self, v, is_bool):
        if is_bool:
            return ('bool', v != 0)
        self.p.consts.add(v)
        return ('const', v)

    # ---------------------------------------------------------------- expressions
    def expr(self, nid):
        fn = self.fn
        if nid is None or nid not in fn.nodes:
            self.fail(None, 'missing expression')
        n = fn.nodes[nid]
        k = n.get('k')
        if k == 'wrap':
            if 'sub' not in n:
                self.fail(nid, 'empty wrapper expression')
            return self.expr(n['sub'])
        t = n.get('t', '')
        # anything clang folded to an integer constant (literals, enumerators, constexpr, constant arithmetic)
        if 'cv' in n and not n.get('float') and 'str' not in n:
            try:
                v = int(n['cv'])
            except ValueError:
                self.fail(nid, 'unparsable constant')
            return self._const(v, _plain_type(t) == 'bool')
        if self.atoms is not None and k in ('call', 'member', 'var', 'index', 'unop', 'cast'):
            a = self.atoms(fn, n)
            if a is not None:
                name, dom = (a, None) if isinstance(a, str) else a
                if dom is None:
                    dom = domain_of_type(t, by_value_only=True)
                return self._add_sym(name, dom, nid)
        if k == 'icast' or k == 'cast':
            ck = n.get('ck')
            if ck in _VALUE_PRESERVING_CASTS:
                # for user-defined conversions the operand is the call of the conversion function, which must then be a
                # declared atom or a comparison-only helper itself
                return self.expr(n['sub'])
            if ck == 'IntegralCast':
                src = fn.nodes.get(n['sub'], {}).get('t', '')
                ds, dt = domain_of_type(src, True), domain_of_type(t, True)
                if ds == 'bool' and dt not in (None, 'bool'):
                    return self.expr(n['sub'])      # bool -> 0/1: handled at evaluation (bool compared as 0/1)
                if ds in (None, 'bool') or dt in (None, 'bool'):
                    # enum <-> integer conversions etc.: the rule must supply atoms with explicit ranges for those
                    self.fail(nid, 'integral conversion between types of unknown range (%s -> %s)' % (src, t))
                if not (dt[0] <= ds[0] and ds[1] <= dt[1]):
                    self.fail(nid, 'conversion %s -> %s may change the value (abstraction would be inexact)' % (src, t), 'arithmetic')
                return self.expr(n['sub'])
            if ck == 'IntegralToBoolean':
                return ('tobool', self.expr(n['sub']))
            self.fail(nid, 'conversion of kind %s' % ck)
        if k == 'lit':
            self.fail(nid, 'non-integer literal')
        if k == 'var':
            vk = n.get('vk')
            if vk == 'param':
                ent = self.param_by_d.get(n['d'])
                if ent is None:
                    self.fail(nid, 'reference to a parameter of an enclosing function')
                name, kind, _dom = ent
                if kind == 'i':
                    return ('sym', name)
                if kind == 'b':
                    return ('bsym', name)
                self.fail(nid, 'object parameter used other than through a declared atom')
            if vk == 'local':
                if self.inline_locals:
                    init = _local_init(fn, n['d'])
                    if init is None:
                        self.fail(nid, 'local that is re-assigned or has no initialiser, in an isolated expression')
                    return self.expr(init)
                return ('load', ('local', n['d']), 'b' if _plain_type(t) == 'bool' else 'i')
            self.fail(nid, 'reference to %s %s without a constant value' % (vk, n.get('q', n.get('name'))))
        if k == 'member':
            if n.get('field') and fn.is_this_member(nid):
                if self.as_callee and not self.same_this:
                    self.fail(nid, 'helper reads a member of another object')
                dom = domain_of_type(t, True)
                if dom is None:
                    self.fail(nid, 'member of non-integer type read')
                self._add_sym('this.' + n['name'], dom, nid)
                return ('load', ('field', n['name']), 'b' if dom == 'bool' else 'i')
            self.fail(nid, 'member access that is not a declared atom')
        if k == 'binop':
            op = n['op']
            if op in CMP_OPS:
                return ('cmp', op, self.expr(n['lhs']), self.expr(n['rhs']))
            if op == '&&':
                return ('and', self.expr(n['lhs']), self.expr(n['rhs']))
            if op == '||':
                return ('or', self.expr(n['lhs']), self.expr(n['rhs']))
            self.fail(nid, 'arithmetic/bit operator %s on an input (not comparison-only)' % op, 'arithmetic')
        if k == 'unop':
            if n['op'] == '!':
                return ('not', self.expr(n['sub']))
            self.fail(nid, 'unary operator %s on an input (not comparison-only)' % n['op'], 'arithmetic')
        if k == 'condop':
            return ('ite', self.expr(n['cond']), self.expr(n['then']), self.expr(n['else']))
        if k == 'construct':
            if (n.get('elidable') or n.get('copymove')) and len(n.get('args', [])) == 1:
                return self.expr(n['args'][0])
            self.fail(nid, 'object construction')
        if k == 'call':
            return self.call(nid, n)
        if k == 'assign':
            self.fail(nid, 'assignment used as a value')
        self.fail(nid, 'expression of kind %s' % k)

    def _helper(self, nid, g, same_this, atoms):
        """compile (cached) the body of callee g as a helper"""
        key = (g.usr, g.full, same_this, atoms is not None)
        if key in self.cache:
            sub = self.cache[key]
            if sub is None:
                self.fail(nid, 'recursive helper')
            return sub
        self.cache[key] = None
        try:
            sub = _Compiler(self.fb, g, atoms, True, self.depth + 1, self.cache, same_this).compile()
        except Inexact as e:
            del self.cache[key]
            fn = self.fn
            raise Inexact('%s: in helper called here (`%s`): %s' % (fn.q, fn.expr(nid)[:80], e), e.site or fn.loc(nid), e.kind)
        self.cache[key] = sub
        return sub

    def _merge(self, sub):
        p = self.p
        p.consts |= sub.consts
        p.throws = p.throws or sub.throws
        p.fields_written |= sub.fields_written
        for name, dom in sub.int_syms.items():
            old = p.int_syms.get(name)
            if old is not None and old != dom:
                raise Inexact('%s: symbol %s used with two different value ranges' % (self.fn.q, name), self.fn.site)
            p.int_syms[name] = dom
        p.bool_syms |= sub.bool_syms
        p.callees.append(sub)

    def _functor(self, nid, anid):
        """Program of the binary predicate passed as argument anid (functor object or capture-less lambda)."""
        fn = self.fn
        a = fn.sn(anid)
        hops = 0
        while a is not None and a.get('k') in ('construct', 'cast') and hops < 4:
            hops += 1
            if a.get('k') == 'construct' and len(a.get('args', [])) == 1:
                a = fn.sn(a['args'][0])
            elif a.get('k') == 'cast':
                a = fn.sn(a['sub'])
            else:
                break
        g = None
        if a is not None and a.get('k') == 'lambda':
            if a.get('captures'):
                self.fail(nid, 'comparator lambda with captures')
            g = self.fb.lambda_fn(fn, a)
        else:
            t = _plain_type((fn.sn(anid) or {}).get('t', ''))
            cands = [f for f in self.fb.fns(t + '::operator()') if len(f.params) == 2 and f.has_cfg]
            g = cands[0] if cands else None
        if g is None:
            self.fail(nid, 'comparator argument whose call operator is not in the fact base')
        sub = self._helper(nid, g, False, None)
        if sub.fields_written or sub.throws or any(k == 'obj' for (_n, k, _d) in sub.params):
            self.fail(nid, 'comparator %s is not a pure predicate over two integers' % g.q)
        self._merge(sub)
        return sub

    def _builtin(self, nid, n):
        """std::min / std::max / std::clamp over integers are comparison-only:  max(a, b) == (a < b) ? b : a  etc."""
        q = n.get('q')
        args = [a for a in n.get('args', []) if a is not None]
        if q not in ('std::max', 'std::min', 'std::clamp') or n.get('recv') is not None:
            return None
        if domain_of_type(n.get('t', ''), True) in (None, 'bool'):
            self.fail(nid, '%s over a non-integer type' % q)
        want = 3 if q == 'std::clamp' else 2
        if len(args) not in (want, want + 1):
            self.fail(nid, '%s with %d arguments (initializer-list form is not modelled)' % (q, len(args)))
        vals = [self.expr(a) for a in args[:want]]
        if len(args) == want + 1:
            sub = self._functor(nid, args[want])
            less = lambda x, y: ('call', sub, [x, y], False)
        else:
            less = lambda x, y: ('cmp', '<', x, y)
        if q == 'std::max':
            a, b = vals
            return ('ite', less(a, b), b, a)
        if q == 'std::min':
            a, b = vals
            return ('ite', less(b, a), b, a)
        v, lo, hi = vals
        return ('ite', less(v, lo), lo, ('ite', less(hi, v), hi, v))

    def call(self, nid, n):
        fn = self.fn
        if 'u' not in n:
            self.fail(nid, 'unresolved call')
        if self.depth >= 6:
            self.fail(nid, 'helper call nesting too deep')
        b = self._builtin(nid, n)
        if b is not None:
            return b
        cands = [g for g in self.fb.by_usr.get(n['u'], []) if g.has_cfg]
        if not cands:
            self.fail(nid, 'call to %s, a library function that computes with its arguments (no comparison-only body; e.g. abs or '
                      'arithmetic helpers make the abstraction inexact)' % n.get('q'), 'arithmetic')
        g = cands[0]
        # receiver: none (free/static function), a stateless temporary functor (`id_order{}(a, b)`), or this (a private helper of
        # the same object, whose field accesses are then the caller's)
        same_this = False
        if n.get('recv') is not None:
            r = fn.sn(n['recv'])
            if r is not None and r.get('k') == 'this' and (not self.as_callee or self.same_this):
                same_this = True
        args = list(n.get('args', []))
        if len(args) != len(g.params):
            self.fail(nid, 'argument count mismatch for %s' % g.q)
        # atoms stay meaningful inside the helper only if it receives the caller's object parameters in the same positions
        atoms = self.atoms
        if atoms is not None:
            for i, prm in enumerate(g.params):
                if domain_of_type(prm['tC']) is None:
                    rv = fn.root_var(args[i]) if args[i] is not None else None
                    same = (rv is not None and rv[0] == 'var' and i < len(fn.params) and fn.params[i]['d'] == rv[1])
                    if not same:
                        atoms = None
                        break
        sub = self._helper(nid, g, same_this, atoms)
        if sub.fields_written and not same_this:
            self.fail(nid, 'helper %s writes members of another object' % g.q)
        cargs = []
        for a, (pn, kind, _d) in zip(args, sub.params):
            cargs.append(('opaque',) if kind == 'obj' else self.expr(a))
        self._merge(sub)
        return ('call', sub, cargs, same_this)

    # ---------------------------------------------------------------- statements
    def stmt(self, nid):
        fn = self.fn
        n = fn.nodes[nid]
        k = n.get('k')
        while k == 'wrap' and 'sub' in n:
            nid = n['sub']
            n = fn.nodes[nid]
            k = n.get('k')
        if k == 'return':
            return ('return', self.expr(n['sub']) if 'sub' in n else None)
        if k == 'throw':
            self.p.throws = True
            return ('throw', n.get('tt'))
        if k == 'decl':
            out = []
            for v in n['vars']:
                dom = domain_of_type(v['tC'], True)
                if dom is None:
                    self.fail(nid, 'local %s of non-integer type %s' % (v['name'], v['tC']))
                if not isinstance(v.get('init'), int):
                    self.fail(nid, 'local %s without initialiser' % v['name'])
                out.append(('store', ('local', v['d']), self.expr(v['init'])))
            return ('seq', out)
        if k == 'assign':
            if n['op'] != '=':
                self.fail(nid, 'compound assignment %s (arithmetic)' % n['op'], 'arithmetic')
            l = fn.sn(n['lhs'])
            if l is not None and l.get('k') == 'var' and l.get('vk') == 'local':
                return ('store', ('local', l['d']), self.expr(n['rhs']))
            if l is not None and l.get('k') == 'member' and l.get('field') and fn.is_this_member(l['id']) and (not self.as_callee or self.same_this):
                if domain_of_type(l.get('t'), True) is None:
                    self.fail(nid, 'assignment to a member of non-integer type')
                self.p.fields_written.add(l['name'])
                return ('store', ('field', l['name']), self.expr(n['rhs']))
            self.fail(nid, 'assignment to something that is not a local or an integer member of this')
        if k == 'autodtor':
            return None
        if k == 'call' and 'u' in n and any(g.has_cfg for g in self.fb.by_usr.get(n['u'], [])):
            return ('expr', self.call(nid, n))       # helper called for its effects (may throw / update this)
        if k in ('call', 'construct', 'new', 'delete', 'unop'):
            if k == 'unop' and n['op'] == '!':
                self.expr(nid)
                return None
            if k == 'unop' and n['op'] in ('++', '--'):
                self.fail(nid, 'increment/decrement (arithmetic)', 'arithmetic')
            self.fail(nid, 'statement with unknown effect')
        # value-less expression element (callee reference of a call, `(void)x;`, ...): harmless iff nothing inside it
        # can have an effect
        for x in fn.subtree(nid):
            m = fn.nodes[x]
            mk = m.get('k')
            if mk in ('assign', 'call', 'construct', 'new', 'delete', 'throw', 'lambda') or (mk == 'unop' and m.get('op') in ('++', '--')):
                self.fail(nid, 'expression statement with a possible effect')
        return None

    def _context(self, nid):
        fn = self.fn
        n = fn.sn(nid, casts=False) or {}
        k = n.get('k')
        if k == 'return':
            return ('return',)
        if k == 'assign':
            l = fn.sn(n['lhs'])
            if l is not None and l.get('k') == 'member':
                return ('store', l.get('name'))
            if l is not None and l.get('k') == 'var':
                return ('local', l.get('name'))
        if k == 'decl':
            return ('local', ', '.join(v['name'] for v in n['vars']))
        return ('stmt',)

    def compile(self):
        fn, p = self.fn, self.p
        if not fn.has_cfg:
            raise Inexact('%s: no CFG' % fn.q, fn.site)
        if fn.tries:
            raise Inexact('%s: try/catch is not modelled' % fn.q, fn.site)
        for i, prm in enumerate(fn.params):
            name = prm['name'] or 'arg%d' % i
            dom = domain_of_type(prm['tC'])
            kind = 'b' if dom == 'bool' else ('i' if dom is not None else 'obj')
            p.params.append((name, kind, dom))
            self.param_by_d[prm['d']] = (('@' + name) if self.as_callee else name, kind, dom)
            if kind == 'i' and not self.as_callee:
                p.int_syms[name] = dom
            elif kind == 'b' and not self.as_callee:
                p.bool_syms.add(name)
        pm = fn.parent_map()
        for bid in sorted(fn.reachable_blocks()):
            b = fn.blocks[bid]
            stmts = []
            for e in b['elems']:
                if e in pm:
                    continue      # sub-expression of a later element / terminator: evaluated there
                try:
                    s = self.stmt(e)
                except Inexact as ex:
                    if ex.context is None:
                        ex.context = self._context(e)
                    raise
                if s is None:
                    continue
                if s[0] == 'seq':
                    stmts.extend(s[1])
                else:
                    stmts.append(s)
            succs = list(b['succs'])
            br = None
            if 'cond' in b and len(succs) == 2:
                if b.get('termcls') == 'SwitchStmt':
                    self.fail(b['cond'], 'switch statement')
                try:
                    br = self.expr(b['cond'])
                except Inexact as ex:
                    if ex.context is None:
                        ex.context = ('branch',)
                    raise
            elif len(succs) > 1:
                self.fail(b.get('term'), 'multi-way branch (%s)' % b.get('termcls'))
            p.blocks[bid] = {'stmts': stmts, 'br': br, 'succs': succs}
        return p


def compile_function(fb, fn, atoms=None):
    """Prove `fn` comparison-only and translate it (raises Inexact otherwise).  See the module docstring."""
    return _Compiler(fb, fn, atoms, False, 0, {}).compile()


def compile_expression(fb, fn, nid, atoms=None):
    """Same proof obligation for ONE expression inside `fn` (e.g. a tuple component, a guard condition): the result is a
    Program that returns the value of that expression; its inputs are fn's parameters / the atoms it mentions.  Named locals
    that are never re-assigned are read as their initialisers (`const auto n = size(); if (n < 2)` is `size() < 2`)."""
    c = _Compiler(fb, fn, atoms, False, 0, {})
    c.inline_locals = True
    p = c.p
    for i, prm in enumerate(fn.params):
        name = prm['name'] or 'arg%d' % i
        dom = domain_of_type(prm['tC'])
        kind = 'b' if dom == 'bool' else ('i' if dom is not None else 'obj')
        p.params.append((name, kind, dom))
        c.param_by_d[prm['d']] = (name, kind, dom)
    e = c.expr(nid)
    # only the parameters the expression really mentions are inputs
    used_i, used_b = set(), set()

    def walk(x):
        if isinstance(x, tuple):
            if x and x[0] == 'sym':
                used_i.add(x[1])
            elif x and x[0] == 'bsym':
                used_b.add(x[1])
            elif x and x[0] == 'load' and x[1][0] == 'field':
                (used_b if x[2] == 'b' else used_i).add('this.' + x[1][1])
            for y in x:
                if isinstance(y, (tuple, list)):
                    walk(y)
        elif isinstance(x, list):
            for y in x:
                walk(y)
    walk(e)
    for name, kind, dom in p.params:
        if kind == 'i' and name in used_i:
            p.int_syms[name] = dom
        elif kind == 'b' and name in used_b:
            p.bool_syms.add(name)
    p.name = '%s:`%s`' % (fn.q, fn.expr(nid)[:60])
    p.entry, p.exit = 0, -1
    p.blocks = {0: {'stmts': [('return', e)], 'br': None, 'succs': []}}
    p.ret_bool = _plain_type(fn.nodes[nid].get('t', '')) == 'bool'
    return p


# ====================================================================================================== abstract execution

class Outcome:
    def __init__(self, kind, value, store, path, throw_type=None):
        self.kind, self.value, self.store, self.path, self.throw_type = kind, value, store, path, throw_type

    @property
    def returned_true(self):
        return self.kind == 'return' and self.value == ('b', True)

    def as_bool(self):
        if self.kind != 'return' or self.value is None or self.value[0] != 'b':
            raise Inexact('outcome is not a boolean return: %r' % (self,))
        return self.value[1]

    def __repr__(self):
        return '<Outcome %s %r store=%r>' % (self.kind, self.value, self.store)


def _to_int(v):
    if v[0] not in ('i', 'b'):
        raise Inexact('a value-less (void) expression is used as a value')
    return ('i', int(v[1])) if v[0] == 'b' else v


def _cmp(world, op, a, b):
    a, b = _to_int(a), _to_int(b)      # bool operands compare as 0 / 1
    return world.cmp(op, a[1], b[1])


def _truth(world, v):
    if v[0] == 'b':
        return v[1]
    if v[0] != 'i':
        raise Inexact('a value-less (void) expression is used as a condition')
    return world.cmp('!=', v[1], 0)


class _Frame:
    __slots__ = ('world', 'binding', 'mem', 'fields', 'depth')


class _Thrown(Exception):
    def __init__(self, tt):
        Exception.__init__(self, tt)
        self.tt = tt


def _sym_value(fr, name, kind):
    t = fr.binding.get(name, name)
    if isinstance(t, tuple):
        return t
    if kind == 'b':
        if isinstance(t, bool):
            return ('b', t)
        return ('b', fr.world.b(t))
    if isinstance(t, bool):
        return ('b', t)
    return ('i', t)


def _eval(e, fr):
    tag = e[0]
    if tag == 'const':
        return ('i', e[1])
    if tag == 'bool':
        return ('b', e[1])
    if tag == 'sym':
        return _sym_value(fr, e[1], 'i')
    if tag == 'bsym':
        return _sym_value(fr, e[1], 'b')
    if tag == 'load':
        loc = e[1]
        if loc[0] == 'field':
            if loc[1] in fr.fields:
                return fr.fields[loc[1]]
            return _sym_value(fr, 'this.' + loc[1], e[2])
        if loc in fr.mem:
            return fr.mem[loc]
        raise Inexact('read of a local before its initialisation')
    if tag == 'cmp':
        return ('b', _cmp(fr.world, e[1], _eval(e[2], fr), _eval(e[3], fr)))
    if tag == 'tobool':
        return ('b', _truth(fr.world, _eval(e[1], fr)))
    if tag == 'not':
        return ('b', not _truth(fr.world, _eval(e[1], fr)))
    if tag == 'and':
        return ('b', _truth(fr.world, _eval(e[1], fr)) and _truth(fr.world, _eval(e[2], fr)))
    if tag == 'or':
        return ('b', _truth(fr.world, _eval(e[1], fr)) or _truth(fr.world, _eval(e[2], fr)))
    if tag == 'ite':
        return _eval(e[2], fr) if _truth(fr.world, _eval(e[1], fr)) else _eval(e[3], fr)
    if tag == 'call':
        sub, args, same_this = e[1], e[2], e[3]
        binding = dict(fr.binding)          # renamings of atoms / field symbols stay valid inside the helper
        for (pn, kind, _d), a in zip(sub.params, args):
            if kind == 'obj':
                continue
            v = _eval(a, fr)
            if kind == 'b' and v[0] == 'i':
                v = ('b', _truth(fr.world, v))
            binding['@' + pn] = v             # helper parameters live in their own name space
        out = _run(sub, fr.world, binding, fr.depth + 1, fr.fields if same_this else {})
        if out.kind == 'return' and out.value is not None:
            return out.value
        return ('void',)
    raise Inexact('unknown IR node %r' % (tag,))


def _run(prog, world, binding, depth, fields=None, max_steps=4096):
    """depth 0: returns an Outcome for every way of leaving (return / throw / end); helpers (depth > 0) let a throw propagate
    as _Thrown to the outermost activation."""
    if depth == 0:
        fields = {}
        try:
            return _run_body(prog, world, binding, depth, fields, max_steps)
        except _Thrown as t:
            return Outcome('throw', None, dict(fields), [], t.tt)
    return _run_body(prog, world, binding, depth, fields, max_steps)


def _run_body(prog, world, binding, depth, fields, max_steps):
    fr = _Frame()
    fr.world, fr.binding, fr.mem, fr.fields, fr.depth = world, binding, {}, fields, depth
    if depth > 12:
        raise Inexact('helper recursion too deep')
    bid = prog.entry
    path = []
    steps = 0

    def store_out():
        return dict(fr.fields)

    while True:
        steps += 1
        if steps > max_steps:
            raise Inexact('%s: step bound exceeded (loop not decided by the order type)' % prog.name)
        blk = prog.blocks.get(bid)
        if blk is None:
            raise Inexact('%s: control reaches block %s outside the compiled CFG' % (prog.name, bid))
        path.append(bid)
        for s in blk['stmts']:
            if s[0] == 'store':
                v = _eval(s[2], fr)
                if v[0] not in ('i', 'b'):
                    raise Inexact('%s: a value-less expression is stored' % prog.name)
                if s[1][0] == 'field':
                    fr.fields[s[1][1]] = v
                else:
                    fr.mem[s[1]] = v
            elif s[0] == 'expr':
                _eval(s[1], fr)
            elif s[0] == 'return':
                v = _eval(s[1], fr) if s[1] is not None else None
                if v is not None and prog.ret_bool and v[0] == 'i':
                    v = ('b', _truth(world, v))
                return Outcome('return', v, store_out(), path)
            elif s[0] == 'throw':
                if depth > 0:
                    raise _Thrown(s[1])
                return Outcome('throw', None, store_out(), path, s[1])
        if bid == prog.exit or not blk['succs']:
            return Outcome('end', None, store_out(), path)
        if blk['br'] is not None:
            nxt = blk['succs'][0 if _truth(world, _eval(blk['br'], fr)) else 1]
            if nxt is None:
                raise Inexact('%s: a branch edge that clang pruned as infeasible is taken' % prog.name)
        else:
            nxt = blk['succs'][0]
        bid = nxt


def run(prog, world, binding=None):
    """Abstractly execute `prog` in `world`.  binding: {symbol name: other symbol name | int | bool} renames inputs."""
    return _run(prog, world, dict(binding or {}), 0)


# ====================================================================================================== decisions

class Counterexample:
    def __init__(self, what, world, detail=''):
        self.what, self.world, self.detail = what, world, detail

    def __str__(self):
        return '%s fails for order type [%s], e.g. %s%s' % (self.what, self.world.describe(), self.world.witness(),
                                                          ('; ' + self.detail) if self.detail else '')


def program_worlds(prog, extra_ints=None, extra_consts=(), extra_bools=(), groups=None):
    ints, bools, consts = prog.symbols()
    ints.update(extra_ints or {})
    return worlds(ints, set(consts) | set(extra_consts), set(bools) | set(extra_bools), groups)


def check_forall(prog, predicate, extra_ints=None, extra_consts=(), extra_bools=(), groups=None, binding=None, first_only=True):
    """predicate(world, outcome) -> True, or a message / False describing the failure."""
    out = []
    for w in program_worlds(prog, extra_ints, extra_consts, extra_bools, groups):
        o = run(prog, w, binding)
        r = predicate(w, o)
        if r is not True:
            out.append(Counterexample(r if isinstance(r, str) else 'predicate', w))
            if first_only:
                break
    return out


def _binary_params(prog, params):
    if params is None:
        params = prog.int_params()
    if len(params) != 2:
        raise Inexact('%s: expected exactly two integer parameters, found %r' % (prog.name, params))
    d0, d1 = prog.int_syms[params[0]], prog.int_syms[params[1]]
    if d0 != d1:
        raise Inexact('%s: the two parameters have different value ranges' % prog.name)
    extra = set(prog.int_syms) - set(params)
    if extra or prog.bool_syms:
        raise Inexact('%s: comparator depends on further inputs %r' % (prog.name, sorted(extra | prog.bool_syms)))
    return params, d0


def check_strict_weak_order(prog, params=None, total=False):
    """Axioms of a strict weak order for the binary predicate prog(x, y) over all order types of {a, b, c} u consts.
    total=True additionally requires  !(a<b) && !(b<a)  <=>  a == b  (a strict TOTAL order on values)."""
    (px, py), dom = _binary_params(prog, params)
    out = {}

    def f(w, x, y):
        return run(prog, w, {px: x, py: y}).as_bool()

    for w in worlds({'a': dom, 'b': dom, 'c': dom}, prog.consts):
        ab, ba, bc, cb, ac, ca = f(w, 'a', 'b'), f(w, 'b', 'a'), f(w, 'b', 'c'), f(w, 'c', 'b'), f(w, 'a', 'c'), f(w, 'c', 'a')
        checks = [
            ('irreflexive', not f(w, 'a', 'a'), 'cmp(a,a) is true'),
            ('asymmetric', not (ab and ba), 'cmp(a,b) and cmp(b,a) are both true'),
            ('transitive', not (ab and bc) or ac, 'cmp(a,b) and cmp(b,c) but not cmp(a,c)'),
            ('incomparability-transitive', not (not ab and not ba and not bc and not cb) or (not ac and not ca),
             'a~b and b~c are incomparable but a, c are ordered'),
        ]
        if total:
            checks.append(('incomparable-iff-equal', (not ab and not ba) == w.eq('a', 'b'),
                           'a, b are %s but cmp(a,b)=%s, cmp(b,a)=%s' % ('equal' if w.eq('a', 'b') else 'different', ab, ba)))
        for name, ok, why in checks:
            if not ok and name not in out:
                out[name] = Counterexample(name, w, why)
    return out  # {axiom: Counterexample}


SWO_AXIOMS = ('irreflexive', 'asymmetric', 'transitive', 'incomparability-transitive')


def check_equivalent(prog, reference, params=None, binding=None, extra_ints=None, extra_consts=(), groups=None, first_only=True):
    """prog's boolean result equals reference(world, *param terms) in every world.  The reference may inspect its
    arguments only through the World interface (lt/le/gt/ge/eq/ne/cmp/b)."""
    if params is None:
        params = [p[0] for p in prog.params if p[1] in ('i', 'b')]
    out = []
    for w in program_worlds(prog, extra_ints, extra_consts, (), groups):
        o = run(prog, w, binding)
        got = o.as_bool()
        want = bool(reference(w, *[(binding or {}).get(p, p) for p in params]))
        if got != want:
            out.append(Counterexample('equivalence with the reference', w, 'code returns %s, reference says %s'
                                      % ('true' if got else 'false', 'true' if want else 'false')))
            if first_only:
                break
    return out


def selfcheck():
    """Sanity of the enumeration itself (Fubini numbers; integer gaps; type bounds).  Raises AssertionError."""
    assert count_order_types(1) == 3 and count_order_types(2) == 13 and count_order_types(3) == 75
    assert count_order_types(2, ()) == 3 and count_order_types(3, ()) == 13
    assert count_order_types(1, (0, 1)) == 4          # x<0, x=0, x=1, x>1 : nothing strictly between 0 and 1
    assert count_order_types(1, (0,), UINT64) == 2    # unsigned: never below 0
    assert count_order_types(1, (-2 ** 63,), INT64) == 2
    return True
