"""IVAL -- interval abstract interpretation of one function body (helper engine of C13).

Nothing is executed: the CFG of a function is interpreted over the abstract domain "integer interval per storage
location", with
  * exact (unbounded, python int) interval arithmetic checked against the range of the C++ type of every
    arithmetic node (LP64) -- a result that leaves the range is an *event* (signed overflow / unsigned wrap) recorded
    at that node, after which the value is the whole range of the type (sound continuation);
  * branch refinement on comparisons of tracked locations with intervals (through value-preserving promotions);
    `c != k` with k strictly inside splits the state in two;
  * trace partitioning: states that disagree on the exact value of a live local that currently holds a single value
    (loop counters such as `max_digits`, flags such as `sign`/`negative`, a boundary test `value == limit`) or on the
    sign of a location that excludes 0 (the two halves of a NUL test) are kept apart, so a counted loop is unrolled
    abstractly and `if (c == 0) throw` after it removes the last iteration; a loop counter (stepped only by ++/--/+=c/-=c
    inside loops) known within <= SPLIT_MAX values is split into single values; more than CAP partitions at a block
    collapse; a partition at the target of a back edge that keeps growing is widened to the bounds of the type
    (termination);
  * liveness of locals (dead counters do not split states);
  * tracked locations: integer locals / parameters ('v' keys) and pure lvalue expressions over pointers and local
    records such as `*str`, `**s`, `str[5]`, `tm.tm_mon` ('e' keys, keyed by canonical text, killed when a variable
    they mention is written, when an integer is stored through a pointer, or at a call that may store to integer
    memory -- decided by a syntactic summary of the callee's body, unknown callee = may store);
  * helpers: a callee that is one `return <condition over its parameters>;` refines the arguments of `if (is_digit(c))`
    by its own condition; a callee that throws for some arguments (`check_range(x)`) is interpreted with the argument
    intervals and what holds at its normal returns is learned for the arguments (two levels deep).

Aliasing assumption (stated in the property's evidence): a character read through an input pointer is not the storage
of a local variable, of a field of a local record, or of the pointer itself.

Over-approximation only: every concrete execution (without UB before the point of interest) is covered by some
abstract state, so "no event at node n" and "operand interval inside the target range" are proofs for all inputs;
an event is a *potential* violation whose concrete witness is stated by the rule that reports it.

Hooks let a rule replace the effect of one call (e.g. assume strtoll returned its saturation value and left
`*end` == 0) and mark the state, so that what is reachable afterwards can be read off `returns` / `throws`.
"""
from collections import deque

from .errdisc import effective_cond, NO_ERROR

CAP = 4096          # partitions per block before collapsing
WIDEN_AFTER = 80    # growing joins of one partition at a loop head before widening (a x10 chain ends within 64 steps by itself)
SPLIT_MAX = 64      # widest interval of a loop counter that is split into single values
STEP_LIMIT = 200000

_R = {
    'bool': (0, 1),
    'char': (-128, 127), 'signed char': (-128, 127), 'unsigned char': (0, 255),
    'short': (-2 ** 15, 2 ** 15 - 1), 'unsigned short': (0, 2 ** 16 - 1),
    'int': (-2 ** 31, 2 ** 31 - 1), 'unsigned int': (0, 2 ** 32 - 1),
    'long': (-2 ** 63, 2 ** 63 - 1), 'unsigned long': (0, 2 ** 64 - 1),
    'long long': (-2 ** 63, 2 ** 63 - 1), 'unsigned long long': (0, 2 ** 64 - 1),
}

PURE_CALLS = set(NO_ERROR) | {'std::move', 'std::forward', 'std::array::operator[]', 'std::array::size', 'std::array::at',
                              'std::isspace', 'std::isdigit', 'std::abs', 'std::min', 'std::max'}


def type_range(t):
    """(lo, hi) of an integer type given by its canonical spelling, None for everything else."""
    if not t:
        return None
    t = t.replace('const ', '').replace('volatile ', '').strip()
    return _R.get(t)


def is_signed(t):
    r = type_range(t)
    return r is not None and r[0] < 0


def hull(a, b):
    return (min(a[0], b[0]), max(a[1], b[1]))


def inside(a, r):
    return r[0] <= a[0] and a[1] <= r[1]


def _tdiv(a, b):
    q = abs(a) // abs(b)
    return q if (a >= 0) == (b >= 0) else -q


_WRITES = {}


def writes_int_memory(fb, usr, depth=0, any_type=False):
    """May a call of the function with this USR store to an integer object (any_type: to any object) that is not one of
    its own locals?  (syntactic summary over the bodies in the fact base, callees followed three levels; unknown => True)"""
    if not usr or fb is None:
        return True
    key = (id(fb), usr, any_type)
    if key in _WRITES:
        return _WRITES[key]
    bodies = [g for g in fb.by_usr.get(usr, []) if g.has_cfg]
    if not bodies or depth > 3:
        return True
    _WRITES[key] = True     # recursion guard
    res = False
    for g in bodies:
        for n in g.all_nodes():
            k = n.get('k')
            lv = None
            if k == 'assign':
                lv = n['lhs']
            elif k == 'unop' and n.get('op') in ('++', '--'):
                lv = n['sub']
            if lv is not None:
                m = g.nodes.get(g.strip(lv, casts=False))
                if m is None:
                    res = True
                elif m.get('k') == 'var' and m.get('vk') in ('local', 'param'):
                    dt = None
                    for p in g.params:
                        if p['d'] == m['d']:
                            dt = p['tC']
                    if dt is not None and dt.rstrip().endswith('&') and (any_type or type_range(m.get('t')) is not None):
                        res = True       # (integer) reference parameter
                elif any_type or type_range(m.get('t')) is not None:
                    res = True
            elif k in ('call', 'construct'):
                q = n.get('q', '')
                if 'cv' in n or q in PURE_CALLS or q.startswith('std::numeric_limits::') or q.startswith('__builtin_') \
                        or (k == 'construct' and not n.get('args')):
                    continue
                if writes_int_memory(fb, n.get('u'), depth + 1, any_type):
                    res = True
            elif k in ('new', 'delete'):
                res = True
            if res:
                break
        if res:
            break
    _WRITES[key] = res
    return res


class _Everything:
    """`here` of a condition that is evaluated as a whole (a callee's return expression)"""

    def __contains__(self, x):
        return True


class Result:
    def __init__(self):
        self.events = {}      # node id -> (kind, math interval, operand intervals) of the first event at the node
        self.obs = {}         # node id -> hull of the values the node had (every element evaluated with an integer value)
        self.reached = set()  # element ids executed
        self.returns = []     # (node id | None for falling off the end of a void function, marks dict, value interval or None)
        self.throws = []      # (node id, marks dict)
        self.return_states = []    # (node id | None, marks, value, state) when the interpreter was created with keep=True
        self.marked_reached = {}   # element id -> set of frozenset(marks.items()) seen when it executed (only marked states)
        self.truncated = False
        self.collapsed = set()


class Interp:
    def __init__(self, fn, hooks=None, init=None, depth=0, keep=False, edge_probe=None):
        self.fn = fn
        self.hooks = hooks or {}
        self.init = init or {}
        self.edge_probe = edge_probe   # edge_probe(from block, to block, state) for every propagated abstract state
        self.depth = depth        # nesting of callee summaries
        self.keep = keep          # record the state at every normal return, never drop dead variables
        self._dead = False
        self._tables = {}
        self._pure_memo = {}
        self._param_ds = {p['d'] for p in fn.params}
        self.kr = {}          # key -> type range
        self.edeps = {}       # e-key text -> (deps frozenset, pointer_based)
        self._lv_cache = {}
        self.var_t = {}
        for p in fn.params:
            self.var_t[p['d']] = p['tC']
        for n in fn.all_nodes():
            if n.get('k') == 'decl':
                for v in n['vars']:
                    self.var_t[v['d']] = v['tC']
        self.escaped = set()
        for n in fn.all_nodes():
            k = n.get('k')
            if k == 'unop' and n.get('op') == '&':
                s = fn.sn(n['sub'])
                if s is not None and s.get('k') == 'var':
                    self.escaped.add(s['d'])
            elif k == 'lambda':
                for c in n.get('captures', ()):
                    if 'd' in c:
                        self.escaped.add(c['d'])
            elif k == 'decl':
                for v in n['vars']:
                    if v['tC'].rstrip().endswith('&') and isinstance(v.get('init'), int):
                        s = fn.sn(v['init'])
                        if s is not None and s.get('k') == 'var':
                            self.escaped.add(s['d'])
        self.live = self._liveness()
        self.counters = self._counters()
        self.res = Result()
        for nid in list(fn.nodes):      # register every expression key (dependencies, type range) up front
            self.lv_info(nid)

    # ------------------------------------------------------------------ variables
    def tracked_var(self, n):
        """('v', d) for a reference to an integer local / parameter that is not a C++ reference, else None."""
        if n.get('k') != 'var' or n.get('vk') not in ('local', 'param'):
            return None
        d = n['d']
        dt = self.var_t.get(d)
        if dt is None or dt.rstrip().endswith('&') or dt.rstrip().endswith(']'):
            return None
        r = type_range(dt)
        if r is None:
            return None
        key = ('v', d)
        self.kr.setdefault(key, r)
        return key

    def _counters(self):
        """decl ids of integer locals that are stepped inside a loop and only by ++ / -- / += c / -= c there: a state that
        knows such a counter within a small interval is split into one state per value (abstract unrolling of
        `if (n > 15) throw; for (; n > 0; --n)`)."""
        fn = self.fn
        good, bad = set(), set()
        for n in fn.all_nodes():
            k = n.get('k')
            lv = None
            step = False
            if k == 'unop' and n.get('op') in ('++', '--'):
                lv, step = n['sub'], True
            elif k == 'assign':
                lv = n['lhs']
                step = n.get('op') in ('+=', '-=') and fn.const_value(n['rhs']) is not None
                if n.get('op') == '=':
                    # c = c + k / c = c - k / c = k + c
                    r = fn.nodes.get(fn.strip(n['rhs']))
                    l = fn.nodes.get(fn.strip(lv, casts=False))
                    if r is not None and l is not None and l.get('k') == 'var' and r.get('k') == 'binop' and r.get('op') in ('+', '-'):
                        a, b = fn.nodes.get(fn.strip(r['lhs'])), fn.nodes.get(fn.strip(r['rhs']))
                        if a is not None and a.get('k') == 'var' and a.get('d') == l.get('d') and fn.const_value(r['rhs']) is not None:
                            step = True
                        elif r['op'] == '+' and b is not None and b.get('k') == 'var' and b.get('d') == l.get('d') \
                                and fn.const_value(r['lhs']) is not None:
                            step = True
            if lv is None:
                continue
            m = fn.nodes.get(fn.strip(lv, casts=False))
            if m is None or m.get('k') != 'var' or self.tracked_var(m) is None:
                continue
            if not any(fn.in_range(n['id'], L['b'], L['e']) for L in fn.loops):
                continue
            (good if step else bad).add(m['d'])
        return good - bad

    def _liveness(self):
        fn = self.fn
        use, dfn = {}, {}
        for b, blk in fn.blocks.items():
            u, d = set(), set()
            skip = set()
            for e in blk['elems']:
                n = fn.nodes[e]
                if n.get('k') == 'assign' and n.get('op') == '=':
                    l = fn.strip(n['lhs'], casts=False)
                    skip.add(l)
            for e in blk['elems']:
                n = fn.nodes[e]
                k = n.get('k')
                if k == 'var' and n.get('vk') in ('local', 'param'):
                    if e in skip:
                        continue
                    if n['d'] not in d:
                        u.add(n['d'])
                elif k == 'assign' and n.get('op') == '=':
                    l = fn.nodes.get(fn.strip(n['lhs'], casts=False))
                    if l is not None and l.get('k') == 'var':
                        d.add(l['d'])
                elif k == 'decl':
                    for v in n['vars']:
                        d.add(v['d'])
            use[b], dfn[b] = u, d
        live_in = {b: set() for b in fn.blocks}
        changed = True
        while changed:
            changed = False
            for b in fn.blocks:
                out = set()
                for s in fn.succs(b):
                    out |= live_in[s]
                new = use[b] | (out - dfn[b])
                if new != live_in[b]:
                    live_in[b] = new
                    changed = True
        return live_in

    # ------------------------------------------------------------------ lvalue expressions
    def lv_info(self, nid):
        """(text, deps, pointer_based) for a pure lvalue expression of integer type, else None."""
        if nid in self._lv_cache:
            return self._lv_cache[nid]
        fn = self.fn
        out = None
        n = fn.nodes.get(nid)
        if n is not None and n.get('k') in ('unop', 'index', 'member') and type_range(n.get('t')) is not None \
                and (n.get('k') != 'unop' or n.get('op') == '*'):
            deps = set()
            ptr = False
            ok = True
            for x in fn.subtree(nid):
                m = fn.nodes[x]
                k = m.get('k')
                if k == 'var':
                    if m.get('vk') in ('local', 'param'):
                        deps.add(m['d'])
                    elif m.get('vk') in ('enumconst',):
                        pass
                    else:
                        ptr = True   # globals / statics: may be changed by callees
                elif k == 'unop':
                    if m.get('op') == '*':
                        ptr = True
                    elif m.get('op') not in ('-', '+'):
                        ok = False
                elif k == 'index':
                    ptr = True
                elif k == 'member':
                    if m.get('arrow') or not m.get('field'):
                        ptr = True
                elif k == 'this':
                    ptr = True
                elif k == 'binop':
                    if m.get('op') not in ('+', '-'):
                        ok = False
                elif k in ('lit', 'wrap', 'icast'):
                    pass
                elif k == 'cast':
                    if m.get('ck') not in ('NoOp', 'IntegralCast', 'LValueToRValue'):
                        ok = False
                else:
                    ok = False
                if not ok:
                    break
            if ok:
                # a field of a local record is private storage (direct stores touch nothing else); once the record's
                # address is taken anywhere in the function, callees and stores through pointers may change it
                local = not ptr
                if not ptr and any(d in self.escaped for d in deps):
                    ptr = True
                text = fn.expr(nid)
                if n.get('k') == 'index':
                    # p[k] and *(p + k) (p[0] and *p) are one location
                    kc = fn.const_value(n['idx'])
                    bn = fn.nodes.get(fn.strip(n['base']))
                    if kc is not None and bn is not None and (bn.get('t') or '').rstrip().endswith('*'):
                        text = ('*%s' % fn.expr(n['base'])) if kc == 0 else ('*(%s + %d)' % (fn.expr(n['base']), kc))
                out = (text, frozenset(deps), ptr, local)
                self.edeps[text] = (frozenset(deps), ptr)
                self.kr.setdefault(('e', text), type_range(n.get('t')))
        self._lv_cache[nid] = out
        return out

    def lv_key(self, nid):
        """Storage key denoted by an lvalue node (wrappers stripped), or None."""
        fn = self.fn
        nid = fn.strip(nid, casts=False)
        n = fn.nodes.get(nid)
        if n is None:
            return None
        if n.get('k') == 'var':
            return self.tracked_var(n)
        info = self.lv_info(nid)
        if info is not None:
            return ('e', info[0])
        return None

    def const_array(self, recv):
        """values of a const std::array local whose initialiser is a list of integer constants (a lookup table), else None"""
        fn = self.fn
        r = fn.nodes.get(fn.strip(recv))
        if r is None or r.get('k') != 'var' or r.get('vk') != 'local':
            return None
        d = r['d']
        if d in self._tables:
            return self._tables[d]
        out = None
        for n in fn.all_nodes():
            if n.get('k') != 'decl':
                continue
            for v in n['vars']:
                if v['d'] == d and v['tC'].startswith('const std::array<') and isinstance(v.get('init'), int):
                    leaves = []
                    ok = True
                    stack = [v['init']]
                    while stack:
                        x = fn.nodes.get(stack.pop())
                        if x is None:
                            ok = False
                        elif x.get('k') == 'initlist':
                            stack.extend(reversed(x.get('args', [])))
                        elif x.get('k') in ('wrap', 'icast') and 'cv' not in x and 'sub' in x:
                            stack.append(x['sub'])
                        else:
                            c = fn.const_value(x['id'])
                            if c is None:
                                ok = False
                            else:
                                leaves.append(c)
                    if ok and leaves:
                        out = leaves
        self._tables[d] = out
        return out

    # ------------------------------------------------------------------ state helpers
    def get(self, st, key):
        v = st.get(key)
        return v if v is not None else self.kr.get(key)

    def kill_var(self, st, d):
        """variable d was written: forget it and every expression fact that mentions it."""
        st.pop(('v', d), None)
        for k in [k for k in st if k[0] == 'e' and d in self.edeps.get(k[1], (frozenset(), True))[0]]:
            del st[k]

    def kill_memory(self, st, calls=False):
        for k in [k for k in st if k[0] == 'e' and self.edeps.get(k[1], (frozenset(), True))[1]]:
            del st[k]
        if calls:
            for d in self.escaped:
                self.kill_var(st, d)

    def store(self, st, lv_nid, val):
        fn = self.fn
        nid = fn.strip(lv_nid, casts=False)
        n = fn.nodes.get(nid)
        if n is None:
            self.kill_memory(st)
            return
        if n.get('k') == 'var':
            if n.get('vk') in ('local', 'param'):
                self.kill_var(st, n['d'])
                key = self.tracked_var(n)
                if key is not None and val is not None:
                    st[key] = val
            else:
                self.kill_memory(st)
            return
        info = self.lv_info(nid)
        if type_range(n.get('t')) is None:
            # store to a pointer / record object: integer facts survive, except those read *through* the object
            rv = fn.root_var(nid)
            if rv is not None and rv[0] == 'var':
                d = rv[1]
                for k in [k for k in st if k[0] == 'e' and d in self.edeps.get(k[1], (frozenset(), True))[0]]:
                    del st[k]
            else:
                self.kill_memory(st)
            return
        if info is None or not info[3]:
            self.kill_memory(st)      # integer store through a pointer: may alias any pointer-based fact
        if info is not None:
            key = ('e', info[0])
            if val is not None:
                st[key] = val
            else:
                st.pop(key, None)

    @staticmethod
    def marks(st):
        return {k[1]: v[0] for k, v in st.items() if k[0] == 'x'}

    def sig(self, st):
        """partition signature: marks, exact value of locals that hold a single value, and the sign of every location whose
        interval excludes 0 (keeps the two halves of `c != 0` apart: the NUL tests of the parsers)."""
        out = []
        for k, v in st.items():
            if k[0] == 'x' or (k[0] == 'v' and v[0] == v[1]):
                out.append((k, v[0]))
            elif v[0] > 0:
                out.append((k, '+'))
            elif v[1] < 0:
                out.append((k, '-'))
        return tuple(sorted(out, key=repr))

    def join(self, a, b):
        out = {}
        for k, va in a.items():
            vb = b.get(k)
            if vb is not None:
                out[k] = hull(va, vb)
        return out

    def widen(self, old, new):
        out = {}
        for k, vo in old.items():
            vn = new.get(k)
            if vn is None:
                continue
            r = self.kr.get(k, vn)
            lo = vo[0] if vn[0] >= vo[0] else min(r[0], vn[0])
            hi = vo[1] if vn[1] <= vo[1] else max(r[1], vn[1])
            out[k] = (lo, hi)
        return out

    # ------------------------------------------------------------------ arithmetic
    def event(self, nid, kind, math, ops):
        if nid not in self.res.events:     # the first event comes from a state no earlier event has blurred
            self.res.events[nid] = (kind, math, ops)

    def fit(self, nid, t, math, ops):
        """value of an arithmetic node of type t whose mathematical result is the interval math."""
        r = type_range(t)
        if r is None:
            return None
        if inside(math, r):
            return math
        self.event(nid, 'overflow' if r[0] < 0 else 'wrap', math, ops)
        return r

    @staticmethod
    def convert(v, t):
        r = type_range(t)
        if r is None or v is None:
            return r
        if r == (0, 1) and t.replace('const ', '').strip() == 'bool':
            if v[0] > 0 or v[1] < 0:
                return (1, 1)
            if v == (0, 0):
                return (0, 0)
            return (0, 1)
        return v if inside(v, r) else r

    def arith(self, nid, op, a, b, t):
        r = type_range(t)
        if r is None:
            return None
        if a is None or b is None:
            return r
        ops = (a, b)
        if op == '+':
            return self.fit(nid, t, (a[0] + b[0], a[1] + b[1]), ops)
        if op == '-':
            return self.fit(nid, t, (a[0] - b[1], a[1] - b[0]), ops)
        if op == '*':
            c = [a[0] * b[0], a[0] * b[1], a[1] * b[0], a[1] * b[1]]
            return self.fit(nid, t, (min(c), max(c)), ops)
        if op == '/':
            if b[0] <= 0 <= b[1]:
                return r
            c = [_tdiv(x, y) for x in a for y in b]
            return self.fit(nid, t, (min(c), max(c)), ops)
        if op == '%':
            if b[0] == b[1] and b[0] != 0:
                k = abs(b[0])
                if a[0] >= 0:
                    return (0, min(a[1], k - 1))
                if a[1] <= 0:
                    return (max(a[0], -(k - 1)), 0)
                return (-(k - 1), k - 1)
            return r
        if op == '<<':
            if b[0] == b[1] and 0 <= b[0] < 64 and a[0] >= 0:
                return self.fit(nid, t, (a[0] << b[0], a[1] << b[0]), ops)
            if b[0] == b[1] and 0 <= b[0] < 64:
                return self.fit(nid, t, (a[0] * 2 ** b[0], a[1] * 2 ** b[0]), ops)
            return r
        if op == '>>':
            if b[0] == b[1] and 0 <= b[0] < 64 and a[0] >= 0:
                return (a[0] >> b[0], a[1] >> b[0])
            return r
        if op == '&':
            if b[0] == b[1] and b[0] >= 0:
                return (0, b[0]) if a[0] < 0 or a[1] > b[0] else (0, a[1])
            if a[0] == a[1] and a[0] >= 0:
                return (0, a[0])
            return r
        if op in ('|', '^'):
            if a[0] >= 0 and b[0] >= 0:
                hi = (1 << max(a[1].bit_length(), b[1].bit_length())) - 1
                return (0, hi) if inside((0, hi), r) else r
            return r
        return r

    @staticmethod
    def compare(op, a, b):
        if a is None or b is None:
            return (0, 1)
        if op == '<':
            return (1, 1) if a[1] < b[0] else (0, 0) if a[0] >= b[1] else (0, 1)
        if op == '<=':
            return (1, 1) if a[1] <= b[0] else (0, 0) if a[0] > b[1] else (0, 1)
        if op == '>':
            return (1, 1) if a[0] > b[1] else (0, 0) if a[1] <= b[0] else (0, 1)
        if op == '>=':
            return (1, 1) if a[0] >= b[1] else (0, 0) if a[1] < b[0] else (0, 1)
        if op == '==':
            return (1, 1) if a[0] == a[1] == b[0] == b[1] else (0, 0) if a[1] < b[0] or b[1] < a[0] else (0, 1)
        if op == '!=':
            return (0, 0) if a[0] == a[1] == b[0] == b[1] else (1, 1) if a[1] < b[0] or b[1] < a[0] else (0, 1)
        return (0, 1)

    # ------------------------------------------------------------------ evaluation of one element
    def val(self, nid, st, vals, depth=0):
        """value of a (sub)expression: from this block's scratch, else recomputed without side effects."""
        if nid in vals:
            return vals[nid]
        if depth > 40 or nid not in self.fn.nodes:
            return None
        return self.eval(nid, st, vals, pure=True, depth=depth + 1)

    def eval(self, nid, st, vals, pure=False, depth=0):
        """Abstract value of node nid in state st (st is updated in place unless pure)."""
        fn = self.fn
        n = fn.nodes[nid]
        k = n.get('k')
        t = n.get('t')
        v = self._eval(n, nid, k, t, st, vals, pure, depth)
        if v is not None and not pure:
            old = self.res.obs.get(nid)
            self.res.obs[nid] = v if old is None else hull(old, v)
        return v

    def _eval(self, n, nid, k, t, st, vals, pure, depth):
        fn = self.fn
        if 'cv' in n and not n.get('float') and k not in ('assign', 'decl'):
            try:
                c = int(n['cv'])
                return (c, c)
            except ValueError:
                pass
        sub = lambda x: self.val(x, st, vals, depth)
        if k == 'lit':
            return type_range(t)
        if k == 'var':
            key = self.tracked_var(n)
            if key is not None:
                return self.get(st, key)
            return type_range(t)
        if k == 'wrap':
            return sub(n['sub']) if 'sub' in n else type_range(t)
        if k in ('icast', 'cast'):
            ck = n.get('ck')
            if 'sub' not in n:
                return type_range(t)
            if ck in ('LValueToRValue', 'NoOp'):
                v = sub(n['sub'])
                return v if v is not None else type_range(t)
            if ck in ('IntegralCast', 'IntegralToBoolean'):
                return self.convert(sub(n['sub']), t)
            if ck == 'PointerToBoolean':
                return (0, 1)
            return type_range(t)
        if k == 'unop':
            op = n['op']
            if op in ('++', '--'):
                delta = 1 if op == '++' else -1
                key = self.lv_key(n['sub'])
                old = self.get(st, key) if key is not None else None
                r = type_range(t)
                new = None
                if old is not None and r is not None:
                    new = self.fit(nid, t, (old[0] + delta, old[1] + delta), (old, (delta, delta)))
                if not pure:
                    self.store(st, n['sub'], new)
                    return old if n.get('postfix') else new
                return old if n.get('postfix') or old is None else new
            if op == '*':
                key = self.lv_key(nid)
                return self.get(st, key) if key is not None else type_range(t)
            a = sub(n['sub'])
            if op == '-':
                r = type_range(t)
                if r is None:
                    return None
                if a is None:
                    return r
                return self.fit(nid, t, (-a[1], -a[0]), (a,))
            if op == '+':
                return a if a is not None else type_range(t)
            if op == '!':
                if a is None:
                    return (0, 1)
                return (0, 0) if (a[0] > 0 or a[1] < 0) else (1, 1) if a == (0, 0) else (0, 1)
            return type_range(t)
        if k in ('index', 'member'):
            key = self.lv_key(nid)
            return self.get(st, key) if key is not None else type_range(t)
        if k == 'binop':
            op = n['op']
            if op == ',':
                return sub(n['rhs'])
            if op in ('&&', '||'):
                a, b = sub(n['lhs']), sub(n['rhs'])
                ta = None if a is None else (True if (a[0] > 0 or a[1] < 0) else False if a == (0, 0) else None)
                tb = None if b is None else (True if (b[0] > 0 or b[1] < 0) else False if b == (0, 0) else None)
                if op == '&&':
                    if ta is False or tb is False:
                        return (0, 0)
                    return (1, 1) if ta and tb else (0, 1)
                if ta is True or tb is True:
                    return (1, 1)
                return (0, 0) if ta is False and tb is False else (0, 1)
            a, b = sub(n['lhs']), sub(n['rhs'])
            if op in ('<', '<=', '>', '>=', '==', '!='):
                return self.compare(op, a, b)
            return self.arith(nid, op, a, b, t)
        if k == 'assign':
            op = n['op']
            rhs = sub(n['rhs'])
            if op == '=':
                new = rhs if type_range(t) is not None else None
                if new is None and type_range(t) is not None:
                    new = type_range(t)
            else:
                key = self.lv_key(n['lhs'])
                cur = self.get(st, key) if key is not None else type_range(t)
                new = self.arith(nid, op[:-1], cur, rhs, t) if type_range(t) is not None else None
            if not pure:
                self.store(st, n['lhs'], new)
            return new
        if k == 'condop':
            a = vals.get(n['then'])
            b = vals.get(n['else'])
            if a is not None and b is not None:
                return hull(a, b)
            return type_range(t)
        if k == 'decl':
            if not pure:
                for v in n['vars']:
                    self.kill_var(st, v['d'])
                    r = type_range(v['tC'])
                    if r is not None and not v['tC'].rstrip().endswith('&') and isinstance(v.get('init'), int):
                        iv = self.val(v['init'], st, vals, depth)
                        key = ('v', v['d'])
                        self.kr.setdefault(key, r)
                        if iv is not None:
                            st[key] = iv if inside(iv, r) else r
            return None
        if k == 'call' and n.get('q', '').rsplit('::', 1)[-1] == 'isspace' and len(n.get('args', []) or []) == 1 and 'cv' not in n:
            # C locale white space: '\t' '\n' '\v' '\f' '\r' (9..13) and ' ' (32); the result is only ever tested for != 0
            c = sub(n['args'][0])
            if c is not None:
                if (9 <= c[0] and c[1] <= 13) or c == (32, 32):
                    return (1, 2 ** 31 - 1)
                if c[1] < 9 or (13 < c[0] and c[1] < 32) or c[0] > 32:
                    return (0, 0)
            return type_range(t)
        if k == 'call' and n.get('q') in ('std::array::operator[]', 'std::array::at') and n.get('args') and n.get('recv') is not None:
            tab = self.const_array(n['recv'])
            if tab is not None and type_range(t) is not None:
                iv = sub(n['args'][0])
                lo, hi = (0, len(tab) - 1) if iv is None else (max(iv[0], 0), min(iv[1], len(tab) - 1))
                if lo <= hi:
                    return (min(tab[lo:hi + 1]), max(tab[lo:hi + 1]))
        if k in ('call', 'construct', 'new', 'delete', 'autodtor'):
            if not pure:
                q = n.get('q', '')
                default_init = k == 'construct' and not n.get('args')     # T x; initialises the new object only
                if not (default_init or q in PURE_CALLS or q.startswith('std::numeric_limits::') or q.startswith('__builtin_')):
                    if writes_int_memory(fn.fb, n.get('u')):
                        self.kill_memory(st, calls=True)
                    elif writes_int_memory(fn.fb, n.get('u'), any_type=True):
                        # callee stores to no integer object but may redirect a pointer (`*s = str`): only what is read
                        # through its pointer arguments can change; a callee that stores nothing at all changes nothing
                        ds = set()
                        for a in [n.get('recv')] + list(n.get('args', []) or []):
                            if a is None:
                                continue
                            for x in fn.subtree(a):
                                m = fn.nodes[x]
                                if m.get('k') == 'var' and m.get('vk') in ('local', 'param') and type_range(m.get('t')) is None:
                                    ds.add(m['d'])
                        for k2 in [k2 for k2 in st if k2[0] == 'e' and ds & self.edeps.get(k2[1], (frozenset(), True))[0]]:
                            del st[k2]
                    for a in n.get('args', []) or []:
                        if a is None:
                            continue
                        x = fn.strip(a, casts=False)
                        m = fn.nodes.get(x)
                        while m is not None and m.get('k') == 'icast' and m.get('ck') == 'NoOp':
                            x = fn.strip(m['sub'], casts=False)
                            m = fn.nodes.get(x)
                        if m is not None and m.get('k') == 'var' and m.get('vk') in ('local', 'param'):
                            self.kill_var(st, m['d'])
                summ = self._call_summary(n, st, vals) if k == 'call' else None
                if summ is not None:
                    rv, refs, normal = summ
                    if not normal:
                        self._dead = True
                        return type_range(t)
                    for (key, iv) in refs:
                        if (key[0] == 'e' and key not in st) or (key[0] == 'v' and key[1] in self.escaped):
                            continue        # unknown, just invalidated by the call itself, or reachable through a pointer
                        cur = self.get(st, key) or iv
                        lo, hi = max(cur[0], iv[0]), min(cur[1], iv[1])
                        if lo <= hi:
                            st[key] = (lo, hi)
                    if rv is not None and type_range(t) is not None and inside(rv, type_range(t)):
                        return rv
            return type_range(t)
        return type_range(t)

    # ------------------------------------------------------------------ branch refinement
    def _through_casts(self, nid, st, vals):
        """Follow value-preserving conversions down to an lvalue; returns its storage key or None."""
        fn = self.fn
        hops = 0
        while nid is not None and nid in fn.nodes and hops < 30:
            hops += 1
            n = fn.nodes[nid]
            k = n.get('k')
            if k == 'wrap' and 'sub' in n:
                nid = n['sub']
            elif k in ('icast', 'cast') and 'sub' in n:
                ck = n.get('ck')
                if ck in ('LValueToRValue', 'NoOp'):
                    nid = n['sub']
                elif ck == 'IntegralCast':
                    v = self.val(n['sub'], st, vals)
                    r = type_range(n.get('t'))
                    if v is None or r is None or not inside(v, r):
                        return None
                    nid = n['sub']
                else:
                    return None
            elif k == 'unop' and n.get('op') in ('++', '--') and not n.get('postfix'):
                return self.lv_key(n['sub'])
            elif k == 'assign':
                return self.lv_key(n['lhs'])
            else:
                return self.lv_key(nid)
        return None

    @staticmethod
    def _constrain(op, a, b):
        """Sub-intervals of a for which `a op b` can hold (list; empty = infeasible)."""
        lo, hi = a
        if op == '<':
            hi = min(hi, b[1] - 1)
        elif op == '<=':
            hi = min(hi, b[1])
        elif op == '>':
            lo = max(lo, b[0] + 1)
        elif op == '>=':
            lo = max(lo, b[0])
        elif op == '==':
            lo, hi = max(lo, b[0]), min(hi, b[1])
        elif op == '!=':
            if b[0] == b[1]:
                c = b[0]
                if lo == hi == c:
                    return []
                if lo == c:
                    lo += 1
                elif hi == c:
                    hi -= 1
                elif lo < c < hi:
                    return [(lo, c - 1), (c + 1, hi)]
        return [(lo, hi)] if lo <= hi else []

    _NEG = {'<': '>=', '<=': '>', '>': '<=', '>=': '<', '==': '!=', '!=': '=='}
    _SWAP = {'<': '>', '<=': '>=', '>': '<', '>=': '<=', '==': '==', '!=': '!='}

    def refine(self, nid, sense, st, vals, here):
        """States (copies) in which condition nid evaluated to `sense`; only sub-conditions evaluated in this block
        (`here` = ids of its elements) are used."""
        fn = self.fn
        nid = fn.strip(nid, casts=False)
        n = fn.nodes.get(nid)
        if n is None:
            return [dict(st)]
        k = n.get('k')
        if k == 'icast' and n.get('ck') in ('IntegralToBoolean',) and 'sub' in n:
            return self._refine_cmp('!=' if sense else '==', n['sub'], None, (0, 0), st, vals)
        if k == 'icast' and 'sub' in n and n.get('ck') in ('LValueToRValue', 'NoOp', 'IntegralCast') and type_range(n.get('t')) == (0, 1):
            sn = fn.nodes.get(fn.strip(n['sub'], casts=False))
            if sn is not None and sn.get('k') in ('binop', 'unop') and sn.get('op') in ('&&', '||', '!', '<', '<=', '>', '>=', '==', '!='):
                return self.refine(n['sub'], sense, st, vals, here)
            return self._refine_cmp('!=' if sense else '==', nid, None, (0, 0), st, vals)
        if k == 'unop' and n.get('op') == '!':
            return self.refine(n['sub'], not sense, st, vals, here)
        if k == 'binop' and n.get('op') in ('&&', '||'):
            conj = (n['op'] == '&&') == sense
            if not conj:
                both = all(fn.strip(x, casts=False) in here or x in here for x in (n['lhs'], n['rhs']))
                if not both:
                    return [dict(st)]
                # not (a && b)  ==  not a,  or  a and not b       (dually for ||)
                outs = self.refine(n['lhs'], sense, st, vals, here)
                for s in self.refine(n['lhs'], not sense, st, vals, here):
                    outs.extend(self.refine(n['rhs'], sense, s, vals, here))
                return outs
            outs = [dict(st)]
            for side in (n['lhs'], n['rhs']):
                if fn.strip(side, casts=False) not in here and side not in here:
                    continue
                nxt = []
                for s in outs:
                    nxt.extend(self.refine(side, sense, s, vals, here))
                outs = nxt
            return outs
        if k == 'binop' and n.get('op') in self._NEG:
            op = n['op'] if sense else self._NEG[n['op']]
            return self._refine_cmp(op, n['lhs'], n['rhs'], None, st, vals)
        if k == 'call' and 'cv' not in n:
            r = self._refine_predicate_call(n, sense, st, vals)
            if r is not None:
                return r
        if k in ('var', 'member', 'index', 'unop', 'call', 'lit', 'assign'):
            if 'cv' in n:
                try:
                    c = int(n['cv'])
                    return [dict(st)] if bool(c) == sense else []
                except ValueError:
                    pass
            return self._refine_cmp('!=' if sense else '==', nid, None, (0, 0), st, vals)
        return [dict(st)]

    # ------------------------------------------------------------------ helpers extracted into other functions
    def _callee(self, n):
        """The single small body of a resolved, non-virtual callee, or None."""
        if self.depth >= 2 or n.get('virt') or not n.get('u') or self.fn.fb is None:
            return None
        bodies = [g for g in self.fn.fb.by_usr.get(n['u'], []) if g.has_cfg]
        if len({g.pat for g in bodies}) != 1:
            return None
        g = bodies[0]
        if g is self.fn or len(g.nodes) > 800 or len(g.params) != len(n.get('args', []) or []):
            return None
        return g

    def _int_args(self, n, g, st, vals):
        """[(param decl id, argument interval, argument storage key | None)] for by-value integer parameters that the
        callee never writes."""
        written = set()
        for m in g.all_nodes():
            lv = m['lhs'] if m.get('k') == 'assign' else m['sub'] if (m.get('k') == 'unop' and m.get('op') in ('++', '--', '&')) else None
            if lv is not None:
                x = g.nodes.get(g.strip(lv, casts=False))
                if x is not None and x.get('k') == 'var':
                    written.add(x['d'])
        out = []
        for p, a in zip(g.params, n.get('args', []) or []):
            r = type_range(p['tC'])
            if a is None or r is None or p['tC'].rstrip().endswith('&') or p['d'] in written:
                continue
            v = self.val(a, st, vals)
            if v is None:
                v = r
            out.append((p['d'], v if inside(v, r) else r, self._through_casts(a, st, vals)))
        return out

    def _sub_interp(self, g, **kw):
        it = Interp(g, depth=self.depth + 1, **kw)
        return it

    def _refine_predicate_call(self, n, sense, st, vals):
        """`if (is_digit(*str))`: the callee is one `return <condition over its parameters>;` without side effects --
        refine the arguments by the callee's own condition."""
        g = self._callee(n)
        if g is None:
            return None
        rets = [m for m in g.all_nodes() if m.get('k') == 'return']
        if len(rets) != 1 or 'sub' not in rets[0]:
            return None
        for m in g.all_nodes():
            k = m.get('k')
            if k in ('assign', 'decl', 'throw', 'new', 'delete', 'lambda', 'construct') or (k == 'unop' and m.get('op') in ('++', '--')):
                return None
            if k == 'call' and 'cv' not in m and m.get('q') not in PURE_CALLS:
                return None
        args = self._int_args(n, g, st, vals)
        if not args:
            return None
        sub = self._sub_interp(g)
        gst = {}
        for (d, v, _key) in args:
            sub.kr.setdefault(('v', d), v)
            gst[('v', d)] = v
        outs = sub.refine(rets[0]['sub'], sense, gst, {}, _Everything())
        if not outs:
            return []
        res = []
        for o in outs[:16]:
            s = dict(st)
            ok = True
            for (d, v, key) in args:
                if key is None:
                    continue
                h = o.get(('v', d), v)
                cur = self.get(s, key) or h
                lo, hi = max(cur[0], h[0]), min(cur[1], h[1])
                if lo > hi:
                    ok = False
                    break
                s[key] = (lo, hi)
            if ok and s not in res:
                res.append(s)
        if len(outs) > 16:
            res.append(dict(st))
        return res

    _SUMMARY = {}

    def _call_summary(self, n, st, vals):
        """Callee with a body in the fact base: interval of its integer result over all its *normal* returns (a range test
        inside the callee bounds what the caller receives), and -- guard helper `check(x)` that throws on some values -- of
        each by-value integer argument at those returns.  -> (result interval | None, [(key, interval)], returns normally?)
        or None when there is nothing to learn."""
        g = self._callee(n)
        if g is None:
            return None
        rr = type_range(g.retC)
        args = self._int_args(n, g, st, vals)
        throws = any(m.get('k') == 'throw' or m.get('noret') for m in g.all_nodes())
        if rr is None and not (args and throws):
            return None            # no integer result and no argument to learn about
        ck = (id(g), g.usr, g.pat, tuple((d, v) for (d, v, _k) in args))
        hit = Interp._SUMMARY.get(ck)
        if hit is None:
            sub = self._sub_interp(g, init={('v', d): v for (d, v, _k) in args}, keep=True)
            for (d, v, _k) in args:
                sub.kr.setdefault(('v', d), type_range(next(p['tC'] for p in g.params if p['d'] == d)))
            sub.run()
            if sub.res.truncated:
                hit = ('unknown',)
            else:
                rv = None
                per = {}
                for (_nid, _mk, v, rst) in sub.res.return_states:
                    if rr is not None:
                        if v is None or not inside(v, rr):
                            v = rr          # a return whose value is not tracked: anything of the result type
                        rv = v if rv is None else hull(rv, v)
                    for (d, v0, _k) in args:
                        x = rst.get(('v', d), v0)
                        per[d] = x if d not in per else hull(per[d], x)
                hit = ('ok', rv, per, bool(sub.res.return_states))
            Interp._SUMMARY[ck] = hit
        if hit[0] != 'ok':
            return None
        _t, rv, per, normal = hit
        return rv, [(key, per[d]) for (d, _v, key) in args if key is not None and d in per], normal

    def _refine_cmp(self, op, lhs, rhs, rconst, st, vals):
        a = self.val(lhs, st, vals)
        b = rconst if rhs is None else self.val(rhs, st, vals)
        if a is None or b is None:
            return [dict(st)]
        ka = self._through_casts(lhs, st, vals)
        kb = self._through_casts(rhs, st, vals) if rhs is not None else None
        la = self._constrain(op, a, b)
        if not la:
            return []
        lb = self._constrain(self._SWAP[op], b, hull(la[0], la[-1]))
        if not lb:
            return []
        outs = []
        for ia in la:
            for ib in (lb if kb is not None else [None]):
                s = dict(st)
                if ka is not None:
                    s[ka] = ia
                if kb is not None and ib is not None and kb != ka:
                    s[kb] = ib
                outs.append(s)
        return outs

    # ------------------------------------------------------------------ fixpoint
    def run(self, start_block=None):
        """Fixpoint.  Blocks are processed in descending block id (clang numbers blocks against the flow: entry highest,
        exit 0, loop bodies above the loop's exit), so all partitions of the forward predecessors of a block and all
        iterations of a loop are done before what follows; a partition is widened only at the target of a back edge and
        only when it keeps growing after it has been processed (more than WIDEN_AFTER times)."""
        import heapq
        fn = self.fn
        res = self.res
        if not fn.has_cfg or fn.entry is None:
            return res
        preds = fn.preds()
        # widening points: targets of an edge against the numbering (every cycle contains one)
        wpoints = {b for b in fn.blocks if any(p <= b for p in preds.get(b, []))}
        instates = {}     # block -> {sig: state}
        processed = {}    # (block, sig) -> times processed
        grown = {}        # (block, sig) -> times grown after having been processed
        queued = set()
        collapsed = res.collapsed
        heap = []
        seq = [0]
        steps = 0

        def push(b, sg):
            if (b, sg) not in queued:
                queued.add((b, sg))
                seq[0] += 1
                heapq.heappush(heap, (-b, seq[0], sg))

        def arrive(b, st):
            lv = self.live.get(b, ())
            if self.keep:
                lv = set(lv) | self._param_ds      # what holds for the parameters at the returns is the point of keep mode
            st = {k: v for k, v in st.items() if k[0] != 'v' or k[1] in lv}
            for k, v in st.items():
                if k[0] == 'v' and k[1] in self.counters and 0 < v[1] - v[0] <= SPLIT_MAX:
                    for c in range(v[0], v[1] + 1):
                        s2 = dict(st)
                        s2[k] = (c, c)
                        arrive(b, s2)
                    return
            d = instates.setdefault(b, {})
            sg = None if b in collapsed else self.sig(st)
            old = d.get(sg)
            if old is None:
                if sg is not None and len(d) >= CAP:
                    collapsed.add(b)
                    merged = st
                    for o in d.values():
                        merged = self.join(merged, o)
                    d.clear()
                    d[None] = merged
                    push(b, None)
                    return
                d[sg] = st
                push(b, sg)
                return
            j = self.join(old, st)
            if j == old:
                return
            if b in wpoints and processed.get((b, sg), 0) > 0:
                c = grown.get((b, sg), 0) + 1
                grown[(b, sg)] = c
                if c > WIDEN_AFTER:
                    j = self.widen(old, j)
            d[sg] = j
            push(b, sg)

        first = fn.entry if start_block is None else start_block
        arrive(first, dict(self.init))
        while heap:
            _p, _s, sg = heapq.heappop(heap)
            b = -_p
            queued.discard((b, sg))
            st = instates.get(b, {}).get(sg)
            if st is None:
                continue
            steps += 1
            if steps > STEP_LIMIT:
                res.truncated = True
                break
            processed[(b, sg)] = processed.get((b, sg), 0) + 1
            for (s2, succ) in self._block(b, dict(st)):
                if self.edge_probe is not None:
                    self.edge_probe(b, succ, s2)
                arrive(succ, s2)
        return res

    def _pure_cond(self, nid):
        c = self._pure_memo.get(nid)
        if c is not None:
            return c
        fn = self.fn
        ok = True
        for x in fn.subtree(nid):
            m = fn.nodes[x]
            k = m.get('k')
            if k in ('assign', 'new', 'delete', 'lambda', 'construct', 'throw', 'condop') or (k == 'unop' and m.get('op') in ('++', '--')):
                ok = False
            elif k == 'call' and 'cv' not in m and m.get('q') not in PURE_CALLS and not m.get('q', '').startswith('std::numeric_limits::'):
                if writes_int_memory(fn.fb, m.get('u'), any_type=True):
                    ok = False
            if not ok:
                break
        self._pure_memo[nid] = ok
        return ok

    def _fork_named_condition(self, n, st, vals):
        """`const bool ok = a >= 0 && a <= 11;` -- a condition given a name: split the state into the cases ok / not ok with what
        the condition implies in each (the flag holds one value per state, so a later `if (ok)` selects the right case).
        Only for side-effect-free conditions; returns the list of states or None."""
        fn = self.fn
        if len(n['vars']) != 1:
            return None
        v = n['vars'][0]
        if type_range(v['tC']) != (0, 1) or 'bool' not in v['tC'] or not isinstance(v.get('init'), int):
            return None
        root = fn.nodes.get(fn.strip(v['init']))
        if root is None or root.get('k') not in ('binop', 'unop') or root.get('op') not in ('&&', '||', '!', '<', '<=', '>', '>=', '==', '!='):
            return None
        for x in fn.subtree(v['init']):
            m = fn.nodes[x]
            k = m.get('k')
            if k in ('assign', 'new', 'delete', 'lambda', 'construct', 'throw') or (k == 'unop' and m.get('op') in ('++', '--')):
                return None
            if k == 'call' and 'cv' not in m and m.get('q') not in PURE_CALLS:
                return None
        key = ('v', v['d'])
        if key not in self.kr:
            return None
        outs = []
        for sense in (True, False):
            for s2 in self.refine(v['init'], sense, st, {}, _Everything())[:16]:
                s2[key] = (1, 1) if sense else (0, 0)
                outs.append(s2)
        return outs

    def _block(self, b, st0):
        """Interpret block b from state st0; yields (state, successor block)."""
        fn = self.fn
        res = self.res
        blk = fn.blocks[b]
        elems = blk['elems']
        here = set(elems)
        out = []
        pending = [(0, st0, {})]
        while pending:
            i, st, vals = pending.pop()
            dead = False
            while i < len(elems):
                e = elems[i]
                i += 1
                n = fn.nodes[e]
                k = n.get('k')
                res.reached.add(e)
                mk = self.marks(st)
                if mk:
                    res.marked_reached.setdefault(e, set()).add(frozenset(mk.items()))
                if k == 'throw':
                    res.throws.append((e, mk))
                    dead = True
                    break
                if k == 'return':
                    v = vals.get(n['sub']) if 'sub' in n else None
                    if v is None and 'sub' in n:
                        v = self.val(n['sub'], st, vals)
                    res.returns.append((e, mk, v))
                    if self.keep:
                        res.return_states.append((e, mk, v, dict(st)))
                    dead = True
                    break
                if k in ('call', 'construct') and n.get('noret'):
                    res.throws.append((e, mk))
                    dead = True
                    break
                h = self.hooks.get(e)
                if h is not None:
                    alts = h(self, st, vals, n)
                    if alts is not None:
                        for (s2, v2) in alts[1:]:
                            vv = dict(vals)
                            vv[e] = v2
                            pending.append((i, s2, vv))
                        if not alts:
                            dead = True
                            break
                        st, v0 = alts[0]
                        vals = dict(vals)
                        vals[e] = v0
                        continue
                vals[e] = self.eval(e, st, vals)
                if k == 'decl':
                    alts = self._fork_named_condition(n, st, vals)
                    if alts is not None:
                        for s2 in alts[1:]:
                            pending.append((i, s2, dict(vals)))
                        if not alts:
                            dead = True
                            break
                        st = alts[0]
                if self._dead:              # a callee that cannot return normally for these arguments
                    self._dead = False
                    res.throws.append((e, self.marks(st)))
                    dead = True
                    break
            if dead:
                continue
            succs = blk['succs']
            if b == fn.exit:
                # `return` and `throw` end their path above: what arrives here fell off the end of a void function
                res.returns.append((None, self.marks(st), None))
                if self.keep:
                    res.return_states.append((None, self.marks(st), None, dict(st)))
                continue
            if not succs:
                continue
            if 'cond' in blk and len(succs) == 2 and blk.get('termcls') != 'SwitchStmt' and isinstance(blk.get('cond'), int):
                # a side-effect-free condition is judged as a whole (operands evaluated in predecessor blocks are re-read:
                # nothing ran in between), so `!(a || b || c)` and other join-block shapes refine like the `&&` chain
                if self._pure_cond(blk['cond']):
                    ec, where = blk['cond'], _Everything()
                else:
                    ec, where = effective_cond(fn, blk), here
                for idx, sense in ((0, True), (1, False)):
                    if succs[idx] is None:
                        continue
                    for s2 in self.refine(ec, sense, st, vals, where):
                        out.append((s2, succs[idx]))
            else:
                for s in succs:
                    if s is not None:
                        out.append((dict(st), s))
        return out


def analyse(fn, hooks=None, init=None):
    it = Interp(fn, hooks=hooks, init=init)
    it.run()
    return it
