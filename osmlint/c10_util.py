"""Helpers for the C10 rule module (area assembler): all static, over the fact base.

 1. three-valued condition evaluation + reject-flow path search ("a stage that returned `reject` cannot reach an accepting
    action") -- used by the pipeline / rejection rules;
 2. counter identity: which `area_stats` field an incremented lvalue (member, reference parameter, returned local, captured
    variable of a lambda) denotes, resolved through call sites;
 3. guard-region pairing of two nodes (increment <-> report);
 4. SymExec: a small symbolic interpreter over the clang AST facts with order-type worlds (osmlint/ordertype.py) as the
    abstract domain.  Integer values are polynomials over input symbols; a comparison is decided in a world when the
    difference of its operands is a constant or `c * (x - y)` for two symbols of the world, and is UNKNOWN otherwise
    (three-valued logic; nothing is ever guessed).  Objects are records of values; accessor / operator / constructor
    bodies are taken from the fact base and interpreted, so the rule never hard-codes what `first().location().x()` is.
    Nothing is executed concretely: one run per order type decides the statement for ALL coordinate values.
"""
from .flow import guards_of, path_search
from .ordertype import Inexact, World, worlds


# ====================================================================================================== small AST helpers

NORETURN = ('__assert_fail', '__assert_perror_fail', '__assert', 'abort', 'std::abort', 'std::terminate', 'exit', '_Exit', 'std::exit')


def is_noreturn(fn, e):
    """Element e is a call that does not return (failed assert, abort) or a throw: a path through it is not a normal path."""
    if isinstance(e, tuple):
        return False
    n = fn.nodes.get(e)
    if n is None:
        return False
    if n.get('k') == 'throw':
        return True
    return n.get('k') == 'call' and (n.get('q') or n.get('name') or '') in NORETURN


def calls_of(fn, q=None, pred=None):
    out = []
    for n in fn.all_nodes():
        if n.get('k') == 'call' and 'q' in n and (q is None or n['q'] == q) and (pred is None or pred(n)):
            out.append(n)
    return out


def callee_bodies(fb, n):
    return [g for g in fb.by_usr.get(n.get('u'), []) if g.has_cfg]


def live(fn, nid):
    pos = fn.positions()
    return nid in pos and pos[nid][0] in fn.reachable_blocks()


def stmt_root(fn, nid):
    """Top-most expression/statement node containing nid."""
    pm = fn.parent_map()
    x, hops = nid, 0
    while x in pm and hops < 200:
        x = pm[x]
        hops += 1
    return x


def local_decl(fn, d):
    """(decl node, var entry) of local variable with decl id d."""
    cache = getattr(fn, '_c10_decls', None)
    if cache is None:
        cache = {}
        for n in fn.all_nodes():
            if n.get('k') == 'decl':
                for v in n['vars']:
                    cache[v['d']] = (n, v)
        fn._c10_decls = cache
    return cache.get(d)


def is_zero_test(fn, nid):
    """(operand id, truth of the condition when operand is NONZERO) for `x`, `!x`, `x != 0`, `x == 0`, `x > 0`, `0 < x`."""
    n = fn.sn(nid)
    if n is None:
        return None
    if n.get('k') == 'binop' and n['op'] in ('==', '!=', '>', '<'):
        l, r = n['lhs'], n['rhs']
        if fn.const_value(r) == 0 and fn.const_value(l) is None and n['op'] in ('==', '!=', '>'):
            return l, n['op'] != '=='
        if fn.const_value(l) == 0 and fn.const_value(r) is None and n['op'] in ('==', '!=', '<'):
            return r, n['op'] != '=='
    return None


# ====================================================================================================== three-valued conditions

class Facts(object):
    """Assumed truth values: nodes (a particular evaluation of a call), locals (decl id), lvalue texts (fields)."""

    def __init__(self):
        self.nodes, self.vars, self.texts = {}, {}, {}
        self.hook = None        # optional hook(fn, node id) -> True / False / None for atoms decided elsewhere (e.g. in a world)

    def copy(self):
        f = Facts()
        f.nodes, f.vars, f.texts, f.hook = dict(self.nodes), dict(self.vars), dict(self.texts), self.hook
        return f

    def merge(self, other):
        self.nodes.update(other.nodes)
        self.vars.update(other.vars)
        self.texts.update(other.texts)

    def describe(self):
        return ', '.join(['%s=%s' % (k, v) for k, v in sorted(self.texts.items())] + ['var#%s=%s' % kv for kv in sorted(self.vars.items())]
                         + ['node#%s=%s' % kv for kv in sorted(self.nodes.items())])


def tv(fn, nid, facts):
    """Truth of expression nid under `facts`: True / False / None (unknown).  Integers are read as `!= 0`."""
    if nid is None or nid not in fn.nodes:
        return None
    n = fn.nodes[nid]
    k = n.get('k')
    if nid in facts.nodes:
        return facts.nodes[nid]
    if facts.hook is not None:
        hv = facts.hook(fn, nid)
        if hv is not None:
            return hv
    if k in ('wrap', 'icast') or (k == 'cast' and n.get('ck') in ('IntegralToBoolean', 'NoOp', 'LValueToRValue', 'IntegralCast')):
        return tv(fn, n.get('sub'), facts) if 'sub' in n else None
    if k == 'construct' and (n.get('elidable') or n.get('copymove')) and len(n.get('args', [])) == 1:
        return tv(fn, n['args'][0], facts)
    if 'cv' in n and not n.get('float') and 'str' not in n:
        try:
            return int(n['cv']) != 0
        except ValueError:
            return None
    if k == 'var' and n.get('d') in facts.vars:
        return facts.vars[n['d']]
    if k == 'unop' and n.get('op') == '!':
        v = tv(fn, n['sub'], facts)
        return None if v is None else (not v)
    if k == 'binop' and n.get('op') in ('&&', '||'):
        a, b = tv(fn, n['lhs'], facts), tv(fn, n['rhs'], facts)
        if n['op'] == '&&':
            if a is False or b is False:
                return False
            return True if (a is True and b is True) else None
        if a is True or b is True:
            return True
        return False if (a is False and b is False) else None
    z = is_zero_test(fn, nid)
    if z is not None:
        v = tv(fn, z[0], facts)
        return None if v is None else (v == z[1])
    t = fn.expr(nid)
    if t in facts.texts:
        return facts.texts[t]
    return None


def edge_filter(fn, facts):
    """edge_ok for flow.path_search: an edge is pruned when the branch condition is decided the other way by `facts`."""
    def ok(b, idx, s):
        blk = fn.blocks[b]
        if 'cond' not in blk or len(blk['succs']) != 2 or blk.get('termcls') == 'SwitchStmt':
            return True
        v = tv(fn, blk['cond'], facts)
        if v is None:
            return True
        return idx == (0 if v else 1)
    return ok


def result_sink(fn, call_id):
    """Where the value of a call goes: ('node', id) tested in place / ('var', d) / ('text', lvalue text) / None (discarded
    or passed on in a way not followed)."""
    pm = fn.parent_map()
    x = call_id
    hops = 0
    while x in pm and hops < 12:
        p = fn.nodes[pm[x]]
        hops += 1
        k = p.get('k')
        if k in ('wrap', 'icast') or (k == 'cast' and p.get('ck') in ('IntegralCast', 'IntegralToBoolean', 'NoOp')) or \
                (k == 'construct' and (p.get('elidable') or p.get('copymove'))):
            x = p['id']
            continue
        if k == 'decl':
            for v in p['vars']:
                if v.get('init') == x:
                    return ('var', v['d'])
            return None
        if k == 'assign' and p.get('op') == '=' and p.get('rhs') == x:
            return ('text', fn.expr(p['lhs']))
        if k in ('unop', 'binop'):
            return ('node', call_id)
        return None
    # no parent: either the condition of a branch, or an expression statement (value discarded)
    for b in fn.blocks.values():
        if b.get('cond') is not None and fn.strip(b['cond']) == fn.strip(x):
            return ('node', call_id)
    return None


def facts_for_result(fn, call_id, truth):
    """(Facts, barrier predicate) expressing "this evaluation of the call yielded a value whose truthiness is `truth`".
    The barrier stops a path search when the assumption stops holding (the call is re-evaluated, the sink re-assigned)."""
    sink = result_sink(fn, call_id)
    f = Facts()
    f.nodes[call_id] = truth
    kill = {call_id}
    if sink is not None and sink[0] == 'var':
        f.vars[sink[1]] = truth
        for n in fn.all_nodes():
            if n.get('k') == 'assign':
                l = fn.sn(n['lhs'])
                if l is not None and l.get('k') == 'var' and l.get('d') == sink[1]:
                    kill.add(n['id'])
    elif sink is not None and sink[0] == 'text':
        f.texts[sink[1]] = truth
        for n in fn.all_nodes():
            if n.get('k') == 'assign' and fn.expr(n['lhs']) == sink[1] and call_id not in fn.subtree(n['id']):
                kill.add(n['id'])
            if n.get('k') == 'unop' and n.get('op') in ('++', '--') and fn.expr(n['sub']) == sink[1]:
                kill.add(n['id'])
    return f, sink, (lambda e: e in kill)


def start_after(fn, call_id):
    """Element from which a forward search "after the call has produced its value" starts: the statement-level element
    that contains the call (so that an assignment of the value has happened)."""
    pos = fn.positions()
    root = stmt_root(fn, call_id)
    if root in pos and pos[root][0] == pos.get(call_id, (None,))[0]:
        # the root of a condition lives in the same block; starting after it is starting at the branch
        return root
    return call_id


def reach_under(fn, call_id, truth, is_target, extra_facts=None):
    """Witness path from the call (its result having truthiness `truth`) to an element satisfying is_target, or None."""
    facts, sink, barrier = facts_for_result(fn, call_id, truth)
    if extra_facts:
        facts.texts.update(extra_facts)
    start = start_after(fn, call_id)
    elems = {e for b in fn.blocks.values() for e in b['elems']}
    if start not in elems:
        start = call_id
    return path_search(fn, start, lambda e: is_target(e, facts), lambda e: barrier(e) or is_noreturn(fn, e), edge_filter(fn, facts)), facts


def return_may_be_true(fn, e, facts):
    if isinstance(e, tuple):
        return False
    n = fn.nodes.get(e)
    if n is None or n.get('k') != 'return' or 'sub' not in n:
        return False
    return tv(fn, n['sub'], facts) is not False


# ====================================================================================================== counter identity

class CallIndex(object):
    def __init__(self, fb):
        self.fb = fb
        self.by_usr = {}
        for f in fb.functions:
            if not f.has_cfg:
                continue
            for n in f.all_nodes():
                if n.get('k') == 'call' and n.get('u'):
                    self.by_usr.setdefault(n['u'], []).append((f, n))

    def callers(self, g):
        seen, out = set(), []
        for (f, n) in self.by_usr.get(g.usr, []):
            key = (f.q, f.pat, n.get('o'))
            if key in seen:
                continue
            seen.add(key)
            out.append((f, n))
        return out


def outer_fn(fb, g):
    return fb.by_id.get((g.unit, g.outer)) if g.is_lambda and g.outer is not None else None


def stat_fields(fb, idx, fn, nid, record_q, depth=0, _seen=None):
    """Names of the fields of record `record_q` (the statistics record) that lvalue expression nid of fn may denote."""
    if depth > 6:
        return set()
    _seen = _seen if _seen is not None else set()
    n = fn.sn(nid)
    hops = 0
    while n is not None and n.get('k') == 'cast' and hops < 4:
        n = fn.sn(n.get('sub'))
        hops += 1
    if n is None:
        return set()
    if n.get('k') == 'member' and n.get('field'):
        if n.get('q', '').startswith(record_q + '::'):
            return {n['name']}
        return set()
    if n.get('k') == 'var' and n.get('vk') in ('param', 'local'):
        return _var_fields(fb, idx, fn, n['d'], record_q, depth, _seen)
    return set()


def _var_fields(fb, idx, fn, d, record_q, depth, seen):
    key = (fn.usr, fn.pat, d)
    if key in seen:
        return set()
    seen.add(key)
    out = set()
    pidx = [i for i, p in enumerate(fn.params) if p['d'] == d]
    if pidx:
        if not fn.params[pidx[0]]['tC'].rstrip().endswith('&'):
            return set()
        for (f, c) in idx.callers(fn):
            args = c.get('args', [])
            if pidx[0] < len(args) and args[pidx[0]] is not None:
                out |= stat_fields(fb, idx, f, args[pidx[0]], record_q, depth + 1, seen)
        return out
    ent = local_decl(fn, d)
    if ent is None:
        # captured variable of an enclosing function
        o = outer_fn(fb, fn)
        if o is not None:
            return _var_fields(fb, idx, o, d, record_q, depth + 1, seen)
        return set()
    decl, v = ent
    if v['tC'].rstrip().endswith('&') and isinstance(v.get('init'), int):
        return stat_fields(fb, idx, fn, v['init'], record_q, depth + 1, seen)
    # a local counter: follow it when the function returns it
    returned = False
    for n in fn.all_nodes():
        if n.get('k') == 'return' and 'sub' in n:
            s = fn.sn(n['sub'])
            hops = 0
            while s is not None and s.get('k') in ('cast', 'construct') and hops < 4:
                s = fn.sn(s.get('sub', (s.get('args') or [None])[0]))
                hops += 1
            if s is not None and s.get('k') == 'var' and s.get('d') == d:
                returned = True
    if returned:
        out |= _result_fields(fb, idx, fn, record_q, depth + 1, seen)
    # ... or copies it into something else (`stats.x = local;`, `stats.x += local;`)
    for n in fn.all_nodes():
        if n.get('k') == 'assign' and n.get('op') in ('=', '+='):
            r = fn.sn(n['rhs'])
            hops = 0
            while r is not None and r.get('k') == 'cast' and hops < 4:
                r = fn.sn(r.get('sub'))
                hops += 1
            if r is not None and r.get('k') == 'var' and r.get('d') == d:
                out |= stat_fields(fb, idx, fn, n['lhs'], record_q, depth + 1, seen)
    return out


def _result_fields(fb, idx, g, record_q, depth, seen):
    """Statistics fields that receive the return value of g at its call sites (assignment, +=, returned further)."""
    if depth > 6:
        return set()
    out = set()
    host = g
    if g.is_lambda:
        return out
    for (f, c) in idx.callers(host):
        pm = f.parent_map()
        x = c['id']
        hops = 0
        while x in pm and hops < 10:
            p = f.nodes[pm[x]]
            hops += 1
            k = p.get('k')
            if k in ('wrap', 'icast', 'cast') or (k == 'construct' and (p.get('elidable') or p.get('copymove'))):
                x = p['id']
                continue
            if k == 'assign' and p.get('rhs') == x and p.get('op') in ('=', '+='):
                out |= stat_fields(fb, idx, f, p['lhs'], record_q, depth + 1, seen)
            elif k == 'return':
                out |= _result_fields(fb, idx, f, record_q, depth + 1, seen)
            elif k == 'decl':
                for v in p['vars']:
                    if v.get('init') == x:
                        out |= _var_fields(fb, idx, f, v['d'], record_q, depth + 1, seen)
            break
    return out


# ====================================================================================================== guard regions

def guard_set(fn, nid):
    """{(canonical condition text, sense)} of the atomic conditions that must hold for nid to execute, plus the set of
    those that are loop conditions."""
    out, loops = set(), set()
    for (c, sense, b) in guards_of(fn, nid):
        n = fn.sn(c)
        if n is not None and ((n.get('k') == 'binop' and n.get('op') in ('&&', '||')) or (n.get('k') == 'unop' and n.get('op') == '!')):
            if (n.get('k') == 'unop') or (n['op'] == '&&' and sense) or (n['op'] == '||' and not sense):
                continue        # the expansion (flow._expand) lists the parts
        key = (fn.expr(c), bool(sense))
        out.add(key)
        if fn.blocks[b].get('termcls') in ('ForStmt', 'WhileStmt', 'CXXForRangeStmt', 'DoStmt'):
            loops.add(key)
    return out, loops


# ====================================================================================================== SymExec

class Unsupported(Exception):
    """The interpreter met a construct it does not model: the rule must report analysis-broken (never a verdict)."""


class Unknown(object):
    def __repr__(self):
        return '<unknown>'


UNK = Unknown()


class Poly(object):
    """Integer polynomial over symbol names (immutable)."""
    __slots__ = ('t',)

    def __init__(self, terms):
        self.t = {k: v for k, v in terms.items() if v != 0}

    @staticmethod
    def const(c):
        return Poly({(): int(c)})

    @staticmethod
    def sym(s):
        return Poly({(s,): 1})

    def __add__(self, o):
        t = dict(self.t)
        for k, v in o.t.items():
            t[k] = t.get(k, 0) + v
        return Poly(t)

    def __neg__(self):
        return Poly({k: -v for k, v in self.t.items()})

    def __sub__(self, o):
        return self + (-o)

    def __mul__(self, o):
        t = {}
        for k1, v1 in self.t.items():
            for k2, v2 in o.t.items():
                k = tuple(sorted(k1 + k2))
                t[k] = t.get(k, 0) + v1 * v2
        return Poly(t)

    def constant(self):
        if not self.t:
            return 0
        if list(self.t) == [()]:
            return self.t[()]
        return None

    def symbol(self):
        if len(self.t) == 1:
            (k, v), = self.t.items()
            if len(k) == 1 and v == 1:
                return k[0]
        return None

    def subst(self, rep):
        """rep: symbol -> symbol name | int."""
        out = Poly({})
        for k, v in self.t.items():
            m = Poly.const(v)
            for s in k:
                r = rep.get(s, s)
                m = m * (Poly.const(r) if isinstance(r, int) else Poly.sym(r))
            out = out + m
        return out

    def __repr__(self):
        if not self.t:
            return '0'
        return ' + '.join('%s%s' % ('' if v == 1 and k else str(v) + ('*' if k else ''), '*'.join(k)) for k, v in sorted(self.t.items()))


class Obj(object):
    """A record value: type name + field values."""
    __slots__ = ('type', 'f')

    def __init__(self, type_q, fields=None):
        self.type, self.f = type_q, dict(fields or {})

    def __repr__(self):
        return '<%s %r>' % (self.type, self.f)


def _plain(t):
    t = (t or '').strip()
    for pre in ('const ', 'volatile '):
        while t.startswith(pre):
            t = t[len(pre):]
    while t.endswith('&') or t.endswith('*') or t.endswith(' const'):
        t = t[:-1].strip() if t[-1] in '&*' else t[:-6].strip()
    return t


_INT_TYPES = {'char', 'signed char', 'unsigned char', 'short', 'unsigned short', 'int', 'unsigned int', 'long', 'unsigned long',
              'long long', 'unsigned long long'}


def symbolic(fb, type_q, prefix, depth=0):
    """A fully symbolic value of record type type_q: integer fields become symbols `<prefix>.<field>`."""
    rec = fb.record(_plain(type_q))
    if rec is None or depth > 5:
        return UNK
    o = Obj(rec.q)
    for f in rec.fields:
        t = f['tC']
        if '*' in t or '&' in t:
            o.f[f['name']] = UNK
        elif _plain(t) in _INT_TYPES:
            o.f[f['name']] = Poly.sym('%s.%s' % (prefix, f['name']))
        elif _plain(t) == 'bool':
            o.f[f['name']] = UNK
        else:
            o.f[f['name']] = symbolic(fb, t, '%s.%s' % (prefix, f['name']), depth + 1)
    return o


class SymExec(object):
    """Interpreter for side-effect free code over one order-type world."""

    def __init__(self, fb, world, max_depth=12):
        self.fb, self.world, self.max_depth = fb, world, max_depth
        self._rep = None

    # ------------------------------------------------------------------ deciding comparisons
    def rep(self):
        """symbol -> representative (symbols on the same level of the world are equal; a level with a constant is it)."""
        if self._rep is None:
            rep = {}
            for (levels, _w) in self.world.groups:
                for lv in levels:
                    cs = [t for t in lv if isinstance(t, int)]
                    syms = sorted(t for t in lv if not isinstance(t, int))
                    r = cs[0] if cs else (syms[0] if syms else None)
                    for s in syms:
                        rep[s] = r
            self._rep = rep
        return self._rep

    def sign(self, p):
        """Sign of polynomial p in this world: -1 / 0 / 1 or None."""
        p = p.subst(self.rep())
        c = p.constant()
        if c is not None:
            return (c > 0) - (c < 0)
        items = sorted(p.t.items())
        try:
            if len(items) == 2 and all(len(k) == 1 for k, _v in items) and items[0][1] == -items[1][1]:
                (k1, v1), (k2, _v2) = items
                s = self.world._sign(k1[0], k2[0])
                return s * ((v1 > 0) - (v1 < 0))
            if len(items) == 2 and items[0][0] == () and len(items[1][0]) == 1 and abs(items[1][1]) == 1:
                # s*x + c  : compare x with -c/s
                c0, s = items[0][1], items[1][1]
                sg = self.world._sign(items[1][0][0], -c0 * s)
                return sg * s
            if len(items) == 1 and len(items[0][0]) == 1:
                sg = self.world._sign(items[0][0][0], 0)
                return sg * ((items[0][1] > 0) - (items[0][1] < 0))
        except Inexact:
            return None
        return None

    def compare(self, op, a, b):
        if not isinstance(a, Poly) or not isinstance(b, Poly):
            return None
        s = self.sign(a - b)
        if s is None:
            return None
        return {'<': s < 0, '<=': s <= 0, '>': s > 0, '>=': s >= 0, '==': s == 0, '!=': s != 0}[op]

    # ------------------------------------------------------------------ functions
    def call(self, g, this, args, depth=0):
        if depth > self.max_depth:
            raise Unsupported('call nesting too deep at %s' % g.q)
        env = {'this': this}
        for p, a in zip(g.params, args):
            env[p['d']] = a
        if g.kind == 'ctor':
            for n in sorted(g.all_nodes(), key=lambda n: n['id']):
                if n.get('k') == 'init':
                    if 'name' not in n or n.get('init') is None:
                        raise Unsupported('base-class initialiser in %s' % g.q)
                    this.f[n['name']] = self.ev(g, n['init'], env, depth)
            return this
        return self._run(g, env, depth)

    def _run(self, g, env, depth):
        pm = g.parent_map()
        bid, steps = g.entry, 0
        while True:
            steps += 1
            if steps > 400:
                raise Unsupported('%s: step bound exceeded (loop)' % g.q)
            blk = g.blocks[bid]
            for e in blk['elems']:
                if e in pm:
                    continue
                n = g.nodes[e]
                k = n.get('k')
                if k == 'return':
                    return self.ev(g, n['sub'], env, depth) if 'sub' in n else None
                if k == 'decl':
                    for v in n['vars']:
                        env[v['d']] = self.ev(g, v['init'], env, depth) if isinstance(v.get('init'), int) else UNK
                elif k in ('autodtor', 'init'):
                    continue
                elif k in ('assign', 'throw', 'new', 'delete') or (k == 'unop' and n.get('op') in ('++', '--')):
                    raise Unsupported('%s: statement with an effect: %s' % (g.q, g.expr(e)[:60]))
                # other expression statements (debug output ...) have no value we need
            succs = blk['succs']
            if bid == g.exit or not succs:
                return None
            if 'cond' in blk and len(succs) == 2:
                c = self.truth(self.ev(g, blk['cond'], env, depth))
                if c is None:
                    return UNK          # the path depends on something the world does not decide
                nxt = succs[0 if c else 1]
                if nxt is None:
                    raise Unsupported('%s: pruned edge taken' % g.q)
            elif len(succs) == 1:
                nxt = succs[0]
            else:
                raise Unsupported('%s: multi-way branch' % g.q)
            bid = nxt

    @staticmethod
    def truth(v):
        if v is True or v is False:
            return v
        if isinstance(v, Poly):
            c = v.constant()
            return None if c is None else (c != 0)
        return None

    # ------------------------------------------------------------------ expressions
    def ev(self, g, nid, env, depth=0):
        if nid is None or nid not in g.nodes:
            return UNK
        n = g.nodes[nid]
        k = n.get('k')
        if k == 'wrap':
            return self.ev(g, n['sub'], env, depth) if 'sub' in n else UNK
        if k in ('icast', 'cast'):
            ck = n.get('ck', '')
            if 'Floating' in ck:
                return UNK
            v = self.ev(g, n['sub'], env, depth)
            if ck == 'IntegralToBoolean' and isinstance(v, Poly):
                s = self.sign(v)
                return None if s is None else (s != 0)
            return v
        if k == 'lit':
            if n.get('float') or 'str' in n or n.get('null'):
                return UNK
            if 'cv' in n:
                return (int(n['cv']) != 0) if _plain(n.get('t')) == 'bool' else Poly.const(int(n['cv']))
            return UNK
        if k == 'var':
            if n.get('d') in env:
                return env[n['d']]
            if 'cv' in n:
                return Poly.const(int(n['cv']))
            lz = env.get('__lazy__')
            if lz is not None:
                return lz(n['d'])
            return UNK
        if k == 'this':
            return env.get('this', UNK)
        if k == 'member':
            if n.get('field'):
                b = self.ev(g, n['base'], env, depth)
                if isinstance(b, Obj):
                    return b.f.get(n['name'], UNK)
                return UNK
            return UNK
        if k == 'unop':
            op = n['op']
            v = self.ev(g, n['sub'], env, depth)
            if op == '!':
                t = self.truth(v) if not isinstance(v, Poly) else (None if self.sign(v) is None else self.sign(v) != 0)
                return None if t is None else (not t)
            if op == '-':
                return -v if isinstance(v, Poly) else UNK
            if op == '+' or op in ('*', '&'):
                return v
            raise Unsupported('%s: unary %s' % (g.q, op))
        if k == 'binop':
            return self._binop(g, n, env, depth)
        if k == 'condop':
            c = self.truth(self.ev(g, n['cond'], env, depth))
            if c is None:
                return UNK
            return self.ev(g, n['then'] if c else n['else'], env, depth)
        if k == 'construct':
            return self._construct(g, n, env, depth)
        if k == 'call':
            return self._call(g, n, env, depth)
        if 'cv' in n:
            return Poly.const(int(n['cv']))
        return UNK

    def _binop(self, g, n, env, depth):
        op = n['op']
        if op in ('&&', '||'):
            a = self.truth(self._as_bool(self.ev(g, n['lhs'], env, depth)))
            if op == '&&' and a is False:
                return False
            if op == '||' and a is True:
                return True
            b = self.truth(self._as_bool(self.ev(g, n['rhs'], env, depth)))
            if op == '&&':
                if b is False:
                    return False
                return True if (a is True and b is True) else None
            if b is True:
                return True
            return False if (a is False and b is False) else None
        a, b = self.ev(g, n['lhs'], env, depth), self.ev(g, n['rhs'], env, depth)
        if op in ('<', '<=', '>', '>=', '==', '!='):
            if isinstance(a, bool) and isinstance(b, bool):
                return {'==': a == b, '!=': a != b}.get(op)
            return self.compare(op, a, b)
        if isinstance(a, Poly) and isinstance(b, Poly):
            if op == '+':
                return a + b
            if op == '-':
                return a - b
            if op == '*':
                return a * b
        return UNK

    def _as_bool(self, v):
        if isinstance(v, Poly):
            s = self.sign(v)
            return None if s is None else (s != 0)
        return v

    def _construct(self, g, n, env, depth):
        args = [a for a in n.get('args', []) if a is not None]
        if (n.get('elidable') or n.get('copymove')) and len(args) == 1:
            return self.ev(g, args[0], env, depth)
        q = n.get('q', '')
        if q == 'std::pair::(ctor)':
            vals = [self.ev(g, a, env, depth) for a in args]
            if len(vals) == 1 and isinstance(vals[0], Obj) and vals[0].type == 'std::pair':
                return vals[0]
            if len(vals) == 2:
                return Obj('std::pair', {'first': vals[0], 'second': vals[1]})
            return UNK
        bodies = callee_bodies(self.fb, n)
        if not bodies:
            return UNK
        c = bodies[0]
        vals = [self.ev(g, a, env, depth) for a in n.get('args', [])]
        o = Obj(c.cls or q.rsplit('::', 1)[0])
        rec = self.fb.record(o.type)
        if rec is not None:
            for f in rec.fields:
                o.f[f['name']] = UNK
        return self.call(c, o, vals, depth + 1)

    def _call(self, g, n, env, depth):
        q = n.get('q', '')
        args = n.get('args', [])
        if q in ('std::minmax', 'std::min', 'std::max') and len(args) == 2:
            a, b = self.ev(g, args[0], env, depth), self.ev(g, args[1], env, depth)
            lt = self.compare('<', b, a)
            if lt is None:
                return UNK
            lo, hi = (b, a) if lt else (a, b)
            if q == 'std::minmax':
                return Obj('std::pair', {'first': lo, 'second': hi})
            return lo if q == 'std::min' else hi
        if q in ('std::move', 'std::forward') and args:
            return self.ev(g, args[0], env, depth)
        bodies = callee_bodies(self.fb, n)
        if not bodies:
            if n.get('op') in ('*', '->') and n.get('recv') is not None and not [a for a in args if a is not None]:
                return self.ev(g, n['recv'], env, depth)      # dereferencing an iterator / smart pointer: the object it stands for
            return UNK
        c = bodies[0]
        this = self.ev(g, n['recv'], env, depth) if n.get('recv') is not None else None
        vals = [self.ev(g, a, env, depth) for a in args]
        if n.get('recv') is not None and 'op' in n and c.cls is None:
            vals = [this] + vals
            this = None
        if c.cls and not c.static and not isinstance(this, Obj):
            return UNK
        return self.call(c, this, vals, depth + 1)


def lazy_env(se, fn, base):
    """Environment for evaluating expressions in the middle of fn: the variables of `base` are bound, every other local is
    evaluated on demand from its initialiser (in the same environment)."""
    memo = {}
    env = dict(base)

    def lazy(d):
        if d in memo:
            return memo[d]
        ent = local_decl(fn, d)
        memo[d] = UNK
        if ent is not None and isinstance(ent[1].get('init'), int):
            try:
                memo[d] = se.ev(fn, ent[1]['init'], env)
            except Unsupported:
                memo[d] = UNK
        return memo[d]
    env['__lazy__'] = lazy
    return env


def pretty(text):
    """Shorten the symbol names `<seg>.m_first.m_location.m_x` of a world description for reports."""
    return text.replace('.m_location.m_', '.').replace('.m_first', '.first').replace('.m_second', '.second')


def product_worlds(groups_syms, domain, prune=None):
    """Worlds over independent symbol groups (e.g. x coordinates, y coordinates); `prune(group index, world)` may reject
    an ordering of one group before the product is formed."""
    per = []
    for gi, syms in enumerate(groups_syms):
        ws = list(worlds({s: domain for s in syms}, ()))
        if prune is not None:
            ws = [w for w in ws if prune(gi, w)]
        per.append(ws)

    def rec(i, acc):
        if i == len(per):
            yield World(list(acc), ())
            return
        for w in per[i]:
            for x in rec(i + 1, acc + w.groups):
                yield x
    return rec(0, [])
