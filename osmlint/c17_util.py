"""Helpers shared by the C17 (geometry export) and C18 (mercator / tiles) rule modules.  No rule logic about a particular
function lives here: expression peeling, writes to variables / fields, straight-line path enumeration, a small bounded
integer-delta dataflow, branch pruning over a tiny abstract value domain, and a constant folder for floating literals."""
from collections import deque

from .flow import forward_may


# ------------------------------------------------------------------------------------------------ expressions

def peel(fn, nid, explicit_noop=False):
    """Strip parens / cleanups / implicit casts and copy / move / elidable constructions of one argument."""
    hops = 0
    while nid is not None and nid in fn.nodes and hops < 64:
        hops += 1
        n = fn.nodes[nid]
        k = n.get('k')
        if k in ('wrap', 'icast') and 'sub' in n:
            nid = n['sub']
        elif k == 'construct' and len(n.get('args', [])) == 1 and (n.get('elidable') or n.get('copymove')):
            nid = n['args'][0]
        elif k == 'call' and n.get('q') in ('std::move', 'std::forward') and len(n.get('args', [])) == 1:
            nid = n['args'][0]
        elif explicit_noop and k == 'cast' and n.get('ck') == 'NoOp' and 'sub' in n:
            nid = n['sub']
        else:
            break
    return nid


def pn(fn, nid, **kw):
    x = peel(fn, nid, **kw)
    return fn.nodes.get(x) if x is not None else None


def this_field(fn, nid):
    """name of the this-member (field) the peeled expression denotes, else None."""
    n = pn(fn, nid)
    if n is not None and n.get('k') == 'member' and n.get('field') and fn.is_this_member(n['id']):
        return n['name']
    return None


def local_or_param(fn, nid):
    """decl id if the peeled expression is a plain local / parameter reference, else None."""
    n = pn(fn, nid)
    if n is not None and n.get('k') == 'var' and n.get('vk') in ('local', 'param'):
        return n['d']
    return None


def param_index(fn, d):
    for i, p in enumerate(fn.params):
        if p['d'] == d:
            return i
    return None


def recv_field(fn, n):
    if n.get('recv') is None:
        return None
    return this_field(fn, n['recv'])


def is_this(fn, nid):
    n = pn(fn, nid)
    return n is not None and n.get('k') == 'this'


def short(q):
    return q.rsplit('::', 1)[-1]


def lvalue_key(fn, nid):
    """('var', d) / ('field', name) for a peeled lvalue, else None."""
    n = pn(fn, nid)
    if n is None:
        return None
    if n.get('k') == 'var' and n.get('vk') in ('local', 'param'):
        return ('var', n['d'])
    if n.get('k') == 'member' and n.get('field') and fn.is_this_member(n['id']):
        return ('field', n['name'])
    return None


def writes(fn):
    """Every syntactic write in the body: [(node, lvalue key, kind, rhs id|None)] with kind in
    'assign' (plain =), 'compound' (op=), 'inc', 'dec', 'opassign' (class operator=), 'addr' (address taken / bound to a
    non-const reference parameter is NOT detected here; see escapes())."""
    out = []
    for n in fn.all_nodes():
        k = n.get('k')
        if k == 'assign':
            key = lvalue_key(fn, n['lhs'])
            if key is not None:
                out.append((n, key, 'assign' if n.get('op') == '=' else 'compound', n['rhs']))
        elif k == 'unop' and n.get('op') in ('++', '--'):
            key = lvalue_key(fn, n['sub'])
            if key is not None:
                out.append((n, key, 'inc' if n['op'] == '++' else 'dec', None))
        elif k == 'call' and n.get('op') in ('=', '+=', '-=', '++', '--') and n.get('q', '').split('::')[-1].startswith('operator'):
            tgt = n.get('recv') if n.get('recv') is not None else (n.get('args') or [None])[0]
            key = lvalue_key(fn, tgt) if tgt is not None else None
            if key is not None:
                if n['op'] == '=':
                    rhs = (n.get('args') or [None])[-1]
                    out.append((n, key, 'opassign', rhs))
                elif n['op'] in ('++', '--'):
                    out.append((n, key, 'inc' if n['op'] == '++' else 'dec', None))
                else:
                    out.append((n, key, 'compound', (n.get('args') or [None])[-1]))
    return out


def address_taken(fn, key):
    """The variable / field has its address taken (&v) somewhere in the body."""
    for n in fn.all_nodes():
        if n.get('k') == 'unop' and n.get('op') == '&' and lvalue_key(fn, n['sub']) == key:
            return True
    return False


def decl_of(fn, d):
    """(decl node, var entry) of a local."""
    for n in fn.all_nodes():
        if n.get('k') == 'decl':
            for v in n['vars']:
                if v['d'] == d:
                    return n, v
    return None, None


def char_of(fn, nid):
    """Character denoted by a (peeled) character / small integer constant, else None."""
    v = fn.const_value(nid)
    if v is None:
        n = pn(fn, nid)
        if n is not None and 'cv' in n:
            try:
                v = int(n['cv'])
            except ValueError:
                return None
    if v is None or not (0 <= v < 256):
        return None
    return chr(v)


def string_of(fn, nid):
    """String literal denoted by the peeled expression (also through a std::string construction from a literal)."""
    n = pn(fn, nid)
    hops = 0
    while n is not None and hops < 6:
        hops += 1
        if n.get('k') == 'lit' and 'str' in n:
            return n['str']
        if n.get('k') == 'construct' and n.get('q', '').startswith('std::basic_string::') and n.get('args'):
            n = pn(fn, n['args'][0])
            continue
        break
    return None


# ------------------------------------------------------------------------------------------------ CFG

def is_abort_block(fn, bid):
    """Block ends the program (assert failure / abort / terminate): not a normal path."""
    for e in fn.blocks[bid]['elems']:
        n = fn.nodes[e]
        if n.get('k') == 'call' and (n.get('q') or n.get('name') or '') in ('__assert_fail', 'abort', 'std::abort', 'std::terminate', '__assert'):
            return True
    return False


def block_throws(fn, bid):
    return any(fn.nodes[e].get('k') == 'throw' for e in fn.blocks[bid]['elems'])


def normal_paths(fn, limit=64):
    """All acyclic entry->exit block paths that do not end in a throw or an abort block; None when the body has a loop
    or more than `limit` paths (unknown shape for straight-line extraction)."""
    if fn.loops:
        return None
    out = []
    stack = [(fn.entry, [fn.entry])]
    while stack:
        b, path = stack.pop()
        if b == fn.exit:
            out.append(path)
            if len(out) > limit:
                return None
            continue
        if is_abort_block(fn, b) or block_throws(fn, b):
            continue
        for s in fn.blocks[b]['succs']:
            if s is None:
                continue
            if s in path:
                return None
            stack.append((s, path + [s]))
    return out


def path_elems(fn, path):
    out = []
    for b in path:
        out.extend(fn.blocks[b]['elems'])
    return out


def exit_t(e):
    return isinstance(e, tuple) and e[0] == 'exit'


def delta_states(fn, weight, clip=3):
    """Forward may-analysis of an integer that starts at 0 and changes by weight(node) at every CFG element; values are
    saturated at +-clip.  Returns {element id: frozenset of possible values before the element}."""
    def transfer(st, n):
        w = weight(n)
        if not w:
            return st
        return frozenset(max(-clip, min(clip, v + w)) for v in st)
    return forward_may(fn, transfer, frozenset([0]))


def loop_of(fn, nid):
    ls = [l for l in fn.loops if fn.in_range(nid, l['b'], l['e'])]
    ls.sort(key=lambda l: l['e'] - l['b'])
    return ls[0] if ls else None


def loop_header_block(fn, loop):
    """The block whose terminator is this loop statement (condition block)."""
    for b in fn.blocks.values():
        if b.get('termcls') == loop['cls'] and 'cond' in b and fn.in_range(b['cond'], loop['b'], loop['e']):
            # innermost loop containing the condition must be this one
            if loop_of(fn, b['cond']) is loop or loop_of(fn, b['cond']) == loop:
                return b['id']
    return None


# ------------------------------------------------------------------------------------------------ tiny abstract values

ZERO = ('c', 0)
POS = ('pos',)      # >= 1
TOP = None


def abs_cmp(op, a, k):
    """Truth of (a op k) for abstract a in {('c', v), POS, TOP} and integer k: True / False / None (unknown)."""
    if a is TOP:
        return None
    if a[0] == 'c':
        v = a[1]
        return {'<': v < k, '<=': v <= k, '>': v > k, '>=': v >= k, '==': v == k, '!=': v != k}[op]
    # POS: v >= 1
    if op == '>':
        return True if k <= 0 else None
    if op == '>=':
        return True if k <= 1 else None
    if op == '<':
        return False if k <= 1 else None
    if op == '<=':
        return False if k <= 0 else None
    if op == '==':
        return False if k <= 0 else None
    if op == '!=':
        return True if k <= 0 else None
    return None


_FLIP = {'<': '>', '<=': '>=', '>': '<', '>=': '<=', '==': '==', '!=': '!='}


def abs_cond(fn, cond, env):
    """Evaluate a branch condition over env {decl id: abstract value}; None when it does not depend only on them."""
    n = pn(fn, cond)
    if n is None:
        return None
    k = n.get('k')
    if k == 'unop' and n.get('op') == '!':
        r = abs_cond(fn, n['sub'], env)
        return None if r is None else (not r)
    if k == 'binop' and n.get('op') in ('&&', '||'):
        a, b = abs_cond(fn, n['lhs'], env), abs_cond(fn, n['rhs'], env)
        if n['op'] == '&&':
            if a is False or b is False:
                return False
            return True if (a is True and b is True) else None
        if a is True or b is True:
            return True
        return False if (a is False and b is False) else None
    if k == 'binop' and n.get('op') in _FLIP:
        ld, rd = local_or_param(fn, n['lhs']), local_or_param(fn, n['rhs'])
        lc, rc = fn.const_value(n['lhs']), fn.const_value(n['rhs'])
        if ld is not None and ld in env and rc is not None:
            return abs_cmp(n['op'], env[ld], rc)
        if rd is not None and rd in env and lc is not None:
            return abs_cmp(_FLIP[n['op']], env[rd], lc)
        return None
    if k == 'var':
        d = local_or_param(fn, cond)
        if d in env:
            return abs_cmp('!=', env[d], 0)
    return None


# ------------------------------------------------------------------------------------------------ float constants

def float_value(fn, nid, fb=None, depth=0):
    """Value of a floating / integer constant expression built from literals, constexpr globals (fb.global_const) and
    + - * / (as written in the source: an expression tree over constants, folded here with Python doubles, which are the
    same IEEE-754 binary64 operations the compiler performs).  None if anything else occurs."""
    if depth > 40:
        return None
    n = pn(fn, nid)
    if n is None:
        return None
    k = n.get('k')
    if 'cv' in n and k in ('lit', 'var', 'cast', 'sizeof', 'call', 'binop', 'unop'):
        try:
            return float(n['cv'])
        except ValueError:
            pass
    if k == 'lit' and 'cv' in n:
        try:
            return float(n['cv'])
        except ValueError:
            return None
    if k == 'var' and n.get('vk') in ('global', 'static_member') and fb is not None:
        g = fb.global_const(n.get('q'))
        if g is not None and 'cv' in g:
            try:
                return float(g['cv'])
            except ValueError:
                return None
        return None
    if k == 'cast':
        return float_value(fn, n['sub'], fb, depth + 1)
    if k == 'unop' and n.get('op') in ('-', '+'):
        v = float_value(fn, n['sub'], fb, depth + 1)
        return None if v is None else (-v if n['op'] == '-' else v)
    if k == 'binop' and n.get('op') in ('+', '-', '*', '/'):
        a, b = float_value(fn, n['lhs'], fb, depth + 1), float_value(fn, n['rhs'], fb, depth + 1)
        if a is None or b is None:
            return None
        if n['op'] == '+':
            return a + b
        if n['op'] == '-':
            return a - b
        if n['op'] == '*':
            return a * b
        return a / b if b != 0 else None
    return None


def bfs_states(start, step):
    """Generic worklist exploration: step(state) -> iterable of successor states; returns the set of visited states."""
    seen = {start}
    dq = deque([start])
    while dq:
        s = dq.popleft()
        for t in step(s):
            if t not in seen:
                seen.add(t)
                dq.append(t)
    return seen
