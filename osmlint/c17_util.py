"""Helpers shared by the C17 (geometry export) and C18 (mercator / tiles) rule modules.  No rule logic about a particular
function lives here: expression peeling, writes to variables / fields, straight-line path enumeration, a small bounded
integer-delta dataflow, branch pruning over a tiny abstract value domain, and a constant folder for floating literals."""
from collections import deque

from .flow import forward_may


# ------------------------------------------------------------------------------------------------ expressions

def peel(fn, nid, explicit_noop=False):
    """Strip parens / cleanups / implicit casts and copy / move / elidable constructions of one argument."""
    hops = 0
    while nid is not None and nid in fn.nodes and hops < 64:
        hops += 1
        n = fn.nodes[nid]
        k = n.get('k')
        if k in ('wrap', 'icast') and 'sub' in n:
            nid = n['sub']
        elif k == 'construct' and len(n.get('args', [])) == 1 and (n.get('elidable') or n.get('copymove')):
            nid = n['args'][0]
        elif k == 'call' and n.get('q') in ('std::move', 'std::forward') and len(n.get('args', [])) == 1:
            nid = n['args'][0]
        elif explicit_noop and k == 'cast' and n.get('ck') == 'NoOp' and 'sub' in n:
            nid = n['sub']
        else:
            break
    return nid


def pn(fn, nid, **kw):
    x = peel(fn, nid, **kw)
    return fn.nodes.get(x) if x is not None else None


def this_field(fn, nid):
    """name of the this-member (field) the peeled expression denotes, else None."""
    n = pn(fn, nid)
    if n is not None and n.get('k') == 'member' and n.get('field') and fn.is_this_member(n['id']):
        return n['name']
    return None


def local_or_param(fn, nid):
    """decl id if the peeled expression is a plain local / parameter reference, else None."""
    n = pn(fn, nid)
    if n is not None and n.get('k') == 'var' and n.get('vk') in ('local', 'param'):
        return n['d']
    return None


def param_index(fn, d):
    for i, p in enumerate(fn.params):
        if p['d'] == d:
            return i
    return None


def recv_field(fn, n):
    if n.get('recv') is None:
        return None
    return this_field(fn, n['recv'])


def is_this(fn, nid):
    n = pn(fn, nid)
    return n is not None and n.get('k') == 'this'


def short(q):
    return q.rsplit('::', 1)[-1]


def lvalue_key(fn, nid):
    """('var', d) / ('field', name) for a peeled lvalue, else None."""
    n = pn(fn, nid)
    if n is None:
        return None
    if n.get('k') == 'var' and n.get('vk') in ('local', 'param'):
        return ('var', n['d'])
    if n.get('k') == 'member' and n.get('field') and fn.is_this_member(n['id']):
        return ('field', n['name'])
    return None


def writes(fn):
    """Every syntactic write in the body: [(node, lvalue key, kind, rhs id|None)] with kind in
    'assign' (plain =), 'compound' (op=), 'inc', 'dec', 'opassign' (class operator=), 'addr' (address taken / bound to a
    non-const reference parameter is NOT detected here; see escapes())."""
    out = []
    for n in fn.all_nodes():
        k = n.get('k')
        if k == 'assign':
            key = lvalue_key(fn, n['lhs'])
            if key is not None:
                out.append((n, key, 'assign' if n.get('op') == '=' else 'compound', n['rhs']))
        elif k == 'unop' and n.get('op') in ('++', '--'):
            key = lvalue_key(fn, n['sub'])
            if key is not None:
                out.append((n, key, 'inc' if n['op'] == '++' else 'dec', None))
        elif k == 'call' and n.get('op') in ('=', '+=', '-=', '++', '--') and n.get('q', '').split('::')[-1].startswith('operator'):
            tgt = n.get('recv') if n.get('recv') is not None else (n.get('args') or [None])[0]
            key = lvalue_key(fn, tgt) if tgt is not None else None
            if key is not None:
                if n['op'] == '=':
                    rhs = (n.get('args') or [None])[-1]
                    out.append((n, key, 'opassign', rhs))
                elif n['op'] in ('++', '--'):
                    out.append((n, key, 'inc' if n['op'] == '++' else 'dec', None))
                else:
                    out.append((n, key, 'compound', (n.get('args') or [None])[-1]))
    return out


def address_taken(fn, key):
    """The variable / field has its address taken (&v) somewhere in the body."""
    for n in fn.all_nodes():
        if n.get('k') == 'unop' and n.get('op') == '&' and lvalue_key(fn, n['sub']) == key:
            return True
    return False


def decl_of(fn, d):
    """(decl node, var entry) of a local."""
    for n in fn.all_nodes():
        if n.get('k') == 'decl':
            for v in n['vars']:
                if v['d'] == d:
                    return n, v
    return None, None


def char_of(fn, nid):
    """Character denoted by a (peeled) character / small integer constant, else None."""
    v = fn.const_value(nid)
    if v is None:
        n = pn(fn, nid)
        if n is not None and 'cv' in n:
            try:
                v = int(n['cv'])
            except ValueError:
                return None
    if v is None or not (0 <= v < 256):
        return None
    return chr(v)


def string_of(fn, nid):
    """String literal denoted by the peeled expression (also through a std::string construction from a literal)."""
    n = pn(fn, nid)
    hops = 0
    while n is not None and hops < 6:
        hops += 1
        if n.get('k') == 'lit' and 'str' in n:
            return n['str']
        if n.get('k') == 'construct' and n.get('q', '').startswith('std::basic_string::') and n.get('args'):
            n = pn(fn, n['args'][0])
            continue
        break
    return None


# ------------------------------------------------------------------------------------------------ CFG

def is_abort_block(fn, bid):
    """Block ends the program (assert failure / abort / terminate): not a normal path."""
    for e in fn.blocks[bid]['elems']:
        n = fn.nodes[e]
        if n.get('k') == 'call' and (n.get('q') or n.get('name') or '') in ('__assert_fail', 'abort', 'std::abort', 'std::terminate', '__assert'):
            return True
    return False


def block_throws(fn, bid):
    return any(fn.nodes[e].get('k') == 'throw' for e in fn.blocks[bid]['elems'])


def exit_t(e):
    return isinstance(e, tuple) and e[0] == 'exit'


def delta_states(fn, weight, clip=3):
    """Forward may-analysis of an integer that starts at 0 and changes by weight(node) at every CFG element; values are
    saturated at +-clip.  Returns {element id: frozenset of possible values before the element}."""
    def transfer(st, n):
        w = weight(n)
        if not w:
            return st
        return frozenset(max(-clip, min(clip, v + w)) for v in st)
    return forward_may(fn, transfer, frozenset([0]))


def loop_of(fn, nid):
    ls = [l for l in fn.loops if fn.in_range(nid, l['b'], l['e'])]
    ls.sort(key=lambda l: l['e'] - l['b'])
    return ls[0] if ls else None


def loop_header_block(fn, loop):
    """The block whose terminator is this loop statement (condition block)."""
    for b in fn.blocks.values():
        if b.get('termcls') == loop['cls'] and 'cond' in b and fn.in_range(b['cond'], loop['b'], loop['e']):
            # innermost loop containing the condition must be this one
            if loop_of(fn, b['cond']) is loop or loop_of(fn, b['cond']) == loop:
                return b['id']
    return None


# ------------------------------------------------------------------------------------------------ tiny abstract values

ZERO = ('c', 0)
POS = ('pos',)      # >= 1
TOP = None


def abs_cmp(op, a, k):
    """Truth of (a op k) for abstract a in {('c', v), POS, TOP} and integer k: True / False / None (unknown)."""
    if a is TOP:
        return None
    if a[0] == 'c':
        v = a[1]
        return {'<': v < k, '<=': v <= k, '>': v > k, '>=': v >= k, '==': v == k, '!=': v != k}[op]
    # POS: v >= 1
    if op == '>':
        return True if k <= 0 else None
    if op == '>=':
        return True if k <= 1 else None
    if op == '<':
        return False if k <= 1 else None
    if op == '<=':
        return False if k <= 0 else None
    if op == '==':
        return False if k <= 0 else None
    if op == '!=':
        return True if k <= 0 else None
    return None


_FLIP = {'<': '>', '<=': '>=', '>': '<', '>=': '<=', '==': '==', '!=': '!='}


def abs_cond(fn, cond, env):
    """Evaluate a branch condition over env {decl id: abstract value}; None when it does not depend only on them."""
    n = pn(fn, cond)
    if n is None:
        return None
    k = n.get('k')
    if k == 'unop' and n.get('op') == '!':
        r = abs_cond(fn, n['sub'], env)
        return None if r is None else (not r)
    if k == 'binop' and n.get('op') in ('&&', '||'):
        a, b = abs_cond(fn, n['lhs'], env), abs_cond(fn, n['rhs'], env)
        if n['op'] == '&&':
            if a is False or b is False:
                return False
            return True if (a is True and b is True) else None
        if a is True or b is True:
            return True
        return False if (a is False and b is False) else None
    if k == 'binop' and n.get('op') in _FLIP:
        ld, rd = local_or_param(fn, n['lhs']), local_or_param(fn, n['rhs'])
        lc, rc = fn.const_value(n['lhs']), fn.const_value(n['rhs'])
        if ld is not None and ld in env and rc is not None:
            return abs_cmp(n['op'], env[ld], rc)
        if rd is not None and rd in env and lc is not None:
            return abs_cmp(_FLIP[n['op']], env[rd], lc)
        return None
    if k == 'var':
        d = local_or_param(fn, cond)
        if d in env:
            return abs_cmp('!=', env[d], 0)
    return None


# ------------------------------------------------------------------------------------------------ float constants

def float_value(fn, nid, fb=None, depth=0):
    """Value of a floating / integer constant expression built from literals, constexpr globals (fb.global_const) and
    + - * / (as written in the source: an expression tree over constants, folded here with Python doubles, which are the
    same IEEE-754 binary64 operations the compiler performs).  None if anything else occurs."""
    if depth > 40:
        return None
    n = pn(fn, nid)
    if n is None:
        return None
    k = n.get('k')
    if 'cv' in n and k in ('lit', 'var', 'cast', 'sizeof', 'call', 'binop', 'unop'):
        try:
            return float(n['cv'])
        except ValueError:
            pass
    if k == 'lit' and 'cv' in n:
        try:
            return float(n['cv'])
        except ValueError:
            return None
    if k == 'var' and n.get('vk') in ('global', 'static_member') and fb is not None:
        g = fb.global_const(n.get('q'))
        if g is not None and 'cv' in g:
            try:
                return float(g['cv'])
            except ValueError:
                return None
        return None
    if k == 'cast':
        return float_value(fn, n['sub'], fb, depth + 1)
    if k == 'unop' and n.get('op') in ('-', '+'):
        v = float_value(fn, n['sub'], fb, depth + 1)
        return None if v is None else (-v if n['op'] == '-' else v)
    if k == 'binop' and n.get('op') in ('+', '-', '*', '/'):
        a, b = float_value(fn, n['lhs'], fb, depth + 1), float_value(fn, n['rhs'], fb, depth + 1)
        if a is None or b is None:
            return None
        if n['op'] == '+':
            return a + b
        if n['op'] == '-':
            return a - b
        if n['op'] == '*':
            return a * b
        return a / b if b != 0 else None
    return None


# ================================================================================================ value origin

def origin(fn, nid, depth=0):
    """Follow a value through parentheses, implicit and explicit casts and locals that have exactly one definition
    (their initialiser) to the expression that computes it."""
    while nid is not None and nid in fn.nodes and depth < 32:
        depth += 1
        nid = peel(fn, nid)
        n = fn.nodes.get(nid)
        if n is None:
            return None
        if n.get('k') == 'cast' and 'sub' in n:
            nid = n['sub']
            continue
        if n.get('k') == 'var' and n.get('vk') == 'local':
            dn, dv = decl_of(fn, n['d'])
            if dv is not None and isinstance(dv.get('init'), int) and not any(w[1] == ('var', n['d']) for w in writes(fn)) \
                    and not address_taken(fn, ('var', n['d'])):
                nid = dv['init']
                continue
        return nid
    return nid


def onode(fn, nid):
    x = origin(fn, nid)
    return fn.nodes.get(x) if x is not None else None


# ================================================================================================ model interpreter
#
# A small interpreter for the straight C++ subset the geometry back ends are written in.  It walks the CFG facts of a
# method (statements) and the expression trees (values) over ABSTRACT data: strings are lists of tokens (literal characters,
# typed binary fields pushed by str_push, coordinate-pair tokens), coordinates are symbolic tags, numbers are Python ints.
# Calls to functions whose body is in the fact base (private helpers, header(), set_size(), ...) are interpreted
# recursively, so extracting or inlining a helper, naming a sub-expression, early return vs. if/else or ?: make no
# difference.  Nothing of libosmium is executed; the rules compose these abstract transformers over protocol sequences.

class ModelUnknown(Exception):
    """The code uses a construct the model does not cover (=> analysis-broken, never a verdict)."""


class ModelError(Exception):
    """The modelled code does something wrong in the abstract run (patch outside a field, back() on empty string, ...)."""


class ModelThrow(Exception):
    def __init__(self, tt):
        Exception.__init__(self, 'throws %s' % tt)
        self.tt = tt


class ModelAbort(Exception):
    pass


class _Return(Exception):
    def __init__(self, value):
        Exception.__init__(self)
        self.value = value


class Str:
    """abstract std::string"""
    __slots__ = ('t',)

    def __init__(self, tokens=()):
        self.t = list(tokens)

    def copy(self):
        return Str(self.t)

    def nbytes(self):
        return sum(tok_size(x) for x in self.t)


def tok_size(t):
    if isinstance(t, tuple) and t[0] == 'bin':
        return t[1]
    return 1


class _Moved:
    """xvalue of a string (std::move(s)): the constructor / assignment that consumes it leaves s in an unspecified state"""
    __slots__ = ('s',)

    def __init__(self, s):
        self.s = s

    def take(self):
        out = Str(self.s.t)
        self.s.t = [('MOVED-FROM',)]
        return out


class Obj:
    """abstract object with named fields (the back end instance; a Coordinates argument)"""

    def __init__(self, cls, fields):
        self.cls = cls
        self.f = dict(fields)


class Sym:
    """opaque scalar (a coordinate component, the srid, the precision)"""
    __slots__ = ('name',)

    def __init__(self, name):
        self.name = name

    def __repr__(self):
        return '<%s>' % (self.name,)

    def __eq__(self, o):
        return isinstance(o, Sym) and o.name == self.name

    def __hash__(self):
        return hash(('Sym', self.name))


_SIZES = {'double': 8, 'float': 4, 'unsigned int': 4, 'int': 4, 'unsigned long': 8, 'long': 8, 'unsigned char': 1, 'char': 1,
          'signed char': 1, 'unsigned short': 2, 'short': 2, 'bool': 1}


class Model:
    def __init__(self, fb, enum_sizes=None, max_steps=20000, hooks=None, atomic_points=True, node_values=None):
        self.fb = fb
        self.hooks = hooks or {}
        self.node_values = node_values or {}      # {(id(fn), node id): value}: sub-expressions given as opaque inputs
        self.atomic_points = atomic_points
        self.enum_sizes = enum_sizes or {}
        self.max_steps = max_steps
        self.steps = 0
        self._roots = {}

    # ------------------------------------------------------------------ helpers
    def type_size(self, t):
        t = (t or '').replace('const ', '').strip()
        if t in _SIZES:
            return _SIZES[t]
        e = self.fb.enum(t)
        if e is not None:
            u = self.enum_sizes.get(t)
            if u is not None:
                return u
            vals = [int(x['value']) for x in e['enumerators']]
            return 1 if (vals and max(vals) < 256 and e.get('underlying') in (None,)) else self._enum_underlying(e)
        raise ModelUnknown('size of type %s' % t)

    def _enum_underlying(self, e):
        # the extractor records the builtin kind of the underlying type; fall back on the value range
        vals = [int(x['value']) for x in e['enumerators']]
        tname = e.get('underlying_t') or ''
        if tname in _SIZES:
            return _SIZES[tname]
        return 4 if (not vals or max(vals) >= 256) else 1

    def push_size(self, call, t):
        """bytes appended by one str_push<T> instantiation: the folded count argument of the append in its body (sizeof(T))."""
        for g in self.fb.by_usr.get(call.get('u'), []):
            if not g.has_cfg:
                continue
            for x in g.all_nodes():
                if x.get('k') == 'call' and x.get('q') == 'std::basic_string::append' and len(x.get('args', [])) == 2:
                    c = g.const_value(x['args'][1])
                    if c is not None:
                        return c
        return self.type_size(t)

    def roots(self, fn):
        r = self._roots.get(id(fn))
        if r is None:
            pm = fn.parent_map()
            r = {nid for nid in fn.nodes if nid not in pm}
            self._roots[id(fn)] = r
        return r

    # ------------------------------------------------------------------ calling
    def call(self, fn, this, args):
        if not fn.has_cfg:
            raise ModelUnknown('%s has no body' % fn.q)
        env = {}
        if len(args) > len(fn.params):
            raise ModelUnknown('argument count of %s' % fn.q)
        for p, a in zip(fn.params, args):
            if isinstance(a, Str) and not p['tC'].rstrip().endswith('&'):
                a = a.copy()
            env[p['d']] = a
        fr = _Frame(self, fn, this, env)
        try:
            fr.run()
        except _Return as r:
            return r.value
        return None


class _Frame:
    def __init__(self, model, fn, this, env):
        self.m, self.fn, self.this, self.env = model, fn, this, env

    def unknown(self, nid, why):
        raise ModelUnknown('%s: %s (`%s` at %s)' % (self.fn.q, why, self.fn.expr(nid)[:70], self.fn.loc(nid)))

    # ------------------------------------------------------------------ statements
    def run(self):
        fn, m = self.fn, self.m
        roots = m.roots(fn)
        b = fn.entry
        while True:
            blk = fn.blocks[b]
            for e in blk['elems']:
                m.steps += 1
                if m.steps > m.max_steps:
                    raise ModelUnknown('%s: step limit exceeded (loop in the model)' % fn.q)
                if e in roots:
                    self.stmt(e)
            if b == fn.exit:
                return
            succs = blk['succs']
            if not succs:
                return
            if blk.get('termcls') == 'SwitchStmt' and 'cond' in blk:
                v = self.ev(blk['cond'])
                nxt = None
                dflt = None
                for s in succs:
                    if s is None:
                        continue
                    lab = fn.blocks[s].get('label') or {}
                    if 'case' in lab and self.ev(lab['case']) == v:
                        nxt = s
                    if lab.get('default') or not lab:
                        dflt = s
                b = nxt if nxt is not None else dflt
                if b is None:
                    return
                continue
            if 'cond' in blk and len(succs) == 2:
                v = self.ev(blk['cond'])
                if isinstance(v, Sym):
                    self.unknown(blk['cond'], 'branch on an opaque value')
                b = succs[0] if v else succs[1]
                if b is None:
                    return
                continue
            nxt = [s for s in succs if s is not None]
            if len(nxt) != 1:
                raise ModelUnknown('%s: block %d has an unexpected successor shape' % (fn.q, b))
            b = nxt[0]

    def stmt(self, nid):
        n = self.fn.nodes[nid]
        k = n.get('k')
        if k == 'autodtor' or k == 'stmt':
            return
        if k == 'decl':
            for v in n['vars']:
                if isinstance(v.get('init'), int):
                    val = self.ev(v['init'])
                    if isinstance(val, _Moved):
                        val = val.take() if not v['tC'].rstrip().endswith('&') else val.s
                    if isinstance(val, Str) and not v['tC'].rstrip().endswith('&') and not self._is_fresh(v['init']):
                        val = val.copy()
                    self.env[v['d']] = val
                else:
                    self.env[v['d']] = Str() if _is_str_type(v['tC']) else 0
            return
        if k == 'return':
            val = self.ev(n['sub']) if 'sub' in n else None
            if isinstance(val, _Moved):
                val = val.take()
            if isinstance(val, Str):
                val = val.copy()
            raise _Return(val)
        if k == 'throw':
            raise ModelThrow(n.get('tt') or 'rethrow')
        if k == 'init':
            if 'name' in n and isinstance(n.get('init'), int) and isinstance(self.this, Obj):
                self.this.f[n['name']] = self.ev(n['init'])
            return
        self.ev(nid)

    def _is_fresh(self, nid):
        """the initialiser creates a new string object (construction / call result), not an alias of an existing one"""
        x = self.fn.nodes.get(peel_wrappers(self.fn, nid), {})
        return x.get('k') in ('construct', 'call', 'lit')

    # ------------------------------------------------------------------ lvalues
    def lv(self, nid):
        fn = self.fn
        n = fn.nodes.get(nid)
        if n is None:
            raise ModelUnknown('%s: missing node' % fn.q)
        k = n.get('k')
        if k in ('wrap', 'icast') and 'sub' in n:
            return self.lv(n['sub'])
        if k == 'cast' and n.get('ck') == 'NoOp':
            return self.lv(n['sub'])
        if k == 'var' and n.get('vk') in ('local', 'param'):
            return ('env', n['d'])
        if k == 'member' and n.get('field'):
            base = self.ev(n['base'])
            if isinstance(base, Obj):
                return ('field', base, n['name'])
            self.unknown(nid, 'member of a non-object')
        if k == 'call' and n.get('q') == 'std::basic_string::back' and n.get('recv') is not None:
            s = self.ev(n['recv'])
            if isinstance(s, Str):
                return ('back', s)
        if k == 'call' and n.get('q') == 'std::basic_string::operator[]' and n.get('recv') is not None:
            s = self.ev(n['recv'])
            i = self.ev(n['args'][0])
            if isinstance(s, Str) and isinstance(i, int):
                return ('at', s, i)
        if k == 'unop' and n.get('op') == '*':
            a = self.ev(n['sub'])
            if isinstance(a, tuple) and a and a[0] == 'addr':
                return a[1]
        if k == 'unop' and n.get('op') in ('++', '--') and not n.get('postfix'):
            self.ev(nid)
            return self.lv(n['sub'])
        if k == 'assign':
            self.ev(nid)
            return self.lv(n['lhs'])
        self.unknown(nid, 'lvalue of this form is not modelled')

    def load(self, ref):
        if ref[0] == 'env':
            if ref[1] not in self.env:
                raise ModelUnknown('%s: read of an unset local' % self.fn.q)
            return self.env[ref[1]]
        if ref[0] == 'field':
            if ref[2] not in ref[1].f:
                raise ModelUnknown('%s: read of unknown member %s' % (self.fn.q, ref[2]))
            return ref[1].f[ref[2]]
        if ref[0] == 'back':
            if not ref[1].t:
                raise ModelError('back() of an empty string')
            return ref[1].t[-1]
        if ref[0] == 'at':
            return ('byte', ref[1], ref[2])
        raise ModelUnknown('load')

    def store(self, ref, val):
        if ref[0] == 'env':
            cur = self.env.get(ref[1])
            if isinstance(cur, Str) and isinstance(val, (Str, str)):
                cur.t = list(val.t if isinstance(val, Str) else val)      # assignment keeps the object identity (references)
            else:
                self.env[ref[1]] = val
        elif ref[0] == 'field':
            cur = ref[1].f.get(ref[2])
            if isinstance(cur, Str) and isinstance(val, (Str, str)):
                cur.t = list(val.t if isinstance(val, Str) else val)
            else:
                ref[1].f[ref[2]] = val
        elif ref[0] == 'back':
            if not ref[1].t:
                raise ModelError('back() = ... on an empty string')
            ref[1].t[-1] = _as_char(val)
        else:
            raise ModelUnknown('store through %s' % (ref[0],))

    # ------------------------------------------------------------------ expressions
    def ev(self, nid):
        fn = self.fn
        n = fn.nodes.get(nid)
        if n is None:
            raise ModelUnknown('%s: missing node' % fn.q)
        if self.m.node_values and (id(fn), nid) in self.m.node_values:
            return self.m.node_values[(id(fn), nid)]
        k = n.get('k')
        if k in ('icast', 'cast') and n.get('ck') == 'FloatingToIntegral' and 'sub' in n:
            v = self.ev(n['sub'])
            if isinstance(v, float):
                t = (n.get('t') or '').replace('const ', '')
                sz = _SIZES.get(t)
                if sz is None:
                    self.unknown(nid, 'conversion to %s' % t)
                lo, hi = (0, (1 << (8 * sz)) - 1) if t.startswith('unsigned') else (-(1 << (8 * sz - 1)), (1 << (8 * sz - 1)) - 1)
                if v != v or v in (float('inf'), float('-inf')) or not (lo - 1 < v < hi + 1):
                    raise ModelError('the floating point value %r is converted to %s, whose range is [%d, %d]: undefined behaviour' % (v, t, lo, hi))
                return int(v)
            return v
        if k in ('icast', 'cast') and n.get('ck') == 'IntegralToFloating' and 'sub' in n:
            v = self.ev(n['sub'])
            return float(v) if isinstance(v, int) and not isinstance(v, bool) else v
        if k in ('wrap', 'icast'):
            if 'sub' not in n:
                return None
            return self.ev(n['sub'])
        if k == 'lit':
            if 'str' in n:
                return n['str']
            if n.get('null'):
                return 0
            if n.get('float'):
                return float(n['cv'])
            if 'cv' in n:
                return int(n['cv'])
            self.unknown(nid, 'literal')
        if 'cv' in n and k in ('call', 'sizeof', 'binop', 'unop', 'cast') and not n.get('float'):
            try:
                return int(n['cv'])
            except ValueError:
                pass
        if k == 'cast':
            v = self.ev(n['sub'])
            if isinstance(v, int) and not isinstance(v, bool):
                sz = _SIZES.get((n.get('toC') or '').replace('const ', ''))
                if sz and (n.get('toC') or '').startswith('unsigned'):
                    v &= (1 << (8 * sz)) - 1
            return v
        if k == 'var':
            vk = n.get('vk')
            if vk in ('local', 'param'):
                return self.load(('env', n['d']))
            if 'cv' in n:
                return float(n['cv']) if n.get('float') else int(n['cv'])
            if vk in ('global', 'static_member'):
                g = self.m.fb.global_const(n.get('q'))
                if g is not None and 'cv' in g:
                    try:
                        return int(g['cv'])
                    except ValueError:
                        return float(g['cv'])
            if vk == 'function':
                return ('function', n.get('q'))
            self.unknown(nid, 'variable of kind %s' % vk)
        if k == 'this':
            return self.this
        if k == 'member':
            if n.get('field'):
                base = self.ev(n['base'])
                if isinstance(base, Obj):
                    return self.load(('field', base, n['name']))
                self.unknown(nid, 'member of a non-object')
            return ('method', n.get('q'))
        if k == 'binop':
            op = n['op']
            if op == '&&':
                return bool(self.ev(n['lhs'])) and bool(self.ev(n['rhs']))
            if op == '||':
                return bool(self.ev(n['lhs'])) or bool(self.ev(n['rhs']))
            if op == ',':
                self.ev(n['lhs'])
                return self.ev(n['rhs'])
            a, b = self.ev(n['lhs']), self.ev(n['rhs'])
            if isinstance(a, Sym) or isinstance(b, Sym):
                if op == '|' or op == '+':
                    return Sym((op, getattr(a, 'name', a), getattr(b, 'name', b)))
                self.unknown(nid, 'arithmetic on an opaque value')
            try:
                return {'+': lambda: a + b, '-': lambda: a - b, '*': lambda: a * b, '/': lambda: a // b if isinstance(a, int) and isinstance(b, int) else a / b,
                        '%': lambda: a % b, '<<': lambda: a << b, '>>': lambda: a >> b, '&': lambda: a & b, '|': lambda: a | b, '^': lambda: a ^ b,
                        '<': lambda: a < b, '<=': lambda: a <= b, '>': lambda: a > b, '>=': lambda: a >= b, '==': lambda: a == b, '!=': lambda: a != b}[op]()
            except (KeyError, TypeError, ZeroDivisionError):
                self.unknown(nid, 'operator %s on these operands' % op)
        if k == 'unop':
            op = n['op']
            if op == '!':
                return not self.ev(n['sub'])
            if op in ('++', '--'):
                ref = self.lv(n['sub'])
                old = self.load(ref)
                if not isinstance(old, int):
                    self.unknown(nid, 'increment of a non-integer')
                new = old + (1 if op == '++' else -1)
                self.store(ref, new)
                return old if n.get('postfix') else new
            if op == '-':
                return -self.ev(n['sub'])
            if op == '+':
                return self.ev(n['sub'])
            if op == '&':
                return ('addr', self.lv(n['sub']))
            if op == '*':
                return self.load(self.lv(nid))
            self.unknown(nid, 'unary operator %s' % op)
        if k == 'assign':
            ref = self.lv(n['lhs'])
            v = self.ev(n['rhs'])
            if n.get('op') == '=':
                self.store(ref, v)
                return v
            old = self.load(ref)
            op = n['op'][:-1]
            if isinstance(old, int) and isinstance(v, int) and op in ('+', '-', '*', '|', '&'):
                new = {'+': old + v, '-': old - v, '*': old * v, '|': old | v, '&': old & v}[op]
                self.store(ref, new)
                return new
            self.unknown(nid, 'compound assignment')
        if k == 'condop':
            return self.ev(n['then']) if self.ev(n['cond']) else self.ev(n['else'])
        if k == 'construct':
            return self.construct(nid, n)
        if k == 'call':
            return self.callexpr(nid, n)
        if k == 'sizeof':
            return self.m.type_size(n.get('of') or n.get('ofexpr_t'))
        self.unknown(nid, 'expression kind %s' % k)

    def construct(self, nid, n):
        q = n.get('q', '')
        args = [a for a in n.get('args', []) if a is not None]
        if q.startswith('std::basic_string::'):
            if not args:
                return Str()
            v = self.ev(args[0])
            if isinstance(v, _Moved):
                return v.take()
            if isinstance(v, Str):
                return v.copy()
            if isinstance(v, str):
                return Str(v)
            self.unknown(nid, 'string constructed from this value')
        if (n.get('elidable') or n.get('copymove')) and len(args) == 1:
            v = self.ev(args[0])
            if isinstance(v, _Moved):
                return v.take()
            return v.copy() if isinstance(v, Str) else v
        if q.startswith('std::allocator'):
            return None
        if q.startswith(('std::back_insert_iterator', 'std::reverse_iterator')) and len(args) == 1:
            return self.ev(args[0])
        self.unknown(nid, 'construction of %s' % q)

    def callexpr(self, nid, n):
        fn = self.fn
        q = n.get('q') or n.get('name') or ''
        args = [a for a in n.get('args', []) if a is not None]
        nm = q.rsplit('::', 1)[-1]
        if q in self.m.hooks:
            return self.m.hooks[q](self, nid, n, args)
        if q.startswith('std::basic_string::') and n.get('recv') is not None:
            s = self.ev(n['recv'])
            if not isinstance(s, Str):
                self.unknown(nid, 'string method on a non-string')
            if nm in ('size', 'length'):
                return s.nbytes()
            if nm == 'empty':
                return not s.t
            if nm == 'clear':
                s.t = []
                return None
            if nm in ('reserve', 'shrink_to_fit'):
                return None
            if nm == 'pop_back':
                if not s.t:
                    raise ModelError('pop_back() on an empty string')
                if s.t[-1] != ',':
                    raise ModelError('pop_back() removes %r, which is not a separator: content is lost' % (s.t[-1],))
                s.t.pop()
                return None
            if nm == 'resize' and len(args) >= 1:
                k_ = self.ev(args[0])
                if isinstance(k_, int) and 0 <= k_ <= len(s.t) and all(tok_size(x) == 1 for x in s.t):
                    if k_ < len(s.t) and any(x != ',' for x in s.t[k_:]):
                        raise ModelError('resize() cuts off %r' % (s.t[k_:],))
                    del s.t[k_:]
                    return None
                self.unknown(nid, 'resize of this string')
            if nm == 'back':
                return self.load(('back', s))
            if nm in ('operator=', 'assign') and len(args) == 1:
                v = self.ev(args[0])
                if isinstance(v, _Moved):
                    v = v.take() if v.s is not s else v.s
                s.t = list(v.t) if isinstance(v, Str) else list(_as_text(v, self, nid))
                return s
            if nm in ('operator+=', 'append', 'push_back') and len(args) == 1:
                v = self.ev(args[0])
                if isinstance(v, _Moved):
                    v = v.s        # appending copies: the source keeps its value
                s.t.extend(v.t if isinstance(v, Str) else _as_text(v, self, nid))
                return s
            if nm == 'operator[]':
                return self.load(self.lv(nid))
            if nm == 'swap' and len(args) == 1:
                o = self.ev(args[0])
                if isinstance(o, Str):
                    s.t, o.t = o.t, s.t
                    return None
            self.unknown(nid, 'std::string::%s is not modelled' % nm)
        if q == 'std::swap' and len(args) == 2:
            ra, rb = self.lv(args[0]), self.lv(args[1])
            a, b = self.load(ra), self.load(rb)
            if isinstance(a, Str) and isinstance(b, Str):
                a.t, b.t = b.t, a.t
            else:
                self.store(ra, b)
                self.store(rb, a)
            return None
        if q in ('std::move', 'std::forward') and len(args) == 1:
            v = self.ev(args[0])
            if q == 'std::move' and isinstance(v, Str):
                return _Moved(v)
            return v
        if q in ('std::min', 'std::max') and len(args) == 2:
            a, b = self.ev(args[0]), self.ev(args[1])
            if isinstance(a, (int, float)) and isinstance(b, (int, float)):
                # [alg.min.max]: min(a, b) is b if b < a, else a; max(a, b) is b if a < b, else a (NaN compares false)
                return (b if b < a else a) if q == 'std::min' else (b if a < b else a)
            self.unknown(nid, '%s of these operands' % q)
        if nm == 'str_push' and len(args) == 2:
            s = self.ev(args[0])
            v = self.ev(args[1])
            if not isinstance(s, Str):
                self.unknown(nid, 'str_push into a non-string')
            t = fn.nodes.get(peel_wrappers(fn, args[1]), {}).get('t') or fn.nodes.get(args[1], {}).get('t')
            s.t.append(('bin', self.m.push_size(n, t), (t or '').replace('const ', ''), v))
            return None
        if nm == 'convert_to_hex' and len(args) == 1:
            v = self.ev(args[0])
            if isinstance(v, Str):
                return Str([('hex', tuple(v.t))])
            self.unknown(nid, 'convert_to_hex of a non-string')
        if q == 'osmium::geom::Coordinates::append_to_string' and n.get('recv') is not None and self.m.atomic_points:
            c = self.ev(n['recv'])
            s = self.ev(args[0])
            rest = [self.ev(a) for a in args[1:]]
            if not isinstance(s, Str) or not isinstance(c, Obj) or len(rest) not in (2, 4):
                self.unknown(nid, 'append_to_string call')
            chars = [_as_char(x) for x in rest[:-1]]
            pre, inf, suf = (None, chars[0], None) if len(chars) == 1 else chars
            s.t.append(('P', pre, inf, suf, c.f.get('tag'), rest[-1]))
            return None
        if q == 'std::copy_n' and len(args) == 3:
            src, cnt, dst = self.ev(args[0]), self.ev(args[1]), self.ev(args[2])
            if not (isinstance(src, tuple) and src[0] == 'addr' and isinstance(dst, tuple) and dst[0] == 'addr' and dst[1][0] == 'at' and isinstance(cnt, int)):
                self.unknown(nid, 'copy_n with these operands')
            val = self.load(src[1])
            _patch(dst[1][1], dst[1][2], cnt, val)
            return None
        if q in ('__assert_fail', 'abort', 'std::abort', 'std::terminate'):
            raise ModelAbort(fn.expr(nid)[:80])
        # a function of the fact base: interpret its body
        cands = [g for g in self.m.fb.by_usr.get(n.get('u'), []) if g.has_cfg] if n.get('u') else []
        if cands:
            g = cands[0]
            this = None
            if n.get('recv') is not None and g.kind in ('method', 'operator', 'conv') and not g.static:
                this = self.ev(n['recv'])
            vals = []
            for a, p in zip(args, g.params):
                v = self.ev(a)
                if isinstance(v, _Moved):
                    v = v.take() if not p['tC'].rstrip().endswith('&') else v.s
                vals.append(v)
            return self.m.call(g, this, vals)
        self.unknown(nid, 'call of %s is not modelled' % q)


def peel_wrappers(fn, nid):
    hops = 0
    while nid is not None and nid in fn.nodes and hops < 32:
        hops += 1
        n = fn.nodes[nid]
        if n.get('k') in ('wrap', 'icast') and 'sub' in n:
            nid = n['sub']
        else:
            break
    return nid


def _is_str_type(t):
    t = (t or '').replace('const ', '')
    return t.startswith(('std::string', 'std::basic_string<char'))


def _as_char(v):
    if isinstance(v, int) and 0 <= v < 256:
        return chr(v)
    if isinstance(v, str) and len(v) == 1:
        return v
    raise ModelUnknown('character value %r' % (v,))


def _as_text(v, fr, nid):
    if isinstance(v, str):
        return list(v)
    if isinstance(v, int) and 0 <= v < 256:
        return [chr(v)]
    fr.unknown(nid, 'appended value is neither text nor a character')


def _patch(s, off, cnt, val):
    pos = 0
    for i, t in enumerate(s.t):
        if pos == off:
            if isinstance(t, tuple) and t[0] == 'bin' and t[1] == cnt:
                s.t[i] = ('bin', cnt, t[2], val)
                return
            raise ModelError('%d bytes are patched at byte offset %d, which is the start of %r, not of a %d byte count field' % (cnt, off, t, cnt))
        pos += tok_size(t)
        if pos > off:
            break
    raise ModelError('%d bytes are patched at byte offset %d, which is not the start of a field (string has %d bytes)' % (cnt, off, s.nbytes()))
