"""MONITOR engine: lockset on the CFG for RAII mutex guards (std::lock_guard / std::unique_lock)."""
from .flow import forward_must

LOCK_TYPES = ('std::lock_guard<', 'std::unique_lock<', 'std::scoped_lock<')


def is_lock_type(t):
    t = t.replace('const ', '')
    return t.startswith(LOCK_TYPES)


def lockset(fn, mutex_field_names):
    """Must-hold lock variables before each element.  A lock variable is a local of RAII lock type whose
    constructor's first argument is one of the given mutex members.  Returns (before, lockvars) where
    before[node id] is a frozenset of decl ids held on every path, lockvars maps decl id -> mutex name."""
    lockvars = {}
    for n in fn.all_nodes():
        if n.get('k') == 'decl':
            for v in n['vars']:
                if is_lock_type(v['tC']) and isinstance(v.get('init'), int):
                    c = fn.sn(v['init'], casts=False)
                    if c is not None and c.get('k') == 'construct' and c.get('args'):
                        m = fn.sn(c['args'][0])
                        if m is not None and m.get('k') == 'member' and m['name'] in mutex_field_names:
                            deferred = len(c['args']) > 1
                            if not deferred:
                                lockvars[v['d']] = m['name']

    def transfer(st, n):
        k = n.get('k')
        if k == 'decl':
            for v in n['vars']:
                if v['d'] in lockvars:
                    st = st | {v['d']}
        elif k == 'autodtor' and n.get('d') in lockvars:
            st = st - {n['d']}
        elif k == 'call' and n.get('recv') is not None and n.get('q', '').startswith('std::unique_lock::'):
            r = fn.sn(n['recv'])
            if r is not None and r.get('k') == 'var' and r['d'] in lockvars:
                nm = n['q'].rsplit('::', 1)[-1]
                if nm == 'unlock':
                    st = st - {r['d']}
                elif nm == 'lock':
                    st = st | {r['d']}
        return st

    before = forward_must(fn, transfer)
    return before, lockvars
