#!/usr/bin/env python3
"""Dump the CFG of every body of a function: tools/dumpfn.py <driver[,driver]> <qualified name> [--all-nodes] [--repo PATH] [--config C]"""
import argparse
import os
import sys

sys.path.insert(0, os.path.dirname(os.path.dirname(os.path.abspath(__file__))))
sys.dont_write_bytecode = True
from osmlint.engine import Ctx  # noqa: E402

ap = argparse.ArgumentParser()
ap.add_argument('drivers')
ap.add_argument('qname')
ap.add_argument('--all-nodes', action='store_true')
ap.add_argument('--first', action='store_true')
ap.add_argument('--repo', default=os.environ.get('VERIF_REPO', '/repo'))
ap.add_argument('--config', default='ndebug14')
a = ap.parse_args()
ctx = Ctx('X', 'quick', a.repo)
fb = ctx.facts(a.drivers.split(','), a.config)
fns = fb.fns(a.qname)
if not fns:
    cands = sorted({f.q for f in fb.functions if a.qname.lower() in f.q.lower()})
    print('no such function; candidates:', *cands[:60], sep='\n  ')
    sys.exit(1)
SHOW = ('call', 'construct', 'autodtor', 'decl', 'assign', 'return', 'lambda', 'throw', 'init', 'new', 'delete')
for fn in fns[:1] if a.first else fns:
    print('=' * 100)
    print(fn.full, fn.site, 'kind=%s' % fn.kind, 'targs=%s' % fn.cls_targs, 'noexcept' if fn.noexcept else '')
    print('params:', [(p['name'], p['t']) for p in fn.params], 'tries:', len(fn.tries), 'loops:', len(fn.loops))
    for b in sorted(fn.blocks.values(), key=lambda b: -b['id']):
        lab = b.get('label')
        labs = ''
        if lab:
            labs = ' label=' + ('default' if lab.get('default') else 'catch' if lab.get('catch') else 'case ' + fn.expr(lab.get('case')))
        print('B%d succs=%s%s%s' % (b['id'], b['succs'], (' term=%s cond=[%s]' % (b.get('termcls'), fn.expr(b['cond'])) if 'cond' in b else (' term=%s' % b['termcls'] if 'termcls' in b else '')), labs))
        for e in b['elems']:
            n = fn.n(e)
            if a.all_nodes or n['k'] in SHOW:
                print('   %4d %-9s l%-4s %s   %s' % (e, n['k'], n.get('l', ''), fn.expr(e)[:120], n.get('q', '')))
