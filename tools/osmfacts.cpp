// osmfacts — libTooling fact extractor for the libosmium static checks.
//
// Parses one translation unit with the flags given after "--" and writes a JSON
// fact base: every function body (template instantiations included) whose
// definition lies under one of the --root prefixes, as a clang CFG
// (setAllAlwaysAdd) whose elements are shallow, typed expression nodes with
// resolved callees; plus records, enums, try/catch structure and switch labels.
// The tool contains no rule logic.
//
// usage: osmfacts --out facts.json --root /repo/include/osmium [--root ...] file.cpp -- <flags>

#include "clang/AST/ASTConsumer.h"
#include "clang/AST/ASTContext.h"
#include "clang/AST/DeclCXX.h"
#include "clang/AST/DeclTemplate.h"
#include "clang/AST/ExprCXX.h"
#include "clang/AST/ParentMapContext.h"
#include "clang/AST/RecursiveASTVisitor.h"
#include "clang/AST/StmtCXX.h"
#include "clang/Analysis/CFG.h"
#include "clang/Basic/SourceManager.h"
#include "clang/Frontend/CompilerInstance.h"
#include "clang/Frontend/FrontendAction.h"
#include "clang/Index/USRGeneration.h"
#include "clang/Lex/Lexer.h"
#include "clang/Tooling/CompilationDatabase.h"
#include "clang/Tooling/Tooling.h"
#include "llvm/ADT/DenseMap.h"
#include "llvm/ADT/StringMap.h"
#include "llvm/Support/JSON.h"
#include "llvm/Support/raw_ostream.h"

#include <map>
#include <set>
#include <string>
#include <vector>

using namespace clang;
namespace json = llvm::json;

static std::vector<std::string> g_roots;
static std::string g_out;

namespace {

struct Interner {
    llvm::StringMap<int> map;
    std::vector<std::string> strs;
    int get(llvm::StringRef s) {
        auto it = map.find(s);
        if (it != map.end()) {
            return it->second;
        }
        int id = static_cast<int>(strs.size());
        map[s] = id;
        strs.emplace_back(s.str());
        return id;
    }
};

class Extractor : public RecursiveASTVisitor<Extractor> {
    ASTContext& Ctx;
    SourceManager& SM;
    PrintingPolicy PP;
    Interner S;
    std::vector<std::string> Functions;
    json::Array Records;
    json::Array Enums;
    json::Array Patterns;  // dependent (uninstantiated) function patterns: header only
    llvm::DenseMap<const Decl*, int> DeclIds;
    llvm::DenseMap<const FunctionDecl*, int> FnIds;
    std::set<const Decl*> SeenRecords;
    std::set<const Decl*> SeenEnums;
    std::set<const FunctionDecl*> SeenFns;
    int NextDecl = 1;
    int NextFn = 1;

    // per-function state
    llvm::DenseMap<const Stmt*, int> NodeIds;
    json::Object* CurNodes = nullptr;
    int NextNode = 0;
    FileID CurFile;
    unsigned Errors = 0;

public:
    explicit Extractor(ASTContext& C) : Ctx(C), SM(C.getSourceManager()), PP(C.getPrintingPolicy()) {
        PP.SuppressTagKeyword = true;
        PP.Bool = true;
        PP.SuppressUnwrittenScope = true;
        PP.FullyQualifiedName = true;
    }

    bool shouldVisitTemplateInstantiations() const { return true; }
    bool shouldVisitImplicitCode() const { return false; }

    void pushFunction(json::Object F) {
        std::string s;
        llvm::raw_string_ostream os(s);
        os << json::Value(std::move(F));
        os.flush();
        Functions.push_back(std::move(s));
    }

    // ---------------------------------------------------------------- helpers

    std::string fileOf(SourceLocation L) {
        L = SM.getExpansionLoc(L);
        if (L.isInvalid()) {
            return "";
        }
        auto F = SM.getFilename(L);
        return F.str();
    }

    bool inRoots(SourceLocation L) {
        std::string F = fileOf(L);
        if (F.empty()) {
            return false;
        }
        for (const auto& R : g_roots) {
            if (F.compare(0, R.size(), R) == 0) {
                return true;
            }
        }
        return false;
    }

    unsigned lineOf(SourceLocation L) { return SM.getExpansionLineNumber(L); }
    unsigned colOf(SourceLocation L) { return SM.getExpansionColumnNumber(L); }
    unsigned offOf(SourceLocation L) { return SM.getFileOffset(SM.getExpansionLoc(L)); }

    int declId(const Decl* D) {
        D = D->getCanonicalDecl();
        auto it = DeclIds.find(D);
        if (it != DeclIds.end()) {
            return it->second;
        }
        int id = NextDecl++;
        DeclIds[D] = id;
        return id;
    }

    // canonical spelling (typedefs and sugar resolved): what rules match on
    int T(QualType Q) {
        if (Q.isNull()) {
            return S.get("");
        }
        return S.get(Q.getCanonicalType().getAsString(PP));
    }
    // spelling as written (for reports)
    int TS(QualType Q) {
        if (Q.isNull()) {
            return S.get("");
        }
        return S.get(Q.getAsString(PP));
    }
    int CT(QualType Q) {
        if (Q.isNull()) {
            return S.get("");
        }
        return S.get(Q.getCanonicalType().getAsString(PP));
    }

    // qualified name without any template arguments: osmium::thread::Queue::push
    std::string plainQName(const NamedDecl* D) {
        std::vector<std::string> parts;
        std::string own;
        if (D->getDeclName().isIdentifier()) {
            own = D->getName().str();
            if (own.empty()) {
                if (const auto* RD = dyn_cast<CXXRecordDecl>(D)) {
                    own = RD->isLambda() ? "(lambda)" : "(anon)";
                } else {
                    own = "(anon)";
                }
            }
        } else {
            own = D->getDeclName().getAsString();
            if (isa<CXXConstructorDecl>(D)) {
                own = "(ctor)";
            } else if (isa<CXXDestructorDecl>(D)) {
                own = "(dtor)";
            } else if (isa<CXXConversionDecl>(D)) {
                own = "(conv)";
            }
        }
        parts.push_back(own);
        const DeclContext* DC = D->getDeclContext();
        while (DC && !DC->isTranslationUnit()) {
            if (const auto* ND = dyn_cast<NamespaceDecl>(DC)) {
                if (!ND->isAnonymousNamespace() && !ND->isInline()) {
                    parts.push_back(ND->getName().str());
                }
            } else if (const auto* RD = dyn_cast<RecordDecl>(DC)) {
                std::string n = RD->getName().str();
                if (n.empty()) {
                    const auto* CRD = dyn_cast<CXXRecordDecl>(RD);
                    n = (CRD && CRD->isLambda()) ? "(lambda)" : "(anon)";
                }
                parts.push_back(n);
            } else if (const auto* FD = dyn_cast<FunctionDecl>(DC)) {
                if (FD->getDeclName().isIdentifier()) {
                    parts.push_back(FD->getName().str());
                } else if (isa<CXXConstructorDecl>(FD)) {
                    parts.push_back("(ctor)");
                } else if (isa<CXXDestructorDecl>(FD)) {
                    parts.push_back("(dtor)");
                } else {
                    parts.push_back(FD->getDeclName().getAsString());
                }
            } else if (const auto* ED = dyn_cast<EnumDecl>(DC)) {
                if (ED->isScoped() || true) {
                    parts.push_back(ED->getName().str());
                }
            }
            DC = DC->getParent();
        }
        std::string r;
        for (auto it = parts.rbegin(); it != parts.rend(); ++it) {
            if (!r.empty()) {
                r += "::";
            }
            r += *it;
        }
        return r;
    }

    std::string fullQName(const NamedDecl* D) {
        std::string s;
        llvm::raw_string_ostream os(s);
        D->printQualifiedName(os, PP);
        os.flush();
        return s;
    }

    std::string usr(const Decl* D) {
        llvm::SmallString<128> Buf;
        if (index::generateUSRForDecl(D, Buf)) {
            return "";
        }
        return Buf.str().str();
    }

    json::Array classTargs(const CXXRecordDecl* RD) {
        json::Array A;
        if (const auto* Spec = dyn_cast<ClassTemplateSpecializationDecl>(RD)) {
            for (const auto& Arg : Spec->getTemplateArgs().asArray()) {
                std::string s;
                if (Arg.getKind() == TemplateArgument::Type) {
                    s = Arg.getAsType().getCanonicalType().getAsString(PP);
                } else {
                    llvm::raw_string_ostream os(s);
                    Arg.print(PP, os, true);
                    os.flush();
                }
                A.push_back(s);
            }
        }
        return A;
    }

    void loc(json::Object& O, SourceLocation L) {
        L = SM.getExpansionLoc(L);
        if (L.isInvalid()) {
            return;
        }
        O["l"] = lineOf(L);
        O["c"] = colOf(L);
        FileID F = SM.getFileID(L);
        if (F != CurFile) {
            O["f"] = S.get(fileOf(L));
        } else {
            O["o"] = offOf(L);
        }
    }

    std::vector<std::string> baseClosure(const CXXRecordDecl* RD) {
        std::vector<std::string> out;
        std::set<const CXXRecordDecl*> seen;
        std::vector<const CXXRecordDecl*> work;
        if (RD && RD->hasDefinition()) {
            work.push_back(RD->getDefinition());
        }
        while (!work.empty()) {
            const CXXRecordDecl* R = work.back();
            work.pop_back();
            if (!seen.insert(R).second) {
                continue;
            }
            out.push_back(plainQName(R));
            for (const auto& B : R->bases()) {
                if (const auto* BR = B.getType()->getAsCXXRecordDecl()) {
                    if (BR->hasDefinition()) {
                        work.push_back(BR->getDefinition());
                    }
                }
            }
        }
        return out;
    }

    // ---------------------------------------------------------------- nodes

    int idFor(const Stmt* St) {
        auto it = NodeIds.find(St);
        if (it != NodeIds.end()) {
            return it->second;
        }
        int id = NextNode++;
        NodeIds[St] = id;
        emitNode(St, id);
        return id;
    }

    json::Value child(const Stmt* St) {
        if (!St) {
            return nullptr;
        }
        return idFor(St);
    }

    void calleeInfo(json::Object& O, const FunctionDecl* FD) {
        if (!FD) {
            return;
        }
        O["q"] = S.get(plainQName(FD));
        O["u"] = S.get(usr(FD));
        if (const auto* MD = dyn_cast<CXXMethodDecl>(FD)) {
            if (MD->isVirtual()) {
                O["virt"] = 1;
            }
            if (MD->isStatic()) {
                O["static"] = 1;
            }
            O["rcls"] = S.get(plainQName(MD->getParent()));
            O["rclsT"] = T(Ctx.getRecordType(MD->getParent()));
        }
        if (FD->isNoReturn()) {
            O["noret"] = 1;
        }
    }

    void constVal(json::Object& O, const Expr* E) {
        if (E->isValueDependent() || E->isTypeDependent()) {
            return;
        }
        QualType Q = E->getType();
        if (Q.isNull()) {
            return;
        }
        if (Q->isIntegralOrEnumerationType() && E->isPRValue()) {
            Expr::EvalResult R;
            if (E->EvaluateAsInt(R, Ctx)) {
                llvm::SmallString<32> Str;
                R.Val.getInt().toString(Str, 10);
                O["cv"] = std::string(Str.str());
            }
        } else if (Q->isFloatingType() && E->isPRValue()) {
            Expr::EvalResult R;
            if (E->EvaluateAsRValue(R, Ctx) && R.Val.isFloat()) {
                llvm::SmallString<32> Str;
                R.Val.getFloat().toString(Str);
                O["cv"] = std::string(Str.str());
            }
        }
    }

    void emitNode(const Stmt* St, int id) {
        json::Object O;
        O["cls"] = St->getStmtClassName();
        loc(O, St->getBeginLoc());
        {
            SourceLocation E = SM.getExpansionLoc(St->getEndLoc());
            if (E.isValid() && SM.getFileID(E) == CurFile) {
                O["oe"] = offOf(E);
            }
        }
        const auto* E = dyn_cast<Expr>(St);
        if (E) {
            O["t"] = T(E->getType());
            if (E->isLValue()) {
                O["lv"] = 1;
            }
            if (!isa<IntegerLiteral>(E) && !isa<CXXBoolLiteralExpr>(E) && !isa<StringLiteral>(E)) {
                constVal(O, E);
            }
        }

        if (const auto* CE = dyn_cast<CallExpr>(St)) {
            const FunctionDecl* FD = CE->getDirectCallee();
            json::Array args;
            if (const auto* MCE = dyn_cast<CXXMemberCallExpr>(CE)) {
                O["k"] = "call";
                O["recv"] = child(MCE->getImplicitObjectArgument());
                if (const auto* ME = dyn_cast<MemberExpr>(MCE->getCallee()->IgnoreParens())) {
                    if (ME->isArrow()) {
                        O["arrow"] = 1;
                    }
                    if (ME->hasQualifier()) {
                        O["qualified"] = 1;  // non-virtual dispatch: Base::f()
                    }
                }
                for (const auto* A : MCE->arguments()) {
                    args.push_back(child(A));
                }
            } else if (const auto* OCE = dyn_cast<CXXOperatorCallExpr>(CE)) {
                O["k"] = "call";
                O["op"] = getOperatorSpelling(OCE->getOperator());
                unsigned start = 0;
                if (FD && isa<CXXMethodDecl>(FD) && !cast<CXXMethodDecl>(FD)->isStatic() && OCE->getNumArgs() > 0) {
                    O["recv"] = child(OCE->getArg(0));
                    start = 1;
                }
                for (unsigned i = start; i < OCE->getNumArgs(); ++i) {
                    args.push_back(child(OCE->getArg(i)));
                }
            } else {
                O["k"] = "call";
                for (const auto* A : CE->arguments()) {
                    args.push_back(child(A));
                }
            }
            if (FD) {
                calleeInfo(O, FD);
            } else {
                // indirect or dependent call
                O["callee"] = child(CE->getCallee());
                const Expr* C = CE->getCallee()->IgnoreParenImpCasts();
                if (const auto* UL = dyn_cast<UnresolvedLookupExpr>(C)) {
                    O["name"] = UL->getName().getAsString();
                } else if (const auto* UM = dyn_cast<UnresolvedMemberExpr>(C)) {
                    O["name"] = UM->getMemberName().getAsString();
                } else if (const auto* DM = dyn_cast<CXXDependentScopeMemberExpr>(C)) {
                    O["name"] = DM->getMember().getAsString();
                }
            }
            O["args"] = std::move(args);
        } else if (const auto* CCE = dyn_cast<CXXConstructExpr>(St)) {
            O["k"] = "construct";
            calleeInfo(O, CCE->getConstructor());
            json::Array args;
            for (const auto* A : CCE->arguments()) {
                args.push_back(child(A));
            }
            O["args"] = std::move(args);
            if (CCE->isElidable()) {
                O["elidable"] = 1;
            }
            if (CCE->getConstructor()->isCopyOrMoveConstructor()) {
                O["copymove"] = 1;
            }
            if (isa<CXXTemporaryObjectExpr>(CCE)) {
                O["temp"] = 1;
            }
        } else if (const auto* ME = dyn_cast<MemberExpr>(St)) {
            O["k"] = "member";
            const ValueDecl* VD = ME->getMemberDecl();
            O["q"] = S.get(plainQName(VD));
            O["name"] = VD->getDeclName().getAsString();
            O["base"] = child(ME->getBase());
            if (ME->isArrow()) {
                O["arrow"] = 1;
            }
            if (isa<FieldDecl>(VD)) {
                O["field"] = 1;
                O["d"] = declId(VD);
            } else if (isa<CXXMethodDecl>(VD)) {
                O["method"] = 1;
            } else if (isa<VarDecl>(VD)) {
                O["staticvar"] = 1;
                O["d"] = declId(VD);
            }
        } else if (const auto* DRE = dyn_cast<DeclRefExpr>(St)) {
            const ValueDecl* VD = DRE->getDecl();
            O["k"] = "var";
            O["name"] = VD->getDeclName().getAsString();
            O["d"] = declId(VD);
            if (const auto* V = dyn_cast<VarDecl>(VD)) {
                if (isa<ParmVarDecl>(V)) {
                    O["vk"] = "param";
                } else if (V->isLocalVarDecl()) {
                    O["vk"] = "local";
                } else if (V->isStaticDataMember()) {
                    O["vk"] = "static_member";
                    O["q"] = S.get(plainQName(V));
                } else {
                    O["vk"] = "global";
                    O["q"] = S.get(plainQName(V));
                }
            } else if (const auto* EC = dyn_cast<EnumConstantDecl>(VD)) {
                O["vk"] = "enumconst";
                O["q"] = S.get(plainQName(EC));
            } else if (const auto* F = dyn_cast<FunctionDecl>(VD)) {
                O["vk"] = "function";
                O["q"] = S.get(plainQName(F));
                O["u"] = S.get(usr(F));
            } else if (isa<FieldDecl>(VD)) {
                O["vk"] = "field";
                O["q"] = S.get(plainQName(VD));
            } else {
                O["vk"] = "other";
            }
            if (DRE->refersToEnclosingVariableOrCapture()) {
                O["captured"] = 1;
            }
        } else if (isa<CXXThisExpr>(St)) {
            O["k"] = "this";
        } else if (const auto* IL = dyn_cast<IntegerLiteral>(St)) {
            O["k"] = "lit";
            llvm::SmallString<32> Str;
            IL->getValue().toString(Str, 10, IL->getType()->isSignedIntegerType());
            O["cv"] = std::string(Str.str());
        } else if (const auto* CL = dyn_cast<CharacterLiteral>(St)) {
            O["k"] = "lit";
            O["char"] = 1;
            O["cv"] = std::to_string(CL->getValue());
        } else if (const auto* BL = dyn_cast<CXXBoolLiteralExpr>(St)) {
            O["k"] = "lit";
            O["cv"] = BL->getValue() ? "1" : "0";
        } else if (const auto* SL = dyn_cast<StringLiteral>(St)) {
            O["k"] = "lit";
            if (SL->getCharByteWidth() == 1) {
                O["str"] = json::fixUTF8(SL->getBytes());
                O["strlen"] = static_cast<int64_t>(SL->getByteLength());
                bool hasnul = SL->getBytes().find('\0') != llvm::StringRef::npos;
                if (hasnul) {
                    json::Array bytes;
                    for (unsigned char ch : SL->getBytes()) {
                        bytes.push_back(static_cast<int>(ch));
                    }
                    O["bytes"] = std::move(bytes);
                }
            }
        } else if (const auto* FL = dyn_cast<FloatingLiteral>(St)) {
            O["k"] = "lit";
            llvm::SmallString<32> Str;
            FL->getValue().toString(Str);
            O["cv"] = std::string(Str.str());
            O["float"] = 1;
        } else if (isa<CXXNullPtrLiteralExpr>(St) || isa<GNUNullExpr>(St)) {
            O["k"] = "lit";
            O["null"] = 1;
        } else if (const auto* CAO = dyn_cast<CompoundAssignOperator>(St)) {
            O["k"] = "assign";
            O["op"] = CAO->getOpcodeStr().str();
            O["lhs"] = child(CAO->getLHS());
            O["rhs"] = child(CAO->getRHS());
        } else if (const auto* BO = dyn_cast<BinaryOperator>(St)) {
            O["k"] = BO->isAssignmentOp() ? "assign" : "binop";
            O["op"] = BO->getOpcodeStr().str();
            O["lhs"] = child(BO->getLHS());
            O["rhs"] = child(BO->getRHS());
        } else if (const auto* UO = dyn_cast<UnaryOperator>(St)) {
            O["k"] = "unop";
            O["op"] = UnaryOperator::getOpcodeStr(UO->getOpcode()).str();
            if (UO->isPostfix()) {
                O["postfix"] = 1;
            }
            O["sub"] = child(UO->getSubExpr());
        } else if (const auto* CO = dyn_cast<ConditionalOperator>(St)) {
            O["k"] = "condop";
            O["cond"] = child(CO->getCond());
            O["then"] = child(CO->getTrueExpr());
            O["else"] = child(CO->getFalseExpr());
        } else if (const auto* ICE = dyn_cast<ImplicitCastExpr>(St)) {
            O["k"] = "icast";
            O["ck"] = ICE->getCastKindName();
            O["sub"] = child(ICE->getSubExpr());
        } else if (const auto* ECE = dyn_cast<ExplicitCastExpr>(St)) {
            O["k"] = "cast";
            O["ck"] = ECE->getCastKindName();
            O["to"] = TS(ECE->getTypeAsWritten());
            O["toC"] = CT(ECE->getTypeAsWritten());
            O["sub"] = child(ECE->getSubExpr());
        } else if (const auto* PE = dyn_cast<ParenExpr>(St)) {
            O["k"] = "wrap";
            O["sub"] = child(PE->getSubExpr());
        } else if (const auto* EWC = dyn_cast<ExprWithCleanups>(St)) {
            O["k"] = "wrap";
            O["sub"] = child(EWC->getSubExpr());
        } else if (const auto* MTE = dyn_cast<MaterializeTemporaryExpr>(St)) {
            O["k"] = "wrap";
            O["sub"] = child(MTE->getSubExpr());
        } else if (const auto* BTE = dyn_cast<CXXBindTemporaryExpr>(St)) {
            O["k"] = "wrap";
            O["sub"] = child(BTE->getSubExpr());
        } else if (const auto* CEx = dyn_cast<ConstantExpr>(St)) {
            O["k"] = "wrap";
            O["sub"] = child(CEx->getSubExpr());
        } else if (const auto* SNT = dyn_cast<SubstNonTypeTemplateParmExpr>(St)) {
            O["k"] = "wrap";
            O["tparam"] = SNT->getParameter()->getName().str();
            O["sub"] = child(SNT->getReplacement());
        } else if (const auto* DAE = dyn_cast<CXXDefaultArgExpr>(St)) {
            O["k"] = "wrap";
            O["defarg"] = 1;
            O["sub"] = child(DAE->getExpr());
        } else if (const auto* DIE = dyn_cast<CXXDefaultInitExpr>(St)) {
            O["k"] = "wrap";
            O["definit"] = 1;
            O["sub"] = child(DIE->getExpr());
        } else if (const auto* ASE = dyn_cast<ArraySubscriptExpr>(St)) {
            O["k"] = "index";
            O["base"] = child(ASE->getBase());
            O["idx"] = child(ASE->getIdx());
        } else if (const auto* ILE = dyn_cast<InitListExpr>(St)) {
            O["k"] = "initlist";
            json::Array a;
            for (const auto* I : ILE->inits()) {
                a.push_back(child(I));
            }
            O["args"] = std::move(a);
        } else if (const auto* NE = dyn_cast<CXXNewExpr>(St)) {
            O["k"] = "new";
            O["alloc"] = T(NE->getAllocatedType());
            if (!NE->getAllocatedType()->isDependentType() && !NE->getAllocatedType()->isIncompleteType()) {
                O["asz"] = static_cast<int64_t>(Ctx.getTypeSizeInChars(NE->getAllocatedType()).getQuantity());
            }
            if (NE->isArray()) {
                O["array"] = 1;
                if (NE->getArraySize()) {
                    O["size"] = child(*NE->getArraySize());
                }
            }
            json::Array pa;
            for (const auto* A : NE->placement_arguments()) {
                pa.push_back(child(A));
            }
            O["placement"] = std::move(pa);
            if (NE->getInitializer()) {
                O["init"] = child(NE->getInitializer());
            }
        } else if (const auto* DE = dyn_cast<CXXDeleteExpr>(St)) {
            O["k"] = "delete";
            O["sub"] = child(DE->getArgument());
        } else if (const auto* TE = dyn_cast<CXXThrowExpr>(St)) {
            O["k"] = "throw";
            if (TE->getSubExpr()) {
                O["sub"] = child(TE->getSubExpr());
                QualType Q = TE->getSubExpr()->getType().getNonReferenceType().getUnqualifiedType();
                O["tt"] = T(Q);
                json::Array bases;
                if (const auto* RD = Q->getAsCXXRecordDecl()) {
                    for (const auto& B : baseClosure(RD)) {
                        bases.push_back(B);
                    }
                }
                O["bases"] = std::move(bases);
            } else {
                O["rethrow"] = 1;
            }
        } else if (const auto* RS = dyn_cast<ReturnStmt>(St)) {
            O["k"] = "return";
            if (RS->getRetValue()) {
                O["sub"] = child(RS->getRetValue());
            }
        } else if (const auto* DS = dyn_cast<DeclStmt>(St)) {
            O["k"] = "decl";
            json::Array vars;
            for (const auto* D : DS->decls()) {
                if (const auto* VD = dyn_cast<VarDecl>(D)) {
                    json::Object V;
                    V["d"] = declId(VD);
                    V["name"] = VD->getName().str();
                    V["t"] = TS(VD->getType());
                    V["tC"] = CT(VD->getType());
                    if (VD->isStaticLocal()) {
                        V["static"] = 1;
                    }
                    if (VD->getInit()) {
                        V["init"] = child(VD->getInit());
                    }
                    vars.push_back(std::move(V));
                }
            }
            O["vars"] = std::move(vars);
        } else if (const auto* LE = dyn_cast<LambdaExpr>(St)) {
            O["k"] = "lambda";
            const CXXMethodDecl* Op = LE->getCallOperator();
            if (Op) {
                O["fn"] = fnId(Op);
            }
            json::Array caps;
            auto InitIt = LE->capture_init_begin();
            for (const auto& C : LE->captures()) {
                json::Object CO;
                if (C.capturesThis()) {
                    CO["this"] = 1;
                } else if (C.capturesVariable()) {
                    CO["d"] = declId(C.getCapturedVar());
                    CO["name"] = C.getCapturedVar()->getName().str();
                    CO["byref"] = C.getCaptureKind() == LCK_ByRef ? 1 : 0;
                }
                if (InitIt != LE->capture_init_end() && *InitIt) {
                    CO["init"] = child(*InitIt);
                }
                if (InitIt != LE->capture_init_end()) {
                    ++InitIt;
                }
                caps.push_back(std::move(CO));
            }
            O["captures"] = std::move(caps);
        } else if (const auto* UETT = dyn_cast<UnaryExprOrTypeTraitExpr>(St)) {
            O["k"] = "sizeof";
            O["trait"] = getTraitSpelling(UETT->getKind());
            if (UETT->isArgumentType()) {
                O["of"] = T(UETT->getArgumentType());
            } else {
                O["ofexpr_t"] = T(UETT->getArgumentExpr()->getType());
            }
        } else if (const auto* SVI = dyn_cast<CXXScalarValueInitExpr>(St)) {
            (void)SVI;
            O["k"] = "lit";
            O["cv"] = "0";
            O["valueinit"] = 1;
        } else if (const auto* SIL = dyn_cast<CXXStdInitializerListExpr>(St)) {
            O["k"] = "wrap";
            O["sub"] = child(SIL->getSubExpr());
        } else if (const auto* OVE = dyn_cast<OpaqueValueExpr>(St)) {
            O["k"] = "wrap";
            if (OVE->getSourceExpr()) {
                O["sub"] = child(OVE->getSourceExpr());
            }
        } else if (const auto* BCO = dyn_cast<BinaryConditionalOperator>(St)) {
            O["k"] = "condop";
            O["cond"] = child(BCO->getCommon());
            O["then"] = child(BCO->getTrueExpr());
            O["else"] = child(BCO->getFalseExpr());
        } else if (const auto* PDE = dyn_cast<CXXPseudoDestructorExpr>(St)) {
            O["k"] = "pseudodtor";
            O["base"] = child(PDE->getBase());
        } else if (const auto* DSM = dyn_cast<CXXDependentScopeMemberExpr>(St)) {
            O["k"] = "depmember";
            O["name"] = DSM->getMember().getAsString();
            if (!DSM->isImplicitAccess()) {
                O["base"] = child(DSM->getBase());
            }
        } else if (const auto* UME = dyn_cast<UnresolvedMemberExpr>(St)) {
            O["k"] = "depmember";
            O["name"] = UME->getMemberName().getAsString();
            if (!UME->isImplicitAccess()) {
                O["base"] = child(UME->getBase());
            }
        } else if (const auto* ULE = dyn_cast<UnresolvedLookupExpr>(St)) {
            O["k"] = "deplookup";
            O["name"] = ULE->getName().getAsString();
        } else {
            // generic statement (if/while/for/switch/compound/break/... used as terminators)
            O["k"] = "stmt";
            if (const auto* IS = dyn_cast<IfStmt>(St)) {
                O["cond"] = child(IS->getCond());
            } else if (const auto* WS = dyn_cast<WhileStmt>(St)) {
                O["cond"] = child(WS->getCond());
            } else if (const auto* DoS = dyn_cast<DoStmt>(St)) {
                O["cond"] = child(DoS->getCond());
            } else if (const auto* FS = dyn_cast<ForStmt>(St)) {
                if (FS->getCond()) {
                    O["cond"] = child(FS->getCond());
                }
            } else if (const auto* SS = dyn_cast<SwitchStmt>(St)) {
                O["cond"] = child(SS->getCond());
            } else if (const auto* RF = dyn_cast<CXXForRangeStmt>(St)) {
                if (RF->getRangeInit()) {
                    O["range"] = child(RF->getRangeInit());
                }
                if (RF->getLoopVariable()) {
                    O["loopvar"] = declId(RF->getLoopVariable());
                    O["loopvar_name"] = RF->getLoopVariable()->getName().str();
                }
            } else if (isa<CompoundStmt>(St) || isa<CXXTryStmt>(St) || isa<CXXCatchStmt>(St) ||
                       isa<BreakStmt>(St) || isa<ContinueStmt>(St) || isa<NullStmt>(St) ||
                       isa<CaseStmt>(St) || isa<DefaultStmt>(St) || isa<GotoStmt>(St) || isa<LabelStmt>(St)) {
                // no children emitted
            } else {
                json::Array ch;
                for (const Stmt* C : St->children()) {
                    if (C) {
                        ch.push_back(child(C));
                    }
                }
                O["ch"] = std::move(ch);
            }
        }
        (*CurNodes)[std::to_string(id)] = std::move(O);
    }

    // ---------------------------------------------------------------- functions

    int fnId(const FunctionDecl* FD) {
        FD = FD->getCanonicalDecl();
        auto it = FnIds.find(FD);
        if (it != FnIds.end()) {
            return it->second;
        }
        int id = NextFn++;
        FnIds[FD] = id;
        return id;
    }

    void collectTries(const Stmt* St, json::Array& Tries, json::Array& Switches, json::Array& Loops) {
        if (!St) {
            return;
        }
        if (isa<LambdaExpr>(St)) {
            return;  // separate function
        }
        if (const auto* TS = dyn_cast<CXXTryStmt>(St)) {
            json::Object TO;
            TO["l"] = lineOf(TS->getBeginLoc());
            TO["b"] = offOf(TS->getTryBlock()->getBeginLoc());
            TO["e"] = offOf(TS->getTryBlock()->getEndLoc());
            json::Array H;
            for (unsigned i = 0; i < TS->getNumHandlers(); ++i) {
                const CXXCatchStmt* CS = TS->getHandler(i);
                json::Object HO;
                HO["l"] = lineOf(CS->getBeginLoc());
                HO["b"] = offOf(CS->getHandlerBlock()->getBeginLoc());
                HO["e"] = offOf(CS->getHandlerBlock()->getEndLoc());
                if (CS->getExceptionDecl()) {
                    QualType Q = CS->getCaughtType().getNonReferenceType().getUnqualifiedType();
                    HO["type"] = Q.getAsString(PP);
                    if (const auto* RD = Q->getAsCXXRecordDecl()) {
                        HO["typeq"] = plainQName(RD);
                    }
                    HO["d"] = declId(CS->getExceptionDecl());
                } else {
                    HO["all"] = 1;
                }
                H.push_back(std::move(HO));
            }
            TO["handlers"] = std::move(H);
            Tries.push_back(std::move(TO));
        }
        if (const auto* SS = dyn_cast<SwitchStmt>(St)) {
            json::Object SO;
            SO["l"] = lineOf(SS->getBeginLoc());
            SO["b"] = offOf(SS->getBeginLoc());
            SO["e"] = offOf(SS->getEndLoc());
            SO["allenum"] = SS->isAllEnumCasesCovered() ? 1 : 0;
            bool hasDefault = false;
            for (const SwitchCase* SC = SS->getSwitchCaseList(); SC; SC = SC->getNextSwitchCase()) {
                if (isa<DefaultStmt>(SC)) {
                    hasDefault = true;
                }
            }
            SO["default"] = hasDefault ? 1 : 0;
            Switches.push_back(std::move(SO));
        }
        if (isa<WhileStmt>(St) || isa<ForStmt>(St) || isa<DoStmt>(St) || isa<CXXForRangeStmt>(St)) {
            json::Object LO;
            LO["l"] = lineOf(St->getBeginLoc());
            LO["b"] = offOf(St->getBeginLoc());
            LO["e"] = offOf(St->getEndLoc());
            LO["cls"] = St->getStmtClassName();
            Loops.push_back(std::move(LO));
        }
        for (const Stmt* C : St->children()) {
            collectTries(C, Tries, Switches, Loops);
        }
    }

    void functionHeader(json::Object& F, const FunctionDecl* FD) {
        F["id"] = fnId(FD);
        F["q"] = S.get(plainQName(FD));
        F["full"] = fullQName(FD);
        F["u"] = S.get(usr(FD));
        F["name"] = FD->getDeclName().getAsString();
        SourceLocation B = SM.getExpansionLoc(FD->getBeginLoc());
        F["file"] = S.get(fileOf(B));
        F["line"] = lineOf(FD->getLocation());
        F["bline"] = lineOf(B);
        F["eline"] = lineOf(FD->getEndLoc());
        F["ret"] = TS(FD->getReturnType());
        F["retC"] = T(FD->getReturnType());
        const FunctionDecl* Pat = FD->getTemplateInstantiationPattern();
        if (Pat) {
            SourceLocation PL = SM.getExpansionLoc(Pat->getLocation());
            F["pat"] = fileOf(PL) + ":" + std::to_string(lineOf(PL)) + ":" + std::to_string(colOf(PL));
            F["inst"] = 1;
        } else {
            SourceLocation PL = SM.getExpansionLoc(FD->getLocation());
            F["pat"] = fileOf(PL) + ":" + std::to_string(lineOf(PL)) + ":" + std::to_string(colOf(PL));
        }
        if (const auto* MD = dyn_cast<CXXMethodDecl>(FD)) {
            const CXXRecordDecl* P = MD->getParent();
            F["cls"] = S.get(plainQName(P));
            F["clsT"] = T(Ctx.getRecordType(P));
            F["clsTargs"] = classTargs(P);
            if (P->isLambda()) {
                F["lambda"] = 1;
                if (const auto* Outer = dyn_cast_or_null<FunctionDecl>(P->getParentFunctionOrMethod())) {
                    F["outer"] = fnId(Outer);
                }
            }
            if (MD->isVirtual()) {
                F["virt"] = 1;
            }
            if (MD->isStatic()) {
                F["static"] = 1;
            }
            if (MD->isConst()) {
                F["const"] = 1;
            }
            json::Array ov;
            for (const auto* O : MD->overridden_methods()) {
                ov.push_back(S.get(usr(O)));
            }
            if (!ov.empty()) {
                F["overrides"] = std::move(ov);
            }
            if (isa<CXXConstructorDecl>(MD)) {
                F["kind"] = "ctor";
            } else if (isa<CXXDestructorDecl>(MD)) {
                F["kind"] = "dtor";
            } else if (isa<CXXConversionDecl>(MD)) {
                F["kind"] = "conv";
            } else if (MD->isOverloadedOperator()) {
                F["kind"] = "operator";
            } else {
                F["kind"] = "method";
            }
            switch (MD->getAccess()) {
                case AS_public: F["access"] = "public"; break;
                case AS_protected: F["access"] = "protected"; break;
                case AS_private: F["access"] = "private"; break;
                default: break;
            }
        } else {
            F["kind"] = FD->isOverloadedOperator() ? "operator" : "function";
        }
        if (const auto* FPT = FD->getType()->getAs<FunctionProtoType>()) {
            if (FPT->getExceptionSpecType() != EST_Unevaluated && FPT->getExceptionSpecType() != EST_Uninstantiated &&
                FPT->getExceptionSpecType() != EST_Unparsed && FPT->isNothrow()) {
                F["noexcept"] = 1;
            }
        }
        if (FD->isNoReturn()) {
            F["noret"] = 1;
        }
        json::Array Ps;
        for (const auto* P : FD->parameters()) {
            json::Object PO;
            PO["d"] = declId(P);
            PO["name"] = P->getName().str();
            PO["t"] = TS(P->getType());
            PO["tC"] = CT(P->getType());
            Ps.push_back(std::move(PO));
        }
        F["params"] = std::move(Ps);
        if (const auto* TA = FD->getTemplateSpecializationArgs()) {
            json::Array A;
            for (const auto& Arg : TA->asArray()) {
                std::string s;
                llvm::raw_string_ostream os(s);
                Arg.print(PP, os, true);
                os.flush();
                A.push_back(s);
            }
            F["targs"] = std::move(A);
        }
    }

    void emitFunction(const FunctionDecl* FD) {
        if (!FD->doesThisDeclarationHaveABody()) {
            return;
        }
        if (!SeenFns.insert(FD).second) {
            return;
        }
        if (FD->isDependentContext()) {
            json::Object P;
            P["q"] = S.get(plainQName(FD));
            SourceLocation PL = SM.getExpansionLoc(FD->getLocation());
            P["pat"] = fileOf(PL) + ":" + std::to_string(lineOf(PL)) + ":" + std::to_string(colOf(PL));
            P["file"] = S.get(fileOf(PL));
            P["line"] = lineOf(PL);
            Patterns.push_back(std::move(P));
            return;
        }
        const Stmt* Body = FD->getBody();
        if (!Body) {
            return;
        }
        json::Object F;
        functionHeader(F, FD);
        CurFile = SM.getFileID(SM.getExpansionLoc(FD->getBeginLoc()));
        F["bo"] = offOf(Body->getBeginLoc());
        F["eo"] = offOf(Body->getEndLoc());

        CFG::BuildOptions BO;
        BO.setAllAlwaysAdd();
        BO.AddImplicitDtors = true;
        BO.AddInitializers = true;
        BO.AddTemporaryDtors = false;
        BO.AddEHEdges = false;
        BO.PruneTriviallyFalseEdges = true;
        std::unique_ptr<CFG> G = CFG::buildCFG(FD, const_cast<Stmt*>(Body), &Ctx, BO);
        if (!G) {
            F["nocfg"] = 1;
            ++Errors;
            pushFunction(std::move(F));
            return;
        }

        json::Object Nodes;
        CurNodes = &Nodes;
        NodeIds.clear();
        NextNode = 0;

        // pass 1: ids for every statement that is a CFG element, in CFG order
        for (const CFGBlock* B : *G) {
            for (const CFGElement& E : *B) {
                if (auto SE = E.getAs<CFGStmt>()) {
                    const Stmt* St = SE->getStmt();
                    if (!NodeIds.count(St)) {
                        NodeIds[St] = NextNode++;
                    }
                }
            }
        }
        std::vector<std::pair<const Stmt*, int>> ElemStmts(NodeIds.begin(), NodeIds.end());
        // pass 2: emit nodes
        for (const auto& P : ElemStmts) {
            emitNode(P.first, P.second);
        }

        json::Array Blocks;
        for (const CFGBlock* B : *G) {
            json::Object BOj;
            BOj["id"] = B->getBlockID();
            json::Array Elems;
            for (const CFGElement& E : *B) {
                if (auto SE = E.getAs<CFGStmt>()) {
                    Elems.push_back(NodeIds[SE->getStmt()]);
                } else if (auto IE = E.getAs<CFGInitializer>()) {
                    const CXXCtorInitializer* I = IE->getInitializer();
                    int id = NextNode++;
                    json::Object O;
                    O["k"] = "init";
                    O["cls"] = "CtorInitializer";
                    loc(O, I->getSourceLocation());
                    if (I->isAnyMemberInitializer()) {
                        O["q"] = S.get(plainQName(I->getAnyMember()));
                        O["name"] = I->getAnyMember()->getName().str();
                        O["d"] = declId(I->getAnyMember());
                    } else if (I->isBaseInitializer()) {
                        O["base_t"] = T(QualType(I->getBaseClass(), 0));
                    } else if (I->isDelegatingInitializer()) {
                        O["delegating"] = 1;
                    }
                    if (I->isWritten()) {
                        O["written"] = 1;
                    }
                    if (I->getInit()) {
                        O["init"] = child(I->getInit());
                    }
                    Nodes[std::to_string(id)] = std::move(O);
                    Elems.push_back(id);
                } else if (auto DE = E.getAs<CFGAutomaticObjDtor>()) {
                    int id = NextNode++;
                    json::Object O;
                    O["k"] = "autodtor";
                    O["cls"] = "AutomaticObjDtor";
                    const VarDecl* VD = DE->getVarDecl();
                    O["d"] = declId(VD);
                    O["name"] = VD->getName().str();
                    O["t"] = T(VD->getType());
                    if (const CXXDestructorDecl* DD = DE->getDestructorDecl(Ctx)) {
                        calleeInfo(O, DD);
                    }
                    if (DE->getTriggerStmt()) {
                        loc(O, DE->getTriggerStmt()->getEndLoc());
                    }
                    Nodes[std::to_string(id)] = std::move(O);
                    Elems.push_back(id);
                } else if (auto MDt = E.getAs<CFGMemberDtor>()) {
                    int id = NextNode++;
                    json::Object O;
                    O["k"] = "memberdtor";
                    O["cls"] = "MemberDtor";
                    O["name"] = MDt->getFieldDecl()->getName().str();
                    O["q"] = S.get(plainQName(MDt->getFieldDecl()));
                    Nodes[std::to_string(id)] = std::move(O);
                    Elems.push_back(id);
                } else if (auto BD = E.getAs<CFGBaseDtor>()) {
                    int id = NextNode++;
                    json::Object O;
                    O["k"] = "basedtor";
                    O["cls"] = "BaseDtor";
                    O["base_t"] = T(BD->getBaseSpecifier()->getType());
                    Nodes[std::to_string(id)] = std::move(O);
                    Elems.push_back(id);
                }
            }
            BOj["elems"] = std::move(Elems);
            json::Array Succs;
            for (auto SI = B->succ_begin(); SI != B->succ_end(); ++SI) {
                const CFGBlock* SB = SI->getReachableBlock();
                if (SB) {
                    Succs.push_back(SB->getBlockID());
                } else {
                    Succs.push_back(nullptr);
                }
            }
            BOj["succs"] = std::move(Succs);
            if (const Stmt* Term = B->getTerminatorStmt()) {
                BOj["term"] = child(Term);
                BOj["termcls"] = Term->getStmtClassName();
                if (const Stmt* TC = B->getTerminatorCondition(false)) {
                    BOj["cond"] = child(TC);
                }
            }
            if (B->hasNoReturnElement()) {
                BOj["noreturn"] = 1;
            }
            if (const Stmt* L = B->getLabel()) {
                if (const auto* CS = dyn_cast<CaseStmt>(L)) {
                    json::Object LO;
                    LO["case"] = child(CS->getLHS());
                    LO["o"] = offOf(CS->getBeginLoc());
                    LO["l"] = lineOf(CS->getBeginLoc());
                    if (CS->getRHS()) {
                        LO["case_hi"] = child(CS->getRHS());
                    }
                    BOj["label"] = std::move(LO);
                } else if (const auto* DS = dyn_cast<DefaultStmt>(L)) {
                    json::Object LO;
                    LO["default"] = 1;
                    LO["o"] = offOf(DS->getBeginLoc());
                    LO["l"] = lineOf(DS->getBeginLoc());
                    BOj["label"] = std::move(LO);
                } else if (const auto* CatchS = dyn_cast<CXXCatchStmt>(L)) {
                    json::Object LO;
                    LO["catch"] = 1;
                    LO["o"] = offOf(CatchS->getHandlerBlock()->getBeginLoc());
                    BOj["label"] = std::move(LO);
                }
            }
            Blocks.push_back(std::move(BOj));
        }
        F["entry"] = G->getEntry().getBlockID();
        F["exit"] = G->getExit().getBlockID();
        F["blocks"] = std::move(Blocks);

        json::Array Tries, Switches, Loops;
        collectTries(Body, Tries, Switches, Loops);
        if (const auto* CD = dyn_cast<CXXConstructorDecl>(FD)) {
            (void)CD;
        }
        F["tries"] = std::move(Tries);
        F["switches"] = std::move(Switches);
        F["loops"] = std::move(Loops);
        F["nodes"] = std::move(Nodes);
        CurNodes = nullptr;
        pushFunction(std::move(F));
    }

    bool VisitFunctionDecl(FunctionDecl* FD) {
        if (!FD->isThisDeclarationADefinition()) {
            return true;
        }
        if (!inRoots(FD->getLocation())) {
            return true;
        }
        if (FD->isDefaulted() || FD->isDeleted()) {
            return true;
        }
        emitFunction(FD);
        return true;
    }

    bool VisitLambdaExpr(LambdaExpr* LE) {
        if (!inRoots(LE->getBeginLoc())) {
            return true;
        }
        if (const auto* Op = LE->getCallOperator()) {
            if (!Op->isDependentContext()) {
                emitFunction(Op);
            }
        }
        return true;
    }

    bool VisitCXXRecordDecl(CXXRecordDecl* RD) {
        if (!RD->isThisDeclarationADefinition() || !RD->isCompleteDefinition()) {
            return true;
        }
        SourceLocation RLoc = RD->getLocation();
        if (const CXXRecordDecl* Pat = RD->getTemplateInstantiationPattern()) {
            RLoc = Pat->getLocation();
        }
        if (!inRoots(RLoc)) {
            return true;
        }
        if (RD->isDependentContext() || RD->isLambda()) {
            return true;
        }
        if (!SeenRecords.insert(RD).second) {
            return true;
        }
        json::Object R;
        R["q"] = S.get(plainQName(RD));
        R["full"] = T(Ctx.getRecordType(RD));
        R["file"] = S.get(fileOf(RLoc));
        R["line"] = lineOf(RLoc);
        if (isa<ClassTemplateSpecializationDecl>(RD)) {
            R["inst"] = 1;
            R["targs"] = classTargs(RD);
        }
        json::Array Bases;
        for (const auto& B : RD->bases()) {
            json::Object BO;
            BO["t"] = T(B.getType());
            if (const auto* BR = B.getType()->getAsCXXRecordDecl()) {
                BO["q"] = S.get(plainQName(BR));
            }
            BO["virtual"] = B.isVirtual() ? 1 : 0;
            Bases.push_back(std::move(BO));
        }
        R["bases"] = std::move(Bases);
        json::Array AllBases;
        for (const auto& B : baseClosure(RD)) {
            AllBases.push_back(B);
        }
        R["allbases"] = std::move(AllBases);
        json::Array Fields;
        for (const auto* FDl : RD->fields()) {
            json::Object FO;
            FO["name"] = FDl->getName().str();
            FO["q"] = S.get(plainQName(FDl));
            FO["d"] = declId(FDl);
            FO["t"] = TS(FDl->getType());
            FO["tC"] = CT(FDl->getType());
            FO["idx"] = FDl->getFieldIndex();
            FO["l"] = lineOf(FDl->getLocation());
            QualType Q = FDl->getType();
            if (Q->isPointerType() || Q->isReferenceType()) {
                FO["ptr"] = 1;
                FO["pointee"] = CT(Q->getPointeeType());
            }
            if (const auto* FR = Q->getBaseElementTypeUnsafe()->getAsCXXRecordDecl()) {
                FO["rec"] = S.get(plainQName(FR));
                if (FR->hasDefinition()) {
                    FO["trivial_dtor"] = FR->hasTrivialDestructor() ? 1 : 0;
                }
            } else {
                FO["trivial_dtor"] = 1;
            }
            if (FDl->hasInClassInitializer()) {
                FO["has_init"] = 1;
            }
            switch (FDl->getAccess()) {
                case AS_public: FO["access"] = "public"; break;
                case AS_protected: FO["access"] = "protected"; break;
                case AS_private: FO["access"] = "private"; break;
                default: break;
            }
            Fields.push_back(std::move(FO));
        }
        R["fields"] = std::move(Fields);
        json::Array Methods;
        for (const auto* D : RD->decls()) {
            const CXXMethodDecl* MD = dyn_cast<CXXMethodDecl>(D);
            if (!MD) {
                if (const auto* FT = dyn_cast<FunctionTemplateDecl>(D)) {
                    MD = dyn_cast<CXXMethodDecl>(FT->getTemplatedDecl());
                }
            }
            if (!MD || MD->isImplicit()) {
                continue;
            }
            json::Object MO;
            MO["name"] = MD->getDeclName().getAsString();
            MO["q"] = S.get(plainQName(MD));
            MO["u"] = S.get(usr(MD));
            MO["l"] = lineOf(MD->getLocation());
            if (MD->isVirtual()) {
                MO["virt"] = 1;
            }
            if (MD->isPure()) {
                MO["pure"] = 1;
            }
            if (MD->isDeleted()) {
                MO["deleted"] = 1;
            }
            if (MD->isDefaulted()) {
                MO["defaulted"] = 1;
            }
            if (MD->isStatic()) {
                MO["static"] = 1;
            }
            if (MD->isConst()) {
                MO["const"] = 1;
            }
            if (isa<CXXConstructorDecl>(MD)) {
                MO["kind"] = "ctor";
                const auto* CD = cast<CXXConstructorDecl>(MD);
                if (CD->isCopyConstructor()) {
                    MO["copy"] = 1;
                }
                if (CD->isMoveConstructor()) {
                    MO["move"] = 1;
                }
            } else if (isa<CXXDestructorDecl>(MD)) {
                MO["kind"] = "dtor";
            } else {
                MO["kind"] = "method";
                if (MD->isCopyAssignmentOperator()) {
                    MO["copyassign"] = 1;
                }
                if (MD->isMoveAssignmentOperator()) {
                    MO["moveassign"] = 1;
                }
            }
            switch (MD->getAccess()) {
                case AS_public: MO["access"] = "public"; break;
                case AS_protected: MO["access"] = "protected"; break;
                case AS_private: MO["access"] = "private"; break;
                default: break;
            }
            json::Array Ps;
            for (const auto* P : MD->parameters()) {
                Ps.push_back(P->getType().getAsString(PP));
            }
            MO["params"] = std::move(Ps);
            MO["ret"] = T(MD->getReturnType());
            json::Array ov;
            for (const auto* O : MD->overridden_methods()) {
                ov.push_back(S.get(usr(O)));
            }
            if (!ov.empty()) {
                MO["overrides"] = std::move(ov);
            }
            if (const auto* FPT = MD->getType()->getAs<FunctionProtoType>()) {
                auto EST = FPT->getExceptionSpecType();
                if (EST != EST_Unevaluated && EST != EST_Uninstantiated && EST != EST_Unparsed && FPT->isNothrow()) {
                    MO["noexcept"] = 1;
                }
            }
            Methods.push_back(std::move(MO));
        }
        R["methods"] = std::move(Methods);
        if (const CXXDestructorDecl* DD = RD->getDestructor()) {
            R["user_dtor"] = DD->isUserProvided() ? 1 : 0;
        }
        R["trivial_dtor"] = RD->hasTrivialDestructor() ? 1 : 0;
        // static data members with constant initialisers
        json::Array Statics;
        for (const auto* D : RD->decls()) {
            if (const auto* VD = dyn_cast<VarDecl>(D)) {
                if (!VD->isStaticDataMember()) {
                    continue;
                }
                json::Object SO;
                SO["name"] = VD->getName().str();
                SO["q"] = S.get(plainQName(VD));
                SO["t"] = T(VD->getType());
                SO["l"] = lineOf(VD->getLocation());
                if (const Expr* Init = VD->getAnyInitializer()) {
                    if (!Init->isValueDependent()) {
                        Expr::EvalResult ER;
                        if (Init->getType()->isIntegralOrEnumerationType() && Init->EvaluateAsInt(ER, Ctx)) {
                            llvm::SmallString<32> Str;
                            ER.Val.getInt().toString(Str, 10);
                            SO["cv"] = std::string(Str.str());
                        } else if (Init->getType()->isFloatingType() && Init->EvaluateAsRValue(ER, Ctx) && ER.Val.isFloat()) {
                            llvm::SmallString<32> Str;
                            ER.Val.getFloat().toString(Str);
                            SO["cv"] = std::string(Str.str());
                        }
                    }
                }
                Statics.push_back(std::move(SO));
            }
        }
        R["statics"] = std::move(Statics);
        Records.push_back(std::move(R));
        return true;
    }

    bool VisitVarDecl(VarDecl* VD) {
        // namespace-scope constants (constexpr / const with constant initialiser)
        if (!VD->isFileVarDecl() || VD->isStaticDataMember()) {
            return true;
        }
        if (!inRoots(VD->getLocation())) {
            return true;
        }
        if (!VD->isThisDeclarationADefinition() || VD->getDeclContext()->isDependentContext()) {
            return true;
        }
        json::Object SO;
        SO["name"] = VD->getName().str();
        SO["q"] = S.get(plainQName(VD));
        SO["t"] = T(VD->getType());
        SO["l"] = lineOf(VD->getLocation());
        SO["file"] = S.get(fileOf(VD->getLocation()));
        if (const Expr* Init = VD->getAnyInitializer()) {
            if (!Init->isValueDependent() && !Init->isTypeDependent()) {
                Expr::EvalResult ER;
                if (Init->getType()->isIntegralOrEnumerationType() && Init->EvaluateAsInt(ER, Ctx)) {
                    llvm::SmallString<32> Str;
                    ER.Val.getInt().toString(Str, 10);
                    SO["cv"] = std::string(Str.str());
                } else if (Init->getType()->isFloatingType() && Init->EvaluateAsRValue(ER, Ctx) && ER.Val.isFloat()) {
                    llvm::SmallString<32> Str;
                    ER.Val.getFloat().toString(Str);
                    SO["cv"] = std::string(Str.str());
                }
            }
        }
        Globals.push_back(std::move(SO));
        return true;
    }

    bool VisitEnumDecl(EnumDecl* ED) {
        if (!ED->isThisDeclarationADefinition() || !inRoots(ED->getLocation())) {
            return true;
        }
        if (ED->isDependentContext()) {
            return true;
        }
        if (!SeenEnums.insert(ED).second) {
            return true;
        }
        json::Object EO;
        EO["q"] = S.get(plainQName(ED));
        EO["file"] = S.get(fileOf(ED->getLocation()));
        EO["line"] = lineOf(ED->getLocation());
        EO["underlying"] = T(ED->getIntegerType());
        json::Array Es;
        for (const auto* EC : ED->enumerators()) {
            json::Object C;
            C["name"] = EC->getName().str();
            llvm::SmallString<32> Str;
            EC->getInitVal().toString(Str, 10);
            C["value"] = std::string(Str.str());
            C["l"] = lineOf(EC->getLocation());
            Es.push_back(std::move(C));
        }
        EO["enumerators"] = std::move(Es);
        Enums.push_back(std::move(EO));
        return true;
    }

    json::Array Globals;

    void write(llvm::StringRef MainFile) {
        std::error_code EC;
        llvm::raw_fd_ostream OS(g_out, EC);
        if (EC) {
            llvm::errs() << "osmfacts: cannot write " << g_out << ": " << EC.message() << "\n";
            exit(3);
        }
        json::Object Root;
        Root["unit"] = MainFile.str();
        Root["records"] = std::move(Records);
        Root["enums"] = std::move(Enums);
        Root["globals"] = std::move(Globals);
        Root["patterns"] = std::move(Patterns);
        Root["cfg_errors"] = static_cast<int64_t>(Errors);
        json::Array Strs;
        for (const auto& s : S.strs) {
            Strs.push_back(json::fixUTF8(s));
        }
        Root["S"] = std::move(Strs);
        OS << "{\"functions\":[";
        for (size_t i = 0; i < Functions.size(); ++i) {
            if (i) {
                OS << ",\n";
            }
            OS << Functions[i];
        }
        OS << "],\n\"rest\":" << json::Value(std::move(Root)) << "}\n";
    }
};

class Consumer : public ASTConsumer {
    std::string Main;

public:
    explicit Consumer(std::string M) : Main(std::move(M)) {}
    void HandleTranslationUnit(ASTContext& Ctx) override {
        if (Ctx.getDiagnostics().hasErrorOccurred()) {
            llvm::errs() << "osmfacts: parse errors in " << Main << "\n";
            exit(4);
        }
        Extractor X(Ctx);
        X.TraverseDecl(Ctx.getTranslationUnitDecl());
        X.write(Main);
    }
};

class Action : public ASTFrontendAction {
public:
    std::unique_ptr<ASTConsumer> CreateASTConsumer(CompilerInstance&, llvm::StringRef File) override {
        return std::make_unique<Consumer>(File.str());
    }
};

class Factory : public tooling::FrontendActionFactory {
public:
    std::unique_ptr<FrontendAction> create() override { return std::make_unique<Action>(); }
};

}  // namespace

int main(int argc, const char** argv) {
    std::vector<std::string> files;
    std::vector<std::string> flags;
    bool after = false;
    for (int i = 1; i < argc; ++i) {
        std::string a = argv[i];
        if (after) {
            flags.push_back(a);
        } else if (a == "--") {
            after = true;
        } else if (a == "--out" && i + 1 < argc) {
            g_out = argv[++i];
        } else if (a == "--root" && i + 1 < argc) {
            g_roots.emplace_back(argv[++i]);
        } else {
            files.push_back(a);
        }
    }
    if (files.size() != 1 || g_out.empty() || g_roots.empty()) {
        llvm::errs() << "usage: osmfacts --out F --root DIR [--root DIR] file.cpp -- flags\n";
        return 2;
    }
    tooling::FixedCompilationDatabase DB(".", flags);
    tooling::ClangTool Tool(DB, files);
    Factory F;
    int r = Tool.run(&F);
    return r;
}
