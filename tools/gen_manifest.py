#!/usr/bin/env python3
"""Regenerate MANIFEST.json from the per-property tables below (keeps the file valid and consistent)."""
import json
import os

VERIF = os.path.dirname(os.path.dirname(os.path.abspath(__file__)))

CLAIMED = {
    'C19': dict(
        technique='static analysis: lockset + wake-up pairing dataflow on clang CFGs of every Queue<T> instantiation (custom libTooling extractor + Python rules)',
        text='Decides the monitor discipline of thread::Queue (all std::queue accesses under the mutex; insert->notify consumers and '
             'remove->notify producers on every CFG path; wait predicate contains the shutdown flag; shutdown stores the flag before '
             'notify_all; front-before-pop; exactly one insertion; no call-outs under the lock) and the structural exactly-once links of '
             'Pool (worker loop exit, call() variants, one stop task per worker, joiner order, future-before-push). These are necessary '
             'conditions; FIFO/loss-freedom under real interleavings is NOT decided by this technique.',
        design='5/C19', note='trusts clang 14 CFG, libstdc++ semantics of mutex/condition_variable/queue/packaged_task, driver instantiation set'),
}

NOT_APPLICABLE = {
}

ALL = ['C%02d' % i for i in range(1, 21)]


def main():
    checks = []
    for pid in ALL:
        if pid not in CLAIMED:
            continue
        c = CLAIMED[pid]
        checks.append({
            'property_id': pid,
            'quick_cmd': './check %s --tier quick' % pid,
            'thorough_cmd': './check %s --tier thorough' % pid,
            'evidence_file': 'evidence/%s.json' % pid,
            'replay_cmd_template': './check %s --replay {path}' % pid,
            'engine': 'osmlint',
            'level_claimed': {'category': 'other', 'text': c['text'], 'design_ref': c['design']},
            'level_note': c['note'],
            'technique': c['technique'],
        })
    na = []
    for pid in ALL:
        if pid in CLAIMED:
            continue
        na.append({'property_id': pid, 'reason': NOT_APPLICABLE.get(pid, 'check not built yet in this revision; see DESIGN.md section 5 for the planned structural clauses')})
    man = {
        'version': 1,
        'setup_cmd': './setup.sh',
        'hooks': {
            'guard': 'OSMIUM_VERIF',
            'enable': 'no hooks are needed: all analyses read the unmodified headers; the guard name is reserved only',
            'baseline_off_cmd': 'cmake --build /repo/_build -j16 && ctest --test-dir /repo/_build -j8 --timeout 900',
            'source_commits': [],
            'add_only': True,
        },
        'engines': [
            {'name': 'osmfacts', 'path': 'tools/osmfacts.cpp', 'serves_properties': sorted(CLAIMED),
             'kind_free_text': 'libTooling fact extractor: resolved calls, CFG (setAllAlwaysAdd), records, enums of every instantiated function under /repo/include/osmium'},
            {'name': 'osmlint', 'path': 'osmlint/', 'serves_properties': sorted(CLAIMED),
             'kind_free_text': 'Python rule engines over the fact base (lockset, path search with barriers, guards/dominators, table agreement)'},
        ],
        'checks': checks,
        'not_applicable': na,
        'notes': 'Static analysis only. exit 0 held / exit 1 VIOLATION / exit 2 analysis-broken (anchor vanished, instance floor not met). '
                 'Known findings: known_findings.txt. Self-validation mutants: selftest/run.py (never part of a verdict).',
    }
    with open(os.path.join(VERIF, 'MANIFEST.json'), 'w') as f:
        json.dump(man, f, indent=1)
        f.write('\n')


if __name__ == '__main__':
    main()
