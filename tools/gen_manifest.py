#!/usr/bin/env python3
"""Regenerate MANIFEST.json from the per-property tables below (keeps the file valid and consistent)."""
import json
import os

VERIF = os.path.dirname(os.path.dirname(os.path.abspath(__file__)))

CLAIMED = {
    'C18': dict(
        technique='static analysis: dataflow of every tile-number return through the clamp, ORDERTYPE/model-interpreter proof of the clamp over all order types incl. +-inf and NaN, constant evaluation',
        text='Decides ONLY the in-range clause, the float->integer conversion guard and constants: the tile number returned by mercx_to_tilex/mercy_to_tiley is the clamp of the scaled '
             'offset into [0, num_tiles_in_zoom(zoom)-1], every floating->integer conversion on the way is range-guarded in the floating domain (K6, found defect F22), num_tiles = 1<<zoom, '
             'Tile constructors route the right axis through the right function and assert exactly zoom <= max_zoom; Tile::valid() predicate; 30 <= max_zoom <= 31; '
             'earth-radius / max-coordinate / max-latitude / deg-rad factors agree bit for bit. NOT decided (numerical, outside this technique): accuracy of the latitude approximation, '
             'strict monotonicity, projection round trip, tile nesting across zooms.',
        design='5/C18', note='narrow structural clause only; trusts clang constant folding'),
    'C19': dict(
        technique='static analysis: lockset + wake-up pairing dataflow on clang CFGs of every Queue<T> instantiation (custom libTooling extractor + Python rules)',
        text='Decides the monitor discipline of thread::Queue (all std::queue accesses under the mutex; insert->notify consumers and '
             'remove->notify producers on every CFG path; wait predicate contains the shutdown flag; shutdown stores the flag before '
             'notify_all; front-before-pop; exactly one insertion; no call-outs under the lock) and the structural exactly-once links of '
             'Pool (worker loop exit, call() variants, one stop task per worker, joiner order, future-before-push). These are necessary '
             'conditions; FIFO/loss-freedom under real interleavings is NOT decided by this technique.',
        design='5/C19', note='trusts clang 14 CFG, libstdc++ semantics of mutex/condition_variable/queue/packaged_task, driver instantiation set'),

    'C01': dict(
        technique='static analysis: writer/reader table agreement (CODEC) extracted from the resolved PBF/XML/OPL encoder and decoder code, with the proto types in protobuf_tags.hpp as specification witness',
        text='Decides agreement of what the writers emit with what the readers decode: every emitted PBF field has a consuming decoder case with matching scalar kind, '
             'zig-zag-ness, packedness and delta coding (both sides checked against the proto type named in the enumerator); DenseNodes/Info columns are pushed and '
             'serialised under the same option gates; block limits (can_add evaluated over all orderings; constants); XML element/attribute names and OPL field letters '
             'the writers emit are dispatched on by the readers; writer getter and reader setter pair the same attribute; lon/lat axis and bbox corners agree across formats. '
             'NOT decided: value-level equality of the round trip, string-table arithmetic, compression layers, escaping (C14).',
        design='5/C01', note='trusts clang template instantiation of the drivers, the enumerator-name convention of protobuf_tags.hpp, protozero accessor semantics'),
    'C03': dict(
        technique='static analysis: guard-dominance ("checkpoint edge") rules over a frozen table of protected operations, escaping-exception analysis, builder-protocol typestate of the XML state machine, thrown-type closure',
        text='Decides presence and placement of each protective mechanism on every path to the operation it protects: string-table access only via at() with out_of_range mapped; length '
             'bounds before every string-table insert and builder append; blob/header size limits before use on both input paths; o5m section ends, reference-table bounds, bytes-available '
             'and cursor dereferences end-checked; member types range-checked; expat callbacks noexcept and contained, exception stored and parser stopped, entity declarations rejected; '
             'every throw under io/builder/osm derives from std::exception; UTF-8 decode bounded; length-carrying add_tag call sites NUL-safe (two instances are the genuine defect F4); XML '
             'comment obligation closed exactly once (two instances are the genuine defect F3); sub-builders reset before siblings/objects; who-may-abort list. '
             'NOT decided: absence of out-of-bounds access in general, termination, protozero internals.',
        design='5/C03', note='verifies presence and placement of the named guards only; trusts clang CFG, the frozen guard table'),
    'C04': dict(
        technique='static analysis: storage-alias (use-after-relocation) dataflow over CFGs with interprocedural relocation summaries; member typestate; symbolic size-conservation; CFG pairing rules',
        text='Decides: no local/parameter/member pointer, reference or iterator into Buffer storage is used after a call that may relocate the storage (relocating calls closed '
             'over the resolved call graph incl. sub-builder ctors/dtors); Buffer::m_data is re-pointed after every m_memory mutation, swap/move touch every field; growth copies '
             'before it swaps, grow_internal only with committed data; for every builder method/ctor/dtor the bytes reserved/appended equal the bytes added to the own item and '
             'to the ancestors (numeric per instantiation for constructors); padding in destructors and after variable-length members; purge_removed: callback before move, '
             'nothing read through the read iterator after the move, counters from the write iterator; non-copyable/non-movable witnesses. '
             'NOT decided: byte equality of stored content, padded_length arithmetic.',
        design='5/C04', note='trusts the frozen relocating/derivation tables (DESIGN appendix B), clang CFG; untracked: references with unknown root (function parameters)'),
    'C02': dict(
        technique='static analysis: PBF dispatch-table rules over the resolved decoder (CODEC), dependency/formula extraction for block parameters, exhaustive 256-value evaluation of byte predicates, o5m ring constants by role',
        text='Decides: every tag_and_type switch has a default that skips exactly once and every case consumes its field exactly once on each path; every field of the spec enums has a '
             'reader case; lon/lat conversion is (v*granularity+own offset)/resolution and every Location/timestamp in the block decoder goes through it; block parameters are assigned '
             'only from their own field, with spec defaults, before the data pass; the 4-byte blob length is big-endian with zero-extended bytes and both input paths apply the size '
             'limit; o5m reset clears every delta decoder and the reference table exactly on 0xff; o5m reference ring add/get/constants agree. One instance is a genuine defect (F15). '
             'NOT decided: decoded values vs an independent encoder, delta chains, XML/OPL decoding, agreement of the four readers.',
        design='5/C02', note='trusts protobuf_tags.hpp as spec witness, clang constant folding, driver instantiation set; o5m window validity is decided under C06'),
    'C06': dict(
        technique='static analysis: member typestate for window pointers aliasing the carry-over string (STALE), mutation whitelist and CFG pairing/loop-exit rules on every carry-over buffer',
        text='Decides: window pointers into the o5m carry-over string are re-derived after every relocating call before each normal exit (two instances are the genuine defect F2); '
             'every mutation of a carry-over member is append-whole-piece / erase-consumed-prefix / keep-suffix; every popped piece is kept or fed before the next pop; refill loops exit '
             'only when enough bytes are present; truncation/EOF decisions are guarded by the queue\'s end-of-input state; XML_Parse gets the piece and isFinal from the queue state; '
             'fixed-size fd reads go through an accumulating read_exactly. NOT decided: equality of results for every segmentation, CR/LF logic, PBF refill arithmetic.',
        design='5/C06', note='trusts clang CFG, the STALE relocation/derivation tables for std::string'),
    'C07': dict(
        technique='static analysis: interprocedural escaping-exception fixpoint + CFG must-pass/post-dominance + member-order (LAYOUT) rules over the libTooling fact base',
        text='Decides the structural links of the reader pipeline: thread entries cannot leak an exception; catch-all handlers forward current_exception and '
             'end-of-data on all paths; header promise set exactly once under a test-and-set flag and on every normal exit of each Parser::run; Reader '
             'status gating, handler closes/marks error/rethrows; close() shuts the result queue down before joining, is idempotent and raises the stop flag; '
             'destructors under io/ and thread/ swallow; members referenced by threads are declared before the joiner; producers cannot block on a shut-down '
             'queue. NOT decided: deadlock freedom under interleavings, thread leak counts, which error is first.',
        design='5/C07', note='trusts clang CFG/try ranges (no EH edges), std throw model limited to future::get/rethrow_exception/at(); driver instantiation set'),
    'C08': dict(
        technique='static analysis: error-discipline (ERRDISC) three-valued path walk from every OS/zlib/bz2/lz4 call on the write path + CFG pairing rules',
        text='Decides that no OS/library error on the write path can reach a normal exit (result tested, failing edge throws), that reliable_write completes '
             'short writes, that each Compressor::close flushes the layer, fsyncs when requested and closes the descriptor in that order, that the write thread '
             'forwards exceptions into the promise and shuts the queue down, that every Writer mutator is gated by ensure_cleanup, close() gets the future, '
             'end-of-data is pushed once, and encoder/compressor errors travel as futures. NOT decided: bytes on disk for every fault offset (needs fault injection), '
             'partial-write semantics inside zlib/bz2.',
        design='5/C08', note='trusts the frozen error-convention table (DESIGN appendix B), clang CFG, driver instantiation set'),
    'C09': dict(
        technique='static analysis: error-discipline path walk (ERRDISC) on the read side + status-assumption walks over each Decompressor::read (library status -> reachable returns/assignments)',
        text='Decides per decompressor: every zlib/bz2/OS error on the read path reaches a throw; the returned chunk length is the library byte count; under a "more to come" '
             'status read() cannot return an empty chunk (= end marker); at stream end the next stream is started and end of data is declared only after the library\'s '
             'unconsumed input was tested to be empty (feof alone does not count); unused bytes are copied before the handle is closed and handed to the re-open; close() closes '
             'the library handle and resets it before it can throw; the read thread closes inside its try and forwards every chunk. Eight instances are genuine defects of the '
             'unchanged tree (known findings F5a/F5b/F11). NOT decided: byte equality with a reference decompressor, read-ahead alignments, gzread\'s internal member handling.',
        design='5/C09', note='trusts the frozen zlib/bz2 convention table, clang CFG'),
    'C17': dict(
        technique='static analysis: CFG pairing/typestate rules (count==emit, start/finish, WKB back-patching), ORDERTYPE on degenerate-input thresholds, sibling agreement of the three back ends',
        text='Decides for the factory and the WKB/WKT/GeoJSON back ends: on every path the number of emitted locations equals the returned counter; start/finish typestate of '
             'linestrings, polygons and multipolygons incl. ring grouping; WKB size placeholders are back-patched with the counter of the same start; degenerate thresholds throw '
             'before finish; both projections read coordinates through the checking accessors; reverse direction uses reverse iterators of the same list; number formatting '
             'buffer/trim structure. Five instances are genuine defects of the unchanged tree (known findings F12-F14). NOT decided: numeric formatting values, agreement of '
             'independent decoders on the encodings.',
        design='5/C17', note='trusts clang template instantiation of drivers/geom.cpp (3 back ends x 2 projections), CFG'),
    'C05': dict(
        technique='static analysis: who-may-enqueue rules on the typed call graph, CFG ordering/dominance rules on Reader::read and the nested-buffer code, entity-mask guard extraction per decoder, reuse of the C19 monitor rules',
        text='Decides each link of the implementation\'s order argument: pool tasks never enqueue and each queue has one producer thread; the future returned by submit is enqueued in the '
             'same iteration, one enqueue per blob; FIFO monitor discipline (C19 rules); Reader::read drains back buffers before popping, unwinds nested buffers from the deepest, marks eof at '
             'the end marker and pops only in status okay; nested buffers are never empty, moves keep the chain, every taken/swapped-out buffer is sent and the final buffer flushed; every '
             'object creation is guarded by the entity mask of its own kind, each PBF field consumed exactly once, read_meta switches metadata only, options forwarded unchanged. '
             'NOT decided: behaviour under real schedules, decoder content (C01/C02).',
        design='5/C05', note='trusts clang CFG and the resolved call graph (no edges through expat C callbacks), driver instantiation set'),
    'C10': dict(
        technique='static analysis: pipeline-order/dominance rules on BasicAssembler::create_rings, reject-flow path search over three-valued conditions, SORTED engine, symbolic execution of segment predicates over order-type worlds (polynomial values)',
        text='Decides the structural clauses only: stage order of create_rings and that no accepting path bypasses a stage; every rejecting result propagates to a false return; each problem '
             'counter is paired with its problem-reporter call; every binary search/adjacent_find on the sorted vectors uses the sort key and is reached only after the sort with no insertion in '
             'between; segment normal form and primary sort key; the sweep pre-filters only skip provably disjoint ranges (for all coordinate orderings); the ray-crossing interval convention '
             'counts each end point exactly once; rings are added and the buffer committed only after success, rolled back otherwise; duplicates cancel in pairs. '
             'NOT decided (the bulk of the property): validity, orientation, nesting, even-odd coverage, permutation invariance of the assembled geometry.',
        design='5/C10', note='narrow structural clauses; trusts clang CFG/template instantiation of drivers/relarea.cpp, the frozen counter<->report table'),
    'C11': dict(
        technique='static analysis: SORTED engine (sort-before-search, comparator-key prefix agreement), CFG pairing/ordering rules on track/add/remove/handle_complete_relation, dispatch-table agreement',
        text='Decides: the members-database search key is a prefix of its sort key, the searched vector is sorted over its whole range by the prepare step every lookup follows, key fields are '
             'never written after construction; track pairs one insert with one increment; add() decrements once per found element, tests has_all_members after the decrement and calls the '
             'functor only then, after the object was stored; remove() releases from the stash only when it is the last user, evaluated before marking; handle_complete_relation calls the '
             'callback exactly once before any release and releases every wanted member; per member exactly one of track / set_ref(0) tied to the interest test, consumers skip ref 0; '
             'member_database dispatch. NOT decided: exactly-once over all histories, lookup-after-release behaviour.',
        design='5/C11', note='trusts clang CFG/template instantiation of drivers/relarea.cpp'),
    'C12': dict(
        technique='static analysis: sibling-agreement rules over every Map subclass (miss-path analysis of get/get_noexcept), bounds-evidence dominance, sort/search key agreement, bit-slice tiling, ERRDISC on mmap calls',
        text='Decides for all registered map implementations: every path of get() that does not return a stored value throws not_found and get_noexcept returns empty_value (incl. the '
             'empty-value and key-mismatch tests); dense element access only after size evidence; binary-search key is a prefix of the sort key and sort() exists; FlexMem block/offset tile the '
             'id bits, switch_to_dense carries every entry before clearing and set_sparse stores before switching, mode dispatch; NodeLocationsForWays sorts both storages under the flag '
             'before any lookup, sets the flag on every descent and resets the sentinel to the maximum; mmap vector growth fills with empty_value; dumps write the whole vector; registration '
             'table unique and consistent; mmap/mremap/ftruncate/fstat errors reach a throw. NOT decided: equality of implementations over histories, growth arithmetic, dump byte layout.',
        design='5/C12', note='trusts clang CFG/template instantiation (drivers index, c12_extra), std container semantics'),
    'C15': dict(
        technique='static analysis: bit-slice symbolic evaluation of IdSetDense index arithmetic, sort/unique/search key agreement for relations maps, CFG pairing rules for ItemStash',
        text='Decides: IdSetDense bitmask/offset/chunk_id partition the id bits exactly once and chunk sizes agree; the end sentinel is representable (one instance is the genuine defect F16); '
             'iterator skip constants; chunk access guarded; size counter changes exactly on bit flips; copy/swap/clear touch every member; flat_map and IdSetSmall search keys are prefixes of '
             'the sort key, sort->unique->erase; every map moved into an index was sort_unique\'d after its last modification; 32->64 merge appends every element; narrow store guarded; '
             'ItemStash remove pairs all four updates, GC rewrites exactly the matching index slot via the callback before memmove, handles are 1-based with a private constructor. '
             'NOT decided: model equivalence over histories, the should_gc heuristic.',
        design='5/C15', note='trusts clang CFG/template instantiation (drivers index, core), std algorithm semantics'),
    'C13': dict(
        technique='static analysis: interval abstract interpretation (IVAL) of each parser/formatter CFG with exact integer ranges per type, plus failure-assumption walks for strto* sites',
        text='Decides: every scaled accumulator update in the coordinate/number parsers stays in range on all paths (bounded trip count or a limit test first); strtoll/strtoul call sites '
             'reject saturation, trailing characters, empty conversions and leading space; set_lon/set_lat(const char*) consume the whole string; every signed negation excludes the type '
             'minimum; every narrowing conversion of a parsed value is range-checked; digit arithmetic evaluates within 0..9/0..15. Three instances are genuine defects (F6, F17, F18). '
             'NOT decided: parse(format(x)) == x for all x, rounding correctness, calendar arithmetic.',
        design='5/C13', note='trusts clang expression types (LP64), CFG; interval analysis is sound by construction (widening only at back edges)'),
    'C14': dict(
        technique='static analysis: exact character-set (interval) evaluation of the escapers\' predicates and bit-slice symbolic evaluation of hex/UTF-8 emitters, compared with the parsers\' own delimiter/decoder tables',
        text='Decides exactly (over all 0x110000 code points, by interval arithmetic on the condition ASTs, never by running code): the OPL pass-through set is disjoint from every '
             'delimiter the OPL reader reacts to; every code point is passed or escaped; escape frame and hex alphabet match the reader; hex numerals are positional and within the reader\'s '
             'digit limit; UTF-8 encode/decode tables; the XML entity table covers & < > " \' \\n \\r \\t with well-formed references; every object string flows through the escaper; '
             'cursor advances are NUL-guarded and the UTF-8 decode is bounded. NOT decided: value-level round trip of whole strings, expat behaviour, malformed continuation bytes.',
        design='5/C14', note='trusts clang constant folding/AST, the driver instantiation set; CHARSET engine cross-checked against brute force on synthetic predicates'),
    'C16': dict(
        technique='static analysis: ORDERTYPE abstract interpretation - proof that comparators are comparison-only, then exhaustive enumeration of all weak orderings of arguments and constants',
        text='Decides for ALL 64-bit ids (finite exhaustive abstraction, not sampling): id_order is comparison-only and a strict weak order equal to the documented 0/negative/positive rule; '
             'tuple comparators are mirror-image lexicographic products whose key lists agree with each other, with id_order and with operator==; delegating operators reduce to the base '
             'relation; each CheckOrder handler throws iff a later type was seen or the id is not strictly after the stored maximum, and updates its state on accepted paths; '
             'ObjectPointerCollection forwards comparators unchanged. NOT decided: INT64_MIN through abs(), partially-set timestamps, semantics of std::tuple/std::stable_sort.',
        design='5/C16', note='trusts clang constant folding and CFG; std::tuple operator< and std algorithms assumed per the standard'),
    'C20': dict(
        technique='static analysis: switch/dispatch table extraction from the instantiated visitor code compared against an oracle built from the library\'s own declarations (item_type, is_compatible_to, Handler tables)',
        text='Decides for every apply_item_impl overload, the diff dispatcher, DynamicHandler, ChainHandler and wrapper_handler: per case label the right callbacks in the right order with the '
             'right cast target and constness; exhaustiveness with a throwing default; pack-order braced-list application and flush exactly once after the item loop; ItemIterator filters on '
             'every move; DiffIterator set_diff mirror conditions, shift order, end guards; InputIterator end state/refill. NOT decided: DiffIterator behaviour over all run-length patterns.',
        design='5/C20', note='trusts clang template instantiation of drivers/c20_extra.cpp, CFG'),
}

NOT_APPLICABLE = {
}

ALL = ['C%02d' % i for i in range(1, 21)]


def _rules_suffix(pid):
    """the rule modules grew after the texts above were written: append the rules that the last run actually applied (from the evidence file)"""
    import json as _j
    try:
        ev = _j.load(open(os.path.join(os.path.dirname(os.path.dirname(os.path.abspath(__file__))), 'evidence', pid + '.json')))
        rules = sorted((ev.get('coverage') or {}).get('instances_per_rule') or {})
    except Exception:  # noqa: BLE001
        rules = []
    if not rules:
        return ''
    return ' Structural clauses (rules) applied on the current tree, each a necessary condition of the property, not the behaviour itself: ' + ', '.join(rules) + '.'


def main():
    checks = []
    for pid in ALL:
        if pid not in CLAIMED:
            continue
        c = CLAIMED[pid]
        checks.append({
            'property_id': pid,
            'quick_cmd': './check %s --tier quick' % pid,
            'thorough_cmd': './check %s --tier thorough' % pid,
            'evidence_file': 'evidence/%s.json' % pid,
            'replay_cmd_template': './check %s --replay {path}' % pid,
            'engine': 'osmlint',
            'level_claimed': {'category': 'other', 'text': c['text'] + _rules_suffix(pid), 'design_ref': c['design']},
            'level_note': c['note'],
            'technique': c['technique'],
        })
    na = []
    for pid in ALL:
        if pid in CLAIMED:
            continue
        na.append({'property_id': pid, 'reason': NOT_APPLICABLE.get(pid, 'check not built yet in this revision; see DESIGN.md section 5 for the planned structural clauses')})
    man = {
        'version': 1,
        'setup_cmd': './setup.sh',
        'hooks': {
            'guard': 'OSMIUM_VERIF',
            'enable': 'no hooks are needed: all analyses read the unmodified headers; the guard name is reserved only',
            'baseline_off_cmd': 'cmake --build /repo/_build -j16 && ctest --test-dir /repo/_build -j8 --timeout 900',
            'source_commits': [],
            'add_only': True,
        },
        'engines': [
            {'name': 'osmfacts', 'path': 'tools/osmfacts.cpp', 'serves_properties': sorted(CLAIMED),
             'kind_free_text': 'libTooling fact extractor: resolved calls, CFG (setAllAlwaysAdd), records, enums of every instantiated function under /repo/include/osmium'},
            {'name': 'osmlint', 'path': 'osmlint/', 'serves_properties': sorted(CLAIMED),
             'kind_free_text': 'Python rule engines over the fact base (lockset, path search with barriers, guards/dominators, table agreement)'},
        ],
        'checks': checks,
        'not_applicable': na,
        'notes': 'Static analysis only. exit 0 held / exit 1 VIOLATION / exit 2 analysis-broken (anchor vanished, instance floor not met). '
                 'Known findings: known_findings.txt. Self-validation mutants: selftest/run.py (never part of a verdict).',
    }
    with open(os.path.join(VERIF, 'MANIFEST.json'), 'w') as f:
        json.dump(man, f, indent=1)
        f.write('\n')


if __name__ == '__main__':
    main()
