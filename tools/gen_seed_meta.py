#!/usr/bin/env python3
"""Write /verif/seeded/<name>/meta.json from notes.md, verify.json (tools/verify_seed.sh) and RESULTS.json (tools/run_seeded.py)."""
import json
import os
import re

VERIF = os.path.dirname(os.path.dirname(os.path.abspath(__file__)))
SD = os.path.join(VERIF, 'seeded')
res = {}
if os.path.exists(os.path.join(SD, 'RESULTS.json')):
    res = json.load(open(os.path.join(SD, 'RESULTS.json')))
for name in sorted(os.listdir(SD)):
    d = os.path.join(SD, name)
    if not os.path.isdir(d) or not os.path.exists(os.path.join(d, 'patch.diff')):
        continue
    notes = open(os.path.join(d, 'notes.md'), errors='replace').read() if os.path.exists(os.path.join(d, 'notes.md')) else ''
    files = sorted(set(re.findall(r'^\+\+\+ b/(\S+)', open(os.path.join(d, 'patch.diff')).read(), re.M)))
    ver = json.load(open(os.path.join(d, 'verify.json'))) if os.path.exists(os.path.join(d, 'verify.json')) else None
    r = res.get(name, {})
    caught = {p: v[1] for p, v in r.items() if isinstance(v, list) and v and v[0] == 1}
    meta = {
        'id': name,
        'breaks_property': name.split('-')[0],
        'origin': 'independent sub-agent given only the property record and its own scratch worktree (no access to /verif)',
        'files_changed': files,
        'what_it_needs_to_manifest': ' '.join(notes.split())[:1200],
        'confirmed_by_coordinator': ver,
        'what_was_run': 'tools/verify_seed.sh: scratch worktree of /repo, git apply patch.diff, cmake RelWithDebInfo build (project baseline flags), '
                        'ctest (159 tests), build_demo.sh against patched headers (must fail) and against original headers (must pass); worktree removed',
        'checks_that_report_it': caught,
        'detected': bool(caught),
    }
    with open(os.path.join(d, 'meta.json'), 'w') as f:
        json.dump(meta, f, indent=1)
print('meta written')
