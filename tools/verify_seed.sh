#!/bin/bash
# verify_seed.sh <seed-out-dir (contains patch.diff demo.cpp build_demo.sh)> <name>
# Confirms in a scratch worktree: patch applies, full build + 159 tests pass with it, demo fails with it, demo passes without.
# Writes <seed-out-dir>/verify.json.  Worktree and build output are removed afterwards.
set -u
OUT=$(realpath "$1"); NAME=$2
WT=/tmp/vseed/$NAME
rm -rf "$WT"; git -C /repo worktree prune; git -C /repo worktree add -f "$WT" HEAD -q || exit 3
cd "$WT"
res_apply=fail; res_build=fail; res_tests=""; res_demo_mut=""; res_demo_orig=""
PATCH="$OUT/patch.diff"; [ -f "$OUT/patch_fixed_tree.diff" ] && PATCH="$OUT/patch_fixed_tree.diff"
if git apply --check "$PATCH" 2>/dev/null && git apply "$PATCH"; then res_apply=ok; fi
if [ $res_apply = ok ]; then
  cmake -G Ninja -B _build -DCMAKE_BUILD_TYPE=RelWithDebInfo -DCMAKE_CXX_FLAGS=-Wno-error -DBUILD_DATA_TESTS=ON >/dev/null 2>&1
  if cmake --build _build -j${JOBS:-8} >/dev/null 2>&1; then res_build=ok; fi
  res_tests=$(ctest --test-dir _build -j8 --timeout 900 2>&1 | grep -E "tests passed|tests failed" | tail -1)
  ( cd "$OUT" && timeout 900 bash ./build_demo.sh "$WT/include" >"$OUT/verify_demo_mutant.log" 2>&1 ); res_demo_mut=$?
  git checkout -- include
  ( cd "$OUT" && timeout 900 bash ./build_demo.sh "$WT/include" >"$OUT/verify_demo_orig.log" 2>&1 ); res_demo_orig=$?
fi
cd /; git -C /repo worktree remove --force "$WT"; rm -rf "$WT"
# drop the demo binaries the build scripts leave behind (only sources, logs and verdicts are kept)
find "$OUT" -type f | while read f; do file "$f" | grep -q ELF && rm -f "$f"; done
python3 - "$OUT" "$res_apply" "$res_build" "$res_tests" "$res_demo_mut" "$res_demo_orig" <<'PY'
import json,sys
out,ap,b,t,dm,do=sys.argv[1:7]
ok = ap=='ok' and b=='ok' and '100% tests passed' in t and dm not in ('','0') and do=='0'
json.dump({'applies':ap,'builds':b,'tests':t,'demo_exit_with_patch':dm,'demo_exit_without_patch':do,'confirmed':ok}, open(out+'/verify.json','w'), indent=1)
print(out, 'CONFIRMED' if ok else 'NOT-CONFIRMED', ap,b,t,dm,do)
PY
