#!/usr/bin/env python3
"""Regenerate the auto-generated tables of DESIGN.md (between <!-- AUTO:name --> and <!-- /AUTO:name --> markers) from
evidence/*.json, selftest/mutants, seeded/RESULTS.json + meta.json, refactors/RESULTS.json."""
import importlib
import json
import os
import re
import sys

VERIF = os.path.dirname(os.path.dirname(os.path.abspath(__file__)))
sys.path.insert(0, os.path.join(VERIF, 'selftest'))
sys.dont_write_bytecode = True


def props():
    out = {}
    for l in open(os.path.join(VERIF, 'properties.jsonl')):
        p = json.loads(l)
        out[p['id']] = p
    return out


def table_checks():
    from mutants import MUTANTS
    man = json.load(open(os.path.join(VERIF, 'MANIFEST.json')))
    rows = ['| property | rules | instances (distinct constructs) | seeded self-test edits | engines / technique |', '|---|---|---|---|---|']
    for c in man['checks']:
        pid = c['property_id']
        ev = json.load(open(os.path.join(VERIF, 'evidence', pid + '.json')))
        cov = ev['coverage']
        nm = sum(1 for m in MUTANTS if m['prop'] == pid)
        rows.append('| %s | %d | %d | %d | %s |' % (pid, len(cov['instances_per_rule']), cov['distinct_nontrivial'], nm, c['technique'].replace('static analysis: ', '')))
    return '\n'.join(rows)


def table_seeded():
    res = json.load(open(os.path.join(VERIF, 'seeded', 'RESULTS.json')))
    rows = ['| seeded change | site | confirmed (builds, 159 tests pass, demo fails with / passes without) | reported by |', '|---|---|---|---|']
    n = c = 0
    for name in sorted(res):
        d = os.path.join(VERIF, 'seeded', name)
        if not os.path.exists(os.path.join(d, 'meta.json')):
            continue
        meta = json.load(open(os.path.join(d, 'meta.json')))
        r = res[name]
        caught = ['%s/%s' % (p, '+'.join(v[1])) for p, v in sorted(r.items()) if isinstance(v, list) and v and v[0] == 1]
        conf = meta.get('confirmed_by_coordinator') or {}
        n += 1
        c += 1 if caught else 0
        rows.append('| %s | %s | %s | %s |' % (name, ', '.join(os.path.basename(f) for f in meta['files_changed']),
                                               'yes' if conf.get('confirmed') else ('pending' if not conf else 'NO'),
                                               '; '.join(caught) if caught else '**missed**'))
    rows.append('')
    rows.append('%d of %d seeded changes are reported by at least one check.' % (c, n))
    return '\n'.join(rows)


def table_refactors():
    p = os.path.join(VERIF, 'refactors', 'RESULTS.json')
    res = json.load(open(p))
    bad = {n: {k: v for k, v in r.items() if isinstance(v, list) and v and v[0] != 0} for n, r in res.items()}
    nbad = sum(1 for b in bad.values() if b)
    rows = ['%d behaviour-preserving refactorings, %d checks each: %d raise an alarm on the current rules.' % (len(res), max(len(r) for r in res.values()), nbad)]
    for n in sorted(bad):
        if bad[n]:
            rows.append('* %s: %s' % (n, bad[n]))
    return '\n'.join(rows)


def main():
    p = os.path.join(VERIF, 'DESIGN.md')
    s = open(p).read()
    for name, fn in (('checks', table_checks), ('seeded', table_seeded), ('refactors', table_refactors)):
        a, b = '<!-- AUTO:%s -->' % name, '<!-- /AUTO:%s -->' % name
        if a in s and b in s:
            try:
                body = fn()
            except Exception as e:  # noqa: BLE001
                body = '(not generated: %s)' % e
            s = s[:s.index(a) + len(a)] + '\n' + body + '\n' + s[s.index(b):]
    open(p, 'w').write(s)


if __name__ == '__main__':
    main()
