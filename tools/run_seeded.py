#!/usr/bin/env python3
"""Run the registered checks against every seeded change in /verif/seeded/<id>/patch.diff (on a scratch copy of
/repo/include, removed afterwards).  Prints which checks report a VIOLATION for which seeded change.
usage: tools/run_seeded.py [-k substr] [--all-checks] [-j N]"""
import argparse
import json
import os
import re
import shutil
import subprocess
import sys
import tempfile
from concurrent.futures import ThreadPoolExecutor

VERIF = os.path.dirname(os.path.dirname(os.path.abspath(__file__)))
DIR = 'seeded'


def claimed():
    with open(os.path.join(VERIF, 'MANIFEST.json')) as f:
        return [c['property_id'] for c in json.load(f)['checks']]


def run_one(args):
    name, props = args
    d = os.path.join(VERIF, DIR, name)
    scratch = tempfile.mkdtemp(prefix='verif-seed-', dir='/var/tmp')
    try:
        shutil.copytree('/repo/include', os.path.join(scratch, 'include'))
        # a change written against the tree before the fix: commits may carry a hand-rebased twin for today's tree
        pf = os.path.join(d, 'patch_fixed_tree.diff')
        use = pf if os.path.exists(pf) else os.path.join(d, 'patch.diff')
        r = subprocess.run(['patch', '-p1', '-s', '-F0', '-d', scratch, '-i', use], stdout=subprocess.PIPE, stderr=subprocess.STDOUT, text=True)
        if r.returncode != 0:
            return name, {'_patch': 'does not apply: ' + r.stdout[-200:]}
        res = {}
        env = dict(os.environ, VERIF_EVIDENCE_DIR=os.path.join(scratch, 'ev'), VERIF_CACHE=os.path.join(scratch, 'cache'))
        for p in props:
            r = subprocess.run([os.path.join(VERIF, 'check'), p, '--repo', scratch], stdout=subprocess.PIPE, stderr=subprocess.STDOUT, text=True, env=env, cwd=VERIF)
            rules = sorted(set(re.findall(r'\[%s/([^\]]+)\]' % p, r.stdout)))
            res[p] = (r.returncode, rules)
        return name, res
    finally:
        shutil.rmtree(scratch, ignore_errors=True)


def main():
    ap = argparse.ArgumentParser()
    ap.add_argument('-k', default=None)
    ap.add_argument('--all-checks', action='store_true')
    ap.add_argument('-j', type=int, default=4)
    ap.add_argument('--dir', default='seeded', help='seeded (expect a violation) or refactors (behaviour-preserving: expect silence)')
    a = ap.parse_args()
    global DIR
    DIR = a.dir
    names = sorted(n for n in os.listdir(os.path.join(VERIF, DIR)) if os.path.exists(os.path.join(VERIF, DIR, n, 'patch.diff')))
    if a.k:
        names = [n for n in names if re.search(a.k, n)]
    cl = claimed()
    jobs = []
    for n in names:
        own = n.split('-')[0]
        props = cl if (a.all_checks or DIR != 'seeded') else [p for p in cl if p == own]
        jobs.append((n, props))
    # baseline: rules that already report something on the unmodified tree (work in progress) are not credited to a seed
    base = {}
    for pr in cl:
        r = subprocess.run([os.path.join(VERIF, 'check'), pr], stdout=subprocess.PIPE, stderr=subprocess.STDOUT, text=True, cwd=VERIF,
                           env=dict(os.environ, VERIF_EVIDENCE_DIR='/var/tmp/verif-baseline-ev'))
        base[pr] = set(re.findall(r'\[%s/([^\]]+)\]' % pr, r.stdout))
    shutil.rmtree('/var/tmp/verif-baseline-ev', ignore_errors=True)
    allres = {}
    with ThreadPoolExecutor(max_workers=a.j) as ex:
        for name, res in ex.map(run_one, jobs):
            for pr, v in list(res.items()):
                if pr != '_patch' and base.get(pr):
                    rules = [x for x in v[1] if x not in base[pr]]
                    res[pr] = (v[0] if (rules or v[0] != 1) else 0, rules)
            allres[name] = res
            fired = {p: v for p, v in res.items() if p != '_patch' and v[0] == 1}
            other = {p: v[0] for p, v in res.items() if p != '_patch' and v[0] not in (0, 1)}
            if DIR != 'seeded':
                bad = {p: v for p, v in res.items() if p != '_patch' and v[0] != 0}
                print('%-10s %s %s' % (name, 'silent' if not bad else 'FALSE-ALARM ' + ', '.join('%s(exit %d)%s' % (p, v[0], v[1]) for p, v in bad.items()), res.get('_patch', '')))
                continue
            print('%-10s %s %s %s' % (name, 'CAUGHT by ' + ', '.join('%s%s' % (p, v[1]) for p, v in fired.items()) if fired else 'missed',
                                      ('(exit!=0/1: %s)' % other) if other else '', res.get('_patch', '')))
    if a.all_checks or DIR != 'seeded':
        outp = os.path.join(VERIF, DIR, 'RESULTS.json')
        old = {}
        if os.path.exists(outp):
            with open(outp) as f:
                old = json.load(f)
        old.update(allres)
        with open(outp, 'w') as f:
            json.dump(old, f, indent=1, sort_keys=True)


if __name__ == '__main__':
    main()




